#!/bin/bash
# tools/try_seed.sh <seed-dir-name> <property> [more properties...]  : verify a seeded change and run the checks against it
set -u
NAME=$1; shift
PROPS="$@"
WT=/tmp/seed/$NAME
OUT=/verif/seeded/$NAME
mkdir -p $OUT
cd $WT || exit 2
git diff -- src > $OUT/patch.diff
cp SEED/demo.py $OUT/demo.py
cp SEED/meta.json $OUT/meta.agent.json 2>/dev/null
echo "== suite with change"; SUITE=$(PYTHONPATH=$WT/src:$WT/tests/tests_helpers /venv/bin/python -m pytest -q -p no:cacheprovider --timeout=900 -q 2>&1 | tail -1); echo "$SUITE"
echo "== demo with change"; PYTHONPATH=$WT/src /venv/bin/python SEED/demo.py > /tmp/seed/$NAME.with.txt 2>&1; RC_WITH=$?; tail -2 /tmp/seed/$NAME.with.txt | cut -c1-300
git stash -q
echo "== demo without change"; PYTHONPATH=$WT/src /venv/bin/python SEED/demo.py > /tmp/seed/$NAME.without.txt 2>&1; RC_WITHOUT=$?; tail -1 /tmp/seed/$NAME.without.txt | cut -c1-200
git stash pop -q
echo "rc_with=$RC_WITH rc_without=$RC_WITHOUT"
# the checks run against a scratch worktree of /repo's HEAD with the change applied (VERIF_REPO), so /repo itself stays
# untouched while other work reads it
RUN=/tmp/seedrun.$$
git -C /repo worktree add --detach -q $RUN HEAD || exit 2
git -C $RUN apply $OUT/patch.diff || { echo "patch does not apply to /repo HEAD"; git -C /repo worktree remove --force $RUN; exit 2; }
export VERIF_REPO=$RUN
RES=""
for P in $PROPS; do
  cd /verif
  LINE=$(./check $P --tier quick 2>&1 | grep -E "^(VIOLATION|OK|INFRA)" | tail -1)
  DETAIL=$(./check $P --tier quick 2>&1 | grep -A1 -E "^VIOLATION" | tail -1 | cut -c1-300)
  echo "== check $P: $LINE"; echo "   $DETAIL"
  RES="$RES{\"check\":\"$P\",\"line\":$(/venv/bin/python -c 'import json,sys; print(json.dumps(sys.argv[1]))' "$LINE"),\"detail\":$(/venv/bin/python -c 'import json,sys; print(json.dumps(sys.argv[1]))' "$DETAIL")},"
done
unset VERIF_REPO
git -C /repo worktree remove --force $RUN
cd /verif
/venv/bin/python - "$NAME" "$SUITE" "$RC_WITH" "$RC_WITHOUT" "[${RES%,}]" <<'PY'
import json,sys
name,suite,rw,rwo,res=sys.argv[1:6]
p=f"/verif/seeded/{name}/meta.json"
try: agent=json.load(open(f"/verif/seeded/{name}/meta.agent.json"))
except Exception: agent={}
try: old=json.load(open(p)).get("checks_run",[])
except Exception: old=[]
new=json.loads(res)
merged={c["check"]:c for c in old}; merged.update({c["check"]:c for c in new})
res=json.dumps(list(merged.values()))
meta={"property":agent.get("property",name[:3]),"summary":agent.get("summary"),"needs":agent.get("needs"),
      "why_tests_pass":agent.get("why_tests_pass"),"files":agent.get("files"),
      "verified":{"suite_with_change":suite,"demo_exit_with_change":int(rw),"demo_exit_without_change":int(rwo)},
      "checks_run":json.loads(res)}
json.dump(meta,open(p,"w"),indent=1)
print("stored", p)
PY
# regenerate the models from the clean tree again
for P in $PROPS; do ./check $P --tier quick > /dev/null 2>&1; done
git -C /repo status --short | head -2
