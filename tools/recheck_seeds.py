#!/venv/bin/python
"""Re-run the checks against every stored seeded change: tools/recheck_seeds.py [names...]
Each change is applied to a scratch worktree of /repo's HEAD (never to /repo itself), the quick check of its property runs
with VERIF_REPO pointing there, and the verdict line is stored in seeded/<name>/meta.json under "recheck"."""
import json, os, subprocess, sys, tempfile
from pathlib import Path
HERE = Path(__file__).resolve().parent.parent
names = sys.argv[1:] or sorted(p.name for p in (HERE / "seeded").iterdir() if (p / "patch.diff").exists())
rows = []
for name in names:
    d = HERE / "seeded" / name
    meta = json.loads((d / "meta.json").read_text())
    props = [c["check"] for c in meta.get("checks_run", [])] or [meta.get("property", name[:3])]
    run = Path(tempfile.mkdtemp(prefix="seedrun.", dir="/tmp"))
    run.rmdir()
    subprocess.run(["git", "-C", "/repo", "worktree", "add", "--detach", "-q", str(run), "HEAD"], check=True)
    try:
        ap = subprocess.run(["git", "-C", str(run), "apply", str(d / "patch.diff")], capture_output=True, text=True)
        if ap.returncode != 0:
            rows.append((name, "-", "patch does not apply to /repo HEAD: " + ap.stderr.strip()[:120]))
            continue
        demo = subprocess.run(["/venv/bin/python", str(d / "demo.py")], env=dict(os.environ, PYTHONPATH=f"{run}/src"),
                              capture_output=True, text=True, timeout=900)
        out = []
        for p in props:
            r = subprocess.run([str(HERE / "check"), p, "--tier", "quick"], cwd=HERE, env=dict(os.environ, VERIF_REPO=str(run)),
                               capture_output=True, text=True)
            lines = [l for l in r.stdout.splitlines() if l.startswith(("OK", "VIOLATION", "INFRA"))]
            out.append({"check": p, "rc": r.returncode, "line": lines[-1] if lines else r.stdout[-200:]})
            rows.append((name, p, f"demo_rc={demo.returncode} rc={r.returncode} {out[-1]['line'][:150]}"))
        meta["recheck"] = {"demo_exit_with_change": demo.returncode, "checks": out}
        (d / "meta.json").write_text(json.dumps(meta, indent=1))
    finally:
        subprocess.run(["git", "-C", "/repo", "worktree", "remove", "--force", str(run)])
for r in rows:
    print(*r, flush=True)
