#!/venv/bin/python
"""Regenerate seeded/README.md from the meta.json files (the `recheck` entry written by tools/recheck_seeds.py wins)."""
import json
from pathlib import Path
HERE = Path(__file__).resolve().parent.parent
rows = []
for d in sorted((HERE / "seeded").iterdir()):
    if not (d / "meta.json").exists():
        continue
    m = json.loads((d / "meta.json").read_text())
    checks = (m.get("recheck") or {}).get("checks") or m.get("checks_run") or []
    verdicts = []
    for c in checks:
        line = c.get("line", "")
        v = "concrete replay" if line.startswith("VIOLATION") and "no-failing-input-found" not in line else \
            "no-failing-input-found" if line.startswith("VIOLATION") else "not reported" if line.startswith("OK") else line[:40]
        verdicts.append(f"{c['check']}: {v}")
    summary = (m.get("summary") or "").replace("|", "\\|").replace("\n", " ")
    rows.append(f"| {d.name} | {summary[:230]} | {'; '.join(verdicts)} |")
text = """# Seeded breaking changes

Each directory holds `patch.diff` (against /repo's HEAD), `demo.py` (exits 0 without / non-zero with the change) and `meta.json`
(property, what the change needs to manifest, what was verified, what the checks reported; `recheck` = the latest run of
`tools/recheck_seeds.py`, which applies the patch to a scratch worktree of /repo's HEAD and runs the quick check with VERIF_REPO).
All were produced by fresh sub-agents that saw only the property text and a scratch worktree; every one passes the whole existing
suite. `Cxx` = first wave, `Cxxb` = second wave (a different mechanism for the same property).

| id | change | checks (final state) |
|---|---|---|
""" + "\n".join(rows) + "\n"
(HERE / "seeded" / "README.md").write_text(text)
print(len(rows), "rows")
