#!/venv/bin/python
"""resolve a merge conflict in known_findings.jsonl by keeping every distinct line of both sides"""
import json, sys
from pathlib import Path
p = Path(__file__).resolve().parent.parent / "known_findings.jsonl"
seen, out = set(), []
for l in p.read_text().splitlines():
    if not l.strip() or l.startswith(("<<<<<<<", "=======", ">>>>>>>")):
        continue
    r = json.loads(l)
    k = (r["property"], r["kind"], r["signature"])
    if k in seen:
        continue
    seen.add(k)
    out.append(json.dumps(r))
p.write_text("\n".join(out) + "\n")
print(len(out), "entries")
