#!/venv/bin/python
"""Run every claimed check with several seeds (clean-tree self test): tools/sweep.py [tier] [seeds...]"""
import json, os, subprocess, sys, concurrent.futures as cf
from pathlib import Path
HERE = Path(__file__).resolve().parent.parent
tier = sys.argv[1] if len(sys.argv) > 1 else "quick"
seeds = [int(s) for s in sys.argv[2:]] or [0, 1, 2]
props = [c["property_id"] for c in json.loads((HERE / "MANIFEST.json").read_text())["checks"]]
only = os.environ.get("ONLY")
if only:
    props = [p for p in props if p in only.split(",")]
def run(job):
    pid, seed = job
    env = dict(os.environ, VERIF_SEED=str(seed))
    p = subprocess.run([str(HERE / "check"), pid, "--tier", tier], cwd=HERE, env=env, capture_output=True, text=True)
    last = [l for l in (p.stdout + p.stderr).splitlines() if l.startswith(("OK", "VIOLATION", "INFRA"))]
    return pid, seed, p.returncode, (last[-1] if last else (p.stdout + p.stderr)[-300:])
with cf.ThreadPoolExecutor(max_workers=int(os.environ.get("JOBS", "6"))) as ex:
    bad = 0
    for pid, seed, rc, line in ex.map(run, [(p, s) for s in seeds for p in props]):
        flag = "" if rc == 0 else "   <<<<<<"
        if rc: bad += 1
        print(f"{pid} seed={seed} rc={rc} {line[:200]}{flag}", flush=True)
print("non-zero:", bad)
