"""Generated models behind name_mapping options: nested `map` paths, extra-data policies (skip / forbid / collect into a field /
kwargs), omit_default, required and defaulted fields of scalar, container and mapping types - and input data built from the
documented layout: optional keys omitted, unknown keys (also non-str, mutually unorderable ones) at every mapping level, wrong
leaves. Shared by C01 (round trip), C04 (only LoadError) and C06 (modes agree)."""
import copy
import dataclasses
from dataclasses import make_dataclass


class _Dflt:
    """marker default of the hand-written constructor (mutable defaults are copied per object)"""
    def __init__(self, v):
        self.v = v

    def __repr__(self):
        return f"<default {self.v!r}>"


class Odd:
    """an unknown-key / wrong-value object no loader accepts"""
    def __repr__(self):
        return "<Odd>"


FIELD_KINDS = {
    # kind -> (hint, valid values, default (None = required only), wrong value)
    "int": (int, [0, 1, -7, 10 ** 12], 0),
    "str": (str, ["", "a", "xyz"], ""),
    "list": (list[int], [[], [1, 2]], []),
    "dict": (dict[str, int], [{}, {"k": 1}], {}),
    "opt": (int | None, [None, 3], None),
}


def gen_case(rng, i):
    from adaptix import ExtraForbid, ExtraKwargs, ExtraSkip, name_mapping
    n = rng.randint(2, 5)
    names = [f"f{j}" for j in range(n)]
    kinds = {nm: rng.choice(list(FIELD_KINDS)) for nm in names}
    optional = {nm: rng.random() < 0.55 for nm in names}
    if all(optional.values()):
        optional[names[0]] = False
    extra_mode = rng.choice(["skip", "skip", "forbid", "forbid", "collect", "kwargs"])
    fields = []
    for nm in sorted(names, key=lambda x: optional[x]):
        hint, _vals, dflt = FIELD_KINDS[kinds[nm]]
        if optional[nm]:
            fld = dataclasses.field(default_factory=lambda d=dflt: copy.deepcopy(d)) if isinstance(dflt, (list, dict)) \
                else dataclasses.field(default=dflt)
            fields.append((nm, hint, fld))
        else:
            fields.append((nm, hint))
    if extra_mode == "collect":
        fields.append(("extra", dict, dataclasses.field(default_factory=dict)))
    cls = make_dataclass(f"PL{i}", fields)
    twin = cls        # the class whose dumper produces the documented layout of valid data
    if extra_mode == "kwargs":
        # a plain class whose constructor takes the fields and **kwargs (what ExtraKwargs() delivers unknown keys to)
        params = []
        for nm in sorted(names, key=lambda x: optional[x]):
            params.append(f"{nm}: hints[{nm!r}]" + (f" = dflt({nm!r})" if optional[nm] else ""))
        src = (f"def __init__(self, {', '.join(params)}, **kwargs):\n"
               + "".join(f"    self.{nm} = fix({nm})\n" for nm in names) + "    self.kwargs = kwargs\n")
        ns = {"hints": {nm: FIELD_KINDS[kinds[nm]][0] for nm in names},
              "dflt": lambda nm: _Dflt(FIELD_KINDS[kinds[nm]][2]), "fix": lambda v: copy.deepcopy(v.v) if isinstance(v, _Dflt) else v}
        exec(src, ns)  # noqa: S102

        def _eq(self, other):
            return type(other) is type(self) and self.__dict__ == other.__dict__

        def _repr(self):
            return f"{type(self).__name__}({self.__dict__})"
        cls = type(f"PL{i}", (), {"__init__": ns["__init__"], "__eq__": _eq, "__repr__": _repr, "__hash__": None})
    prefixes = [(), (), (), ("n1",), ("n1", "n2"), ("m1",)]
    paths = {nm: (*rng.choice(prefixes), nm if rng.random() < 0.7 else f"key-{nm}") for nm in names}
    mapping = {nm: (p if len(p) > 1 else p[0]) for nm, p in paths.items() if p != (nm,)}
    omit_default = rng.random() < 0.4
    extra_in = {"skip": ExtraSkip(), "forbid": ExtraForbid(), "collect": "extra", "kwargs": ExtraKwargs()}[extra_mode]
    kw = {"map": mapping, "extra_in": extra_in, "omit_default": omit_default}
    if extra_mode == "collect":
        kw["extra_out"] = "extra"

    def recipe():
        if twin is not cls:
            return [name_mapping(cls, **kw), name_mapping(twin, map=mapping, omit_default=omit_default)]
        return [name_mapping(cls, **kw)]

    def good(r, retort):
        """-> (value of cls or None, datum in the documented layout)"""
        x = value(r)
        if twin is cls:
            return x, retort.dump(x, cls)
        t = twin(**{nm: getattr(x, nm) for nm in names})
        return x, {**retort.dump(t, twin), **x.kwargs}

    def value(r):
        v = {nm: copy.deepcopy(r.choice(FIELD_KINDS[kinds[nm]][1])) for nm in names}
        for nm in names:
            if optional[nm] and r.random() < 0.5:
                v[nm] = copy.deepcopy(FIELD_KINDS[kinds[nm]][2])      # exactly the default
        if extra_mode == "collect":
            v["extra"] = r.choice([{}, {"u1": 1}, {"u1": [1], "u2": "x"}])
        if extra_mode == "kwargs":
            v.update(r.choice([{}, {"u1": 1}]))
        return cls(**v)
    return {"cls": cls, "names": names, "kinds": kinds, "optional": optional, "paths": paths, "extra_mode": extra_mode,
            "omit_default": omit_default, "recipe": recipe, "value": value, "good": good, "dumpable": twin is cls,
            "desc": {"fields": {nm: [kinds[nm], "optional" if optional[nm] else "required", list(paths[nm])] for nm in names},
                     "extra_in": extra_mode, "omit_default": omit_default}}


def _set_at(d, path, value):
    out = dict(d)
    if len(path) == 1:
        out[path[0]] = value
    else:
        out[path[0]] = _set_at(d.get(path[0], {}), path[1:], value)
    return out


def _del_at(d, path):
    out = dict(d)
    if len(path) == 1:
        out.pop(path[0], None)
    elif isinstance(out.get(path[0]), dict):
        out[path[0]] = _del_at(out[path[0]], path[1:])
    return out


def mutate(rng, case, good):
    """-> (datum, tags): optional keys omitted, unknown keys added (root / nested levels; str or odd keys), wrong leaves"""
    d, tags = copy.deepcopy(good), []
    names = case["names"]
    for nm in names:
        if case["optional"][nm] and rng.random() < 0.4:
            d = _del_at(d, case["paths"][nm])
            tags.append("omitted-optional")
    if rng.random() < 0.15:
        nm = rng.choice([n for n in names if not case["optional"][n]])
        d = _del_at(d, case["paths"][nm])
        tags.append("omitted-required")
    levels = sorted({case["paths"][nm][:-1] for nm in names})
    n_unknown = rng.choice([0, 0, 1, 1, 2, 3])
    odd_keys = rng.random() < 0.25
    for _ in range(n_unknown):
        level = rng.choice(levels)
        key = rng.choice([None, 7, 1.5, (1, 2), "zz", "u9"]) if odd_keys else rng.choice(["zz", "u9", "unknown", "f99"])
        node = d
        ok = True
        for k in level:
            node = node.get(k) if isinstance(node, dict) else None
            if not isinstance(node, dict):
                ok = False
                break
        if ok:
            d = _set_at(d, (*level, key), rng.choice([1, "x", [1], None]))
            tags.append("unknown-odd-key" if not isinstance(key, str) else "unknown-key")
    if rng.random() < 0.3:
        nm = rng.choice(names)
        node = d
        for k in case["paths"][nm][:-1]:
            node = node.get(k) if isinstance(node, dict) else None
        if isinstance(node, dict) and case["paths"][nm][-1] in node:
            d = _set_at(d, case["paths"][nm], Odd())
            tags.append("wrong-leaf")
    if rng.random() < 0.3:
        # a fault INSIDE a container value: the error reaching the model loader already carries a trail
        cands = [nm for nm in names if case["kinds"][nm] in ("list", "dict")]
        if cands:
            nm = rng.choice(cands)
            d = _set_at(d, case["paths"][nm], [1, Odd(), 3] if case["kinds"][nm] == "list" else {"k": 1, "bad": Odd()})
            tags.append("wrong-inner")
    if rng.random() < 0.08:
        level = rng.choice([lv for lv in levels if lv] or [()])
        if level:
            d = _set_at(d, level, rng.choice([None, [], "str", 5]))
            tags.append("wrong-branch")
    return d, sorted(set(tags))
