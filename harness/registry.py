"""Single source of truth for MANIFEST.json (`./mkmanifest` rewrites it from here)."""

ALL_IDS = [f"C{n:02d}" for n in range(1, 21)]

COMMON_NOTE = (
    "Trusted: Lean 4.33 kernel; axioms audited each run (subset of propext, Classical.choice, Quot.sound; no "
    "native_decide/bv_decide/sorry/axiom). The theorem is about the Lean model; the model is tied to /repo on every run by "
)

# property id -> claim. Properties absent from CLAIMS are listed under not_applicable with NOT_YET[pid].
CLAIMS: dict[str, dict] = {
    "C09": {
        "technique": "Lean 4 proof (refinement of the optimised router/bus to linear first-match) + model/code correspondence",
        "text": (
            "Proved in Lean for every recipe length, checker arrangement and request: the handlers handed out by the "
            "ExactOriginCombiner/LocatedRequestRouter model are exactly the matching providers in recipe order, each "
            "once (combine_refines_linear, no_provider_twice); the bus with ChainingProvider equals the documented "
            "first-match/Chain.FIRST/Chain.LAST meaning (send_eq_spec, chain_first_once, chain_last_once); extend "
            "prepends. The model is tied to the code by four correspondences (router items, router walk, bus outcome "
            "with the real ChainingProvider, public facade incl. extend/replace/nested retort)."
        ),
        "note": COMMON_NOTE + "differential correspondence (exhaustive over short recipes, random beyond). Checkers are assumed pure; "
                "predicates themselves are C10.",
        "design_ref": "DESIGN.md §4 C09",
    },
}

NOT_YET = {pid: "machinery for this property is not built yet (DESIGN.md §4 describes the planned Lean model and theorems); not claimed until its check exists"
           for pid in ALL_IDS}
