"""Single source of truth for MANIFEST.json (`./mkmanifest` rewrites it from here).

A property is claimed iff harness/props/cXX.py exists and defines CLAIM =
{"technique", "text", "note", "design_ref"}.  Everything else is listed under
not_applicable with the reason in NOT_CLAIMED.
"""
import importlib
from pathlib import Path

ALL_IDS = [f"C{n:02d}" for n in range(1, 21)]

COMMON_NOTE = (
    "Trusted: Lean 4.33 kernel; axioms audited each run (subset of propext, Classical.choice, Quot.sound; no "
    "native_decide/bv_decide/sorry/axiom). The theorem is about the Lean model; the model is tied to /repo on every run by "
)

NOT_CLAIMED = {pid: "machinery for this property is not built yet (DESIGN.md §4 describes the planned Lean model and "
                    "theorems); not claimed until its check exists" for pid in ALL_IDS}


def claims() -> dict[str, dict]:
    out = {}
    for pid in ALL_IDS:
        f = Path(__file__).parent / "props" / f"{pid.lower()}.py"
        if not f.exists():
            continue
        mod = importlib.import_module(f"harness.props.{pid.lower()}")
        c = getattr(mod, "CLAIM", None)
        lean = Path(__file__).parent.parent / "lean"
        if c and (lean / mod.PROPS_FILE).exists():   # claimed only once its property theorems exist
            out[pid] = c
    return out
