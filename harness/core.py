"""Shared machinery of the adaptix verification checks.

Decision rule of every check (DESIGN.md §1):
  1. regenerate the translated model parts from /repo's working tree,
     `lake build` the property's proof module and driver, audit axioms;
  2. run the correspondence (real library vs the model's executable
     definitions through the line protocol) and, on the same cases, the
     property's direct oracle on the real library;
  3. all green -> KNOWN-FINDING lines for listed findings, evidence, exit 0;
  4. a proof obligation / the translator / a correspondence broke -> not yet a
     violation: run the property-directed search on the real code. A concrete
     failing input -> VIOLATION with that replay; none -> VIOLATION ...
     no-failing-input-found, the replay naming what no longer checks.
"""
from __future__ import annotations

import fcntl
import hashlib
import json
import os
import random
import re
import subprocess
import sys
import time
from collections import Counter
from pathlib import Path

VERIF = Path(__file__).resolve().parent.parent
REPO = Path(os.environ.get("VERIF_REPO", "/repo")).resolve()
LEAN_DIR = VERIF / "lean"
EVIDENCE_DIR = VERIF / "evidence"
REPLAY_DIR = VERIF / "replays"
KNOWN_FINDINGS = VERIF / "known_findings.jsonl"
GUARD = "REAGENTO_ADAPTIX_VERIF"

ALLOWED_AXIOMS = {"propext", "Classical.choice", "Quot.sound"}
FORBIDDEN_TOKENS = re.compile(
    r"\b(sorry|admit|native_decide|bv_decide|implemented_by|unsafe)\b|^\s*axiom\s|maxHeartbeats\s+0\b",
    re.M,
)

TRUSTED_BASE_COMMON = [
    "Lean 4.33.0 kernel (lake build; leanchecker re-check in the thorough tier)",
    "axioms of every property theorem audited on each run to be a subset of {propext, Classical.choice, Quot.sound}; no native_decide/bv_decide/sorry/axiom (grep + #print axioms)",
    "the correspondence harness (generators, canonicaliser, JSON line protocol) ties the hand-written model to the code by differential testing; what it saw is counted below, not assumed",
]


def use_repo_sources() -> None:
    """Make `import adaptix` resolve to the working tree under test."""
    src = str(REPO / "src")
    if src not in sys.path:
        sys.path.insert(0, src)
    os.environ.setdefault(GUARD, "1")


def limit_memory():
    """a runaway generated case must not take the machine down: MemoryError instead. Called AFTER the Lean build and audit:
    the limit is inherited by child processes, and `lean` maps several GB of .olean files plus thread stacks (an aborted
    `lean` under the limit showed up as a transient `exited with code 134`)."""
    try:
        import resource
        lim = 24 * 2 ** 30
        resource.setrlimit(resource.RLIMIT_AS, (lim, resource.RLIM_INFINITY))
    except Exception:  # noqa: BLE001
        pass


class InfraError(Exception):
    pass


# --------------------------------------------------------------------------
# Lean side
# --------------------------------------------------------------------------

class BuildResult:
    def __init__(self, ok: bool, log: str, failed_targets: list[str], errors: list[str]):
        self.ok = ok
        self.log = log
        self.failed_targets = failed_targets
        self.errors = errors


def _lock():
    LEAN_DIR.mkdir(exist_ok=True)
    f = open(LEAN_DIR / ".build.lock", "w")
    fcntl.flock(f, fcntl.LOCK_EX)
    return f


_HELD = []   # the check holds the lock over translate + build + audit (one unit: generated files belong to one run)


def hold_build_lock():
    if not _HELD:
        _HELD.append(_lock())


def release_build_lock():
    while _HELD:
        _HELD.pop().close()


class _NoLock:
    def close(self):
        pass


def lake_build(targets: list[str], timeout: int = 3000) -> BuildResult:
    lock = _NoLock() if _HELD else _lock()
    try:
        for attempt in (1, 2):
            p = subprocess.run(
                ["lake", "build", *targets], cwd=LEAN_DIR, capture_output=True, text=True, timeout=timeout,
            )
            # a killed / aborted compiler process (out of memory on a loaded machine) is not a proof failure: once more
            if p.returncode == 0 or not re.search(r"exited with code (134|137|139)", p.stdout + p.stderr) or attempt == 2:
                break
    except subprocess.TimeoutExpired as e:
        raise InfraError(f"lake build timed out: {e}")
    finally:
        lock.close()
    log = p.stdout + p.stderr
    failed = re.findall(r"^- (\S+)$", log, re.M)
    errors = re.findall(r"^error: (.*)$", log, re.M)
    return BuildResult(p.returncode == 0, log, failed, errors)


def strip_lean_comments(src: str) -> str:
    # remove nested block comments and line comments
    out = []
    i, depth, n = 0, 0, len(src)
    while i < n:
        if src.startswith("/-", i):
            depth += 1
            i += 2
        elif depth and src.startswith("-/", i):
            depth -= 1
            i += 2
        elif depth:
            i += 1
        elif src.startswith("--", i):
            j = src.find("\n", i)
            i = n if j < 0 else j
        else:
            out.append(src[i])
            i += 1
    return "".join(out)


def forbidden_token_hits(files: list[Path]) -> list[str]:
    hits = []
    for f in files:
        text = strip_lean_comments(f.read_text())
        # string literals may legitimately contain the words (e.g. identifiers tables)
        text_nostr = re.sub(r'"(?:\\.|[^"\\])*"', '""', text)
        for m in FORBIDDEN_TOKENS.finditer(text_nostr):
            line = text_nostr.count("\n", 0, m.start()) + 1
            hits.append(f"{f.relative_to(LEAN_DIR)}:{line}: {m.group(0).strip()}")
    return hits


def theorems_of(props_file: Path) -> list[str]:
    """Fully qualified names of the theorems declared in a Props file."""
    text = strip_lean_comments(props_file.read_text())
    names = []
    ns: list[str] = []
    for line in text.splitlines():
        m = re.match(r"\s*namespace\s+(\S+)", line)
        if m:
            ns.append(m.group(1))
            continue
        m = re.match(r"\s*end\s+(\S+)", line)
        if m and ns and ns[-1] == m.group(1):
            ns.pop()
            continue
        m = re.match(r"\s*(?:@\[[^\]]*\]\s*)?(?:private\s+|protected\s+)?theorem\s+(\S+)", line)
        if m:
            names.append(".".join(ns + [m.group(1)]))
    return names


def audit_axioms(pid: str, props_modules, theorems: list[str]) -> dict[str, list[str]]:
    """Runs `#print axioms` on every theorem; returns name -> axioms."""
    audit_dir = LEAN_DIR / "Audit"
    audit_dir.mkdir(exist_ok=True)
    f = audit_dir / f"{pid}.lean"
    f.write_text(
        "".join(f"import {m}\n" for m in ([props_modules] if isinstance(props_modules, str) else props_modules))
        + "".join(f"#print axioms {t}\n" for t in theorems)
    )
    lock = _NoLock() if _HELD else _lock()
    try:
        p = subprocess.run(["lake", "env", "lean", str(f)], cwd=LEAN_DIR, capture_output=True, text=True, timeout=1200)
    finally:
        lock.close()
    out = p.stdout + p.stderr
    res: dict[str, list[str]] = {}
    for m in re.finditer(r"^'(.+)' depends on axioms: \[([^\]]*)\]", out, re.M):
        res[m.group(1)] = [a.strip() for a in m.group(2).replace("\n", " ").split(",") if a.strip()]
    for m in re.finditer(r"^'(.+)' does not depend on any axioms", out, re.M):
        res[m.group(1)] = []
    if p.returncode != 0 and not res:
        raise InfraError("axiom audit failed to run:\n" + out[-2000:])
    return res


class Driver:
    """Client of a compiled model driver speaking the JSON-lines protocol."""

    def __init__(self, exe_name: str):
        self.path = LEAN_DIR / ".lake" / "build" / "bin" / exe_name
        if not self.path.exists():
            raise InfraError(f"driver {exe_name} not built")

    def batch(self, requests: list[dict], timeout: int = 3000) -> list[dict]:
        if not requests:
            return []
        data = "".join(json.dumps(r, separators=(",", ":")) + "\n" for r in requests)
        p = subprocess.run([str(self.path)], input=data, capture_output=True, text=True, timeout=timeout)
        if p.returncode != 0:
            raise InfraError(f"driver {self.path.name} crashed: {p.stderr[-2000:]}")
        lines = p.stdout.splitlines()
        if len(lines) != len(requests):
            raise InfraError(f"driver {self.path.name}: {len(lines)} replies for {len(requests)} requests")
        out = [json.loads(l) for l in lines]
        dbg = os.environ.get("VERIF_DEBUG_DRIVER")
        if dbg:
            with open(dbg, "a") as f:
                for q, r in zip(requests, out):
                    if "MissingSiteOutcome" in json.dumps(r):
                        f.write(json.dumps({"q": q, "r": r})[:6000] + "\n")
        return out


# --------------------------------------------------------------------------
# Check context
# --------------------------------------------------------------------------

def canon(obj) -> str:
    return json.dumps(obj, sort_keys=True, separators=(",", ":"), default=repr)


class Ctx:
    def __init__(self, pid: str, tier: str, seed: int):
        self.pid = pid
        self.tier = tier
        self.seed = seed
        self.rng = random.Random(f"{pid}:{seed}")
        self.t0 = time.time()
        self.evaluations = 0
        self.nontrivial: set[str] = set()
        self.samples: list = []
        self.dist: Counter = Counter()
        self.failures: list[dict] = []        # direct-oracle failures on the real code
        self.disagreements: list[dict] = []   # real vs model
        self.broken: list[dict] = []          # proof obligations / translator / audit that no longer check
        self.obligations: list[str] = []
        self.discharged: list[str] = []
        self.traces_validated = 0
        self.suites: dict[str, dict] = {}
        self.assumptions: list[str] = []
        self.trusted: list[str] = list(TRUSTED_BASE_COMMON)
        self.rule = ""
        self.extra: dict = {}
        self.driver_ok = True

    # budget helper: quick vs thorough
    def budget(self, quick: int, thorough: int) -> int:
        return thorough if self.tier == "thorough" else quick

    def sample(self, case, every: int = 1, cap: int = 8):
        if len(self.samples) < cap and (self.evaluations % max(every, 1) == 0 or not self.samples):
            self.samples.append(case)

    def note_case(self, case, nontrivial: bool, kind: str | None = None):
        self.evaluations += 1
        if kind:
            self.dist[kind] += 1
        if nontrivial:
            self.nontrivial.add(hashlib.sha1(canon(case).encode()).hexdigest()[:16])

    def fail(self, signature: str, what: str, case):
        """A violation of the property exhibited on the real code."""
        self.failures.append({"signature": signature, "what": what, "case": case})

    def disagree(self, suite: str, case, real, model):
        self.disagreements.append({"suite": suite, "case": case, "real": real, "model": model})

    def suite(self, name: str, compared: int, disagreements: int):
        s = self.suites.setdefault(name, {"compared": 0, "disagreements": 0})
        s["compared"] += compared
        s["disagreements"] += disagreements
        self.traces_validated += compared


def load_known_findings(pid: str) -> tuple[list[dict], list[dict]]:
    findings, fixed = [], []
    if KNOWN_FINDINGS.exists():
        for line in KNOWN_FINDINGS.read_text().splitlines():
            line = line.strip()
            if not line or line.startswith("#"):
                continue
            rec = json.loads(line)
            if rec.get("property") != pid:
                continue
            (findings if rec.get("kind") == "finding" else fixed).append(rec)
    return findings, fixed


def write_replay(pid: str, payload: dict) -> Path:
    REPLAY_DIR.mkdir(exist_ok=True)
    h = hashlib.sha1(canon(payload).encode()).hexdigest()[:12]
    p = REPLAY_DIR / f"{pid}-{h}.json"
    p.write_text(json.dumps(payload, indent=1, sort_keys=True, default=repr))
    return p


def write_evidence(ctx: Ctx, violations: int, checker_cmd: str):
    EVIDENCE_DIR.mkdir(exist_ok=True)
    cov = {
        "obligations": len(ctx.obligations),
        "discharged": len(ctx.discharged),
        "obligation_names": ctx.obligations,
        "not_discharged": [o for o in ctx.obligations if o not in ctx.discharged],
        "checker_cmd": checker_cmd,
        "trusted_base": ctx.trusted,
        "evaluations": ctx.evaluations,
        "distinct_nontrivial": len(ctx.nontrivial),
        "rule": ctx.rule,
        "samples": ctx.samples[:8] or ["(no correspondence case was run)"],
        "traces_validated_against_impl": ctx.traces_validated,
        "correspondence_suites": ctx.suites,
        "input_distribution": dict(ctx.dist.most_common(100)),
        "direct_oracle_failures": len(ctx.failures),
        "model_impl_disagreements": len(ctx.disagreements),
        "broken_ties": ctx.broken,
    }
    cov.update(ctx.extra)
    ev = {
        "property_id": ctx.pid,
        "tier": ctx.tier,
        "seed": ctx.seed,
        "level": "proof",
        "coverage": cov,
        "assumptions": ctx.assumptions,
        "wall_s": round(time.time() - ctx.t0, 2),
        "violations": violations,
    }
    out_dir = EVIDENCE_DIR
    if REPO != Path("/repo"):
        # a run against another tree (VERIF_REPO: a seeded change in a scratch worktree) is not evidence about /repo
        out_dir = EVIDENCE_DIR / "other-tree"
        out_dir.mkdir(exist_ok=True)
        ev["repo"] = str(REPO)
    (out_dir / f"{ctx.pid}.json").write_text(json.dumps(ev, indent=1, default=repr))
