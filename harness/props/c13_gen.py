"""C13 helper: generator of conversion cases (model pairs related by rename/drop/add edits,
recipes of public providers with overlapping links, extra parameters, calls)."""
import copy

from harness.props.c13_world import (
    KINDS,
    LEAF_ANY,
    LEAF_BOOL,
    LEAF_FLOAT,
    LEAF_INT,
    LEAF_STR,
    SPECIAL_ATOMS,
    atom_key,
    hint_vars,
    leaf,
    model_ty,
    subst,
    var,
)

FIELD_NAMES = ["a", "b", "c", "d", "e", "f1", "g", "h", "data", "ctx", "x", "y"]
PARAM_EXTRA_NAMES = ["p", "q", "r", "coercer", "data", "ctx"]
FIRST_NAMES = ["src", "s", "data", "ctx", "coercer", "m"]
FUNC_NAMES = [None, None, None, "conv", "coercer", "convert", "data", "ctx", "f"]
GENERIC_KINDS = ["dataclass", "attrs", "namedtuple", "typeddict"]
ITER_ORIGINS = ["list", "tuple", "sequence", "mutable_sequence", "iterable", "collection", "deque"]
PYDANTIC_ITER_ORIGINS = ["list", "tuple", "sequence"]     # pydantic turns the others into lazy / converted containers


def atom_json(obj):
    tag, rep = atom_key(obj)
    if tag == "float" and obj != obj:
        rep = "nan"
    return {"v": "atom", "tag": tag, "repr": rep}


LOOKALIKES = [atom_json(o) for o in SPECIAL_ATOMS] + [
    atom_json(True), atom_json(False), atom_json(0), atom_json(1), atom_json(1.0), atom_json(0.0), atom_json(-0.0),
    atom_json("1"), atom_json(""), {"v": "none"},
    {"v": "seq", "kind": "tuple", "xs": [atom_json(1)]}, {"v": "seq", "kind": "tuple", "xs": []},
    {"v": "seq", "kind": "list", "xs": [atom_json(1), atom_json(True)]},
    {"v": "seq", "kind": "list", "xs": [atom_json(SPECIAL_ATOMS[0])]},
    {"v": "dict", "kvs": [[atom_json("k"), atom_json(1)]]},
    {"v": "seq", "kind": "tuple", "xs": [{"v": "seq", "kind": "tuple", "xs": [atom_json(True)]}]},
]


def _hashable(j):
    if j["v"] in ("dict",) or (j["v"] == "seq" and j["kind"] == "list"):
        return False
    if j["v"] == "seq":
        return all(_hashable(x) for x in j["xs"])
    if j["v"] == "atom":
        return j["tag"] not in ("bytearray", "slice", "ellipsis")   # pydantic reads default=... as "required"
    return True


CLASS_DEFAULTS = [j for j in LOOKALIKES if _hashable(j)]
SCALAR_LOOKALIKES = [j for j in LOOKALIKES if j["v"] in ("atom", "none")
                     and j.get("tag") not in ("frozenset", "bytearray", "range")]


def _is_falsy_json(j):
    """the value is one Python treats as false although it is not None (0, 0.0, "", Decimal(0), (), ...)"""
    if j["v"] == "seq":
        return not j["xs"]
    if j["v"] == "dict":
        return not j["kvs"]
    if j["v"] != "atom":
        return False
    from harness.props.c13_world import atom_from
    try:
        return not atom_from(j["tag"], j["repr"])
    except Exception:  # noqa: BLE001
        return False


FALSY_LOOKALIKES = [j for j in LOOKALIKES if _is_falsy_json(j)] + [
    {"v": "atom", "tag": "bytes", "repr": "b''"}, {"v": "seq", "kind": "list", "xs": []}, {"v": "dict", "kvs": []}]
FALSY_SCALAR_LOOKALIKES = [j for j in FALSY_LOOKALIKES if j["v"] == "atom"]
FALSY_MODEL_KINDS = {"dataclass": ["bool", "len"], "attrs": ["bool", "len"], "namedtuple": ["bool"]}


class Gen:
    def __init__(self, rng, history=False):
        self.rng = rng
        # history mode (Gen.history_case): the case is a *sequence* of requests on one retort; the converter
        # signature is the one get_converter / convert build ((src, /) -> dst, no extra parameters)
        self.history = history
        self.classes = []
        self.counter = 100
        self.fcounter = 0
        self.pyd = False
        # per-case profile of the structured input space (drawn from the rng like everything else):
        #   deep  - wrappers nest (Optional[List[T]], List[Optional[M]], Dict[str, Optional[List[T]]] ...) and leaf
        #           types below a wrapper are retyped too, so that every structural coercer (Optional / iterable /
        #           dict) is generated around every kind of inner coercer (as-is, user coercer, model, iterable, dict)
        #   falsy - values are biased towards the ones Python treats as false without being None: 0, 0.0, "", False,
        #           Decimal(0), empty containers, field-less models, models defining __bool__ / __len__
        self.deep = rng.random() < 0.45
        self.falsy = rng.random() < 0.45
        #   light - (history mode only) the destination is mostly a copy of the source: few renamed / added fields,
        #           so that a request *without* any recipe succeeds often and recipes are genuine overrides
        self.light = history and rng.random() < 0.5
        self._perm = {}       # generic destination class id -> position of each source variable in its declaration

    # -- small helpers -------------------------------------------------------
    def fresh_int(self):
        self.counter += 1
        return self.counter

    def fresh_f(self):
        self.fcounter += 1
        return self.fcounter

    def chance(self, p):
        return self.rng.random() < p

    def lookalike(self):
        # with pydantic around, a container constant given to a container-typed field is converted (() -> [])
        pool = SCALAR_LOOKALIKES if self.pyd else LOOKALIKES
        return copy.deepcopy(self.rng.choice(pool))

    def class_default(self):
        """a default usable in a class body of every kind (dataclass rejects unhashable defaults)"""
        return copy.deepcopy(self.rng.choice(CLASS_DEFAULTS))

    # -- values ----------------------------------------------------------------
    def value(self, ty, by_id):
        rng = self.rng
        t = ty["t"]
        pf = 0.45 if self.falsy else 0.06       # chance of the falsy (not None) inhabitant of the type
        if t == "leaf":
            n = ty["n"]
            if n == LEAF_INT:
                if self.chance(pf):
                    return atom_json(0)
                return atom_json(self.fresh_int() if self.chance(0.8) else rng.choice([0, 1, -1]))
            if n == LEAF_STR:
                return atom_json("" if self.chance(pf) else f"s{self.fresh_int()}")
            if n == LEAF_BOOL:
                return atom_json(False if self.chance(pf) else self.chance(0.5))
            if n == LEAF_FLOAT:
                if self.chance(pf):
                    return atom_json(rng.choice([0.0, -0.0]))
                return atom_json(self.fresh_int() + 0.5 if self.chance(0.8) else rng.choice([0.0, 1.0, float("inf")]))
            if self.chance(pf):
                return copy.deepcopy(rng.choice(FALSY_SCALAR_LOOKALIKES if self.pyd else FALSY_LOOKALIKES))
            if self.chance(0.5):
                return self.lookalike()
            return atom_json(rng.choice([self.fresh_int(), f"s{self.fresh_int()}"]))
        if t == "model":
            c = by_id[ty["cls"]]
            return {"v": "obj", "cls": c["id"], "fields": [[f["id"], self.value(f["ty"], by_id)] for f in c["fields"]]}
        if t == "opt":
            return {"v": "none"} if self.chance(0.3) else self.value(ty["a"], by_id)
        if t == "iter":
            kind = {"list": "list", "tuple": "tuple", "deque": "deque", "sequence": "tuple", "mutable_sequence": "list",
                    "iterable": "list", "collection": "tuple", "reversible": "list"}[ty["o"]]
            n = 0 if self.chance(pf) else rng.randint(0, 3)
            return {"v": "seq", "kind": kind, "xs": [self.value(ty["a"], by_id) for _ in range(n)]}
        if t == "dict":
            n = 0 if self.chance(pf) else rng.randint(0, 3)
            if ty["k"] == leaf(LEAF_INT):         # keys of a generic class's Dict[Ti, Tj] follow the key argument
                keys = [atom_json(k) for k in rng.sample(range(-2, 9), n)]
            else:
                keys = [atom_json(f"k{i}") for i in range(n)]
            return {"v": "dict", "kvs": [[k, self.value(ty["v"], by_id)] for k in keys]}
        raise ValueError(t)

    # -- models ----------------------------------------------------------------
    def new_class(self, role, kind, fields, generic=None):
        cid = len(self.classes)
        c = {"id": cid, "role": role, "kind": kind, "name": f"{'S' if role == 'src' else 'D'}{cid}", "fields": fields}
        if generic is not None:
            c["generic"] = generic
        self.classes.append(c)
        return c

    def leaf_type(self):
        return leaf(self.rng.choice([LEAF_ANY, LEAF_INT, LEAF_INT, LEAF_STR, LEAF_BOOL, LEAF_FLOAT, LEAF_ANY]))

    def iter_origin(self, kind):
        # pydantic validates nested models of the other kinds too
        return self.rng.choice(PYDANTIC_ITER_ORIGINS if kind == "pydantic" or self.pyd else ITER_ORIGINS)

    def src_type(self, depth, kind_pool, kind=None):
        ty = self._src_type(depth, kind_pool, kind)
        if kind == "pydantic":
            ty = self.untyped_leaves(ty)
        return ty

    def untyped_leaves(self, ty):
        """pydantic validates and *converts* what its constructor is given (True -> 1 for an int field, a tuple
        -> list for a List field), also for nested models of other kinds and when a pydantic source class becomes
        the destination of a copy conversion: every type without a model inside is declared Any there"""
        def has_model(t):
            if t["t"] == "model":
                return True
            if t["t"] in ("opt", "iter"):
                return has_model(t["a"])
            if t["t"] == "dict":
                return has_model(t["v"])
            return False
        if not has_model(ty):
            return leaf(LEAF_ANY)
        t = ty["t"]
        if t == "opt":
            return {"t": "opt", "a": self.untyped_leaves(ty["a"])}
        if t == "iter":
            return {"t": "iter", "o": ty["o"], "a": self.untyped_leaves(ty["a"])}
        if t == "dict":
            return {"t": "dict", "k": ty["k"], "v": self.untyped_leaves(ty["v"])}
        return ty

    def _src_type(self, depth, kind_pool, kind=None):
        r = self.rng.random()
        if depth > 0 and r < 0.22:
            return model_ty(self.src_model(depth - 1, kind_pool)["id"])
        if r < (0.55 if self.deep else 0.40):
            return self.wrapped_type(depth, kind_pool, kind, 0)
        return self.leaf_type()

    def wrapped_type(self, depth, kind_pool, kind, level):
        """Optional / iterable / dict around a leaf, a model or (deep profile) another wrapper"""
        if self.deep and level < 2 and self.chance(0.45):
            inner = self.wrapped_type(depth, kind_pool, kind, level + 1)
        elif depth > 0 and self.chance(0.5):
            inner = model_ty(self.src_model(depth - 1, kind_pool)["id"])
        else:
            inner = self.leaf_type()
        w = self.rng.random()
        if w < 0.4:
            if inner["t"] == "opt":
                return inner      # typing collapses Optional[Optional[T]]
            # typing collapses Optional[Any]; normalisation of unions is C15's business
            return {"t": "opt", "a": leaf(LEAF_INT) if inner == leaf(LEAF_ANY) else inner}
        if w < 0.8:
            return {"t": "iter", "o": self.iter_origin(kind), "a": inner}
        return {"t": "dict", "k": leaf(LEAF_STR), "v": inner}

    def src_model(self, depth, kind_pool):
        rng = self.rng
        kind = rng.choice(kind_pool)
        n = rng.randint(1, 5)
        if self.chance(0.15 if self.falsy else 0.04):
            n = 0             # a model without fields: an empty NamedTuple / TypedDict instance is falsy
        names = rng.sample(FIELD_NAMES, n)
        fields = []
        generic = None
        if n and kind in GENERIC_KINDS and self.chance(0.12):
            generic = rng.choice([LEAF_INT, LEAF_STR])
        for i, name in enumerate(names):
            if generic is not None and i == 0:
                fields.append({"id": name, "ty": leaf(generic), "tvar": True})
                continue
            fid = name
            if kind == "attrs" and self.chance(0.1):
                fid = "_" + name
            fields.append({"id": fid, "ty": self.src_type(depth, kind_pool, kind)})
        c = self.new_class("src", kind, fields, generic)
        if generic is None and n and kind in GENERIC_KINDS and self.chance(0.2):
            self.make_generic(c, depth, kind_pool)
        self.maybe_falsy(c)
        return c

    # -- generic classes with several type variables ----------------------------------------
    def clone_class(self, c):
        """a new class with the same kind and field declarations (a duck-compatible sibling)"""
        d = copy.deepcopy(c)
        d["id"] = len(self.classes)
        d["name"] = f"{'S' if d['role'] == 'src' else 'D'}{d['id']}"
        self.classes.append(d)
        return d

    def generic_args(self, nv, depth, kind_pool):
        """actual arguments of a generic source class: leaves, or small models - often siblings declaring the same
        fields, so that a coercer between the 'wrong' pair of arguments exists as well"""
        rng = self.rng
        args, sibling = [], None
        models = depth > 0 and self.chance(0.65)
        for _ in range(nv):
            if models and self.chance(0.85):
                if sibling is not None and self.chance(0.7):
                    m = self.clone_class(sibling)
                else:
                    m = sibling = self.src_model(0, kind_pool)
                args.append(model_ty(m["id"]))
            else:
                args.append(leaf(rng.choice([LEAF_INT, LEAF_INT, LEAF_INT, LEAF_STR, LEAF_BOOL, LEAF_FLOAT])))
        return args

    def gen_hint(self, nv, args, depth, kind_pool, kind, nested=True):
        """a field annotation over the type variables T0..T(nv-1): the variables are drawn in random order, so the
        order of appearance inside a hint is independent of the order `Generic[...]` declares them in"""
        rng = self.rng
        order = rng.sample(range(nv), nv)
        r = rng.random()
        if nv >= 2 and r < 0.30:
            keyable = [i for i in order if args[i] in (leaf(LEAF_INT), leaf(LEAF_STR))]
            k = keyable[0] if keyable and self.chance(0.85) else None
            v = next(i for i in order if i != k)
            vh = var(v) if self.chance(0.7) else {"t": "iter", "o": self.iter_origin(kind), "a": var(v)}
            return {"t": "dict", "k": var(k) if k is not None else leaf(LEAF_STR), "v": vh}
        if nested and r < 0.62:
            # another generic class, parametrized by the variables of this one
            ne = 2 if nv >= 2 or self.chance(0.5) else 1
            ahints = [var(i) for i in order[:ne]]
            while len(ahints) < ne:
                ahints.append(leaf(rng.choice([LEAF_INT, LEAF_STR])))
            if self.chance(0.2):
                j = rng.randrange(ne)
                ahints[j] = {"t": "iter", "o": self.iter_origin(kind), "a": ahints[j]}
            ekind = rng.choice([k for k in kind_pool if k in GENERIC_KINDS] or [kind])
            eargs = [subst(h, args) for h in ahints]
            names = rng.sample(FIELD_NAMES, rng.randint(ne, ne + 1))
            fields = []
            for i, name in enumerate(names):
                h = var(i) if i < ne else self.gen_hint(ne, eargs, 0, kind_pool, ekind, nested=False)
                fields.append({"id": name, "hint": h, "ty": subst(h, eargs)})
            e = self.new_class("src", ekind, fields)
            e["tvars"], e["targs"] = ne, eargs
            return {"t": "model", "cls": e["id"], "inst": 0, "args": ahints}
        i = order[0]
        if r < 0.75:
            return var(i)
        if r < 0.85:
            return {"t": "opt", "a": var(i)}
        return {"t": "iter", "o": self.iter_origin(kind), "a": var(i)}

    def make_generic(self, c, depth, kind_pool):
        """turns a freshly drawn source class into `class C(Generic[T0, .., T(nv-1)])` instantiated once in the case:
        one to three of its fields are re-declared through hints over the type variables"""
        rng = self.rng
        nv = rng.choice([1, 2, 2, 2, 3])
        args = self.generic_args(nv, depth, kind_pool)
        c["tvars"], c["targs"] = nv, args
        k = rng.randint(1, min(3, len(c["fields"])))
        for f in rng.sample(c["fields"], k):
            h = self.gen_hint(nv, args, depth, kind_pool, c["kind"])
            f["hint"], f["ty"] = h, subst(h, args)
        # classes are materialised dependencies first (ordered_classes); the arguments / nested generic classes were
        # appended after `c`

    def opt_vars(self, c, by_id):
        """type variables of a generic class that end up directly below Optional (here or in a generic class the
        variable is passed on to): their destination argument must not be Any (typing collapses Optional[Any])"""
        out = set()

        def walk(h, under_opt):
            t = h["t"]
            if t == "var":
                if under_opt:
                    out.add(h["i"])
            elif t in ("opt", "iter"):
                walk(h["a"], t == "opt")
            elif t == "dict":
                walk(h["k"], False)
                walk(h["v"], False)
            elif t == "model" and "args" in h:
                inner = self.opt_vars(by_id[h["cls"]], by_id)
                for j, a in enumerate(h["args"]):
                    walk(a, j in inner)
        for f in c["fields"]:
            if f.get("hint") is not None:
                walk(f["hint"], False)
        return out

    def dst_hint(self, h, xs, src_by_id, dst_kind_pool, plan, path, lkind):
        """destination counterpart of a source hint: (hint over the SOURCE variable numbering, resolved type);
        `xs` are the destination arguments of the source variables"""
        t = h["t"]
        rec = lambda x: self.dst_hint(x, xs, src_by_id, dst_kind_pool, plan, path, lkind)  # noqa: E731
        if t == "var":
            return h, xs[h["i"]]
        if t == "opt":
            hh, ty = rec(h["a"])
            return {"t": "opt", "a": hh}, {"t": "opt", "a": ty}
        if t == "iter":
            o = self.iter_origin(lkind) if self.chance(0.5) or lkind == "pydantic" or self.pyd else h["o"]
            hh, ty = rec(h["a"])
            return {"t": "iter", "o": o, "a": hh}, {"t": "iter", "o": o, "a": ty}
        if t == "dict":
            (kh, kt), (vh, vt) = rec(h["k"]), rec(h["v"])
            return {"t": "dict", "k": kh, "v": vh}, {"t": "dict", "k": kt, "v": vt}
        if t == "model" and "args" in h:
            sub = [rec(a) for a in h["args"]]
            e2 = self.dst_model(src_by_id[h["cls"]], src_by_id, dst_kind_pool, plan, path, top=False,
                                under_pyd=lkind == "pydantic", targs_dst=[ty for _, ty in sub])
            if e2.get("tvars"):
                perm = self._perm[e2["id"]]
                args2 = [None] * len(sub)
                for i, (hh, _) in enumerate(sub):
                    args2[perm[i]] = hh
                return {"t": "model", "cls": e2["id"], "inst": 0, "args": args2}, model_ty(e2["id"])
            return model_ty(e2["id"]), model_ty(e2["id"])
        ty = self.retype(h, src_by_id, dst_kind_pool, plan, path, lkind, None, True)
        return ty, ty

    def maybe_falsy(self, c):
        """a model class whose instances are falsy: it defines __bool__ (-> False) or __len__ (-> 0)"""
        how = FALSY_MODEL_KINDS.get(c["kind"])
        if how and not self.pyd and self.chance(0.25 if self.falsy else 0.05):
            c["falsy"] = self.rng.choice(how)

    def fix_default_order(self, c):
        """make the field list a legal class body of its kind"""
        if c["kind"] in ("typeddict", "pydantic"):
            return
        seen = False
        for f in c["fields"]:
            if f.get("kw_only"):
                continue
            if f.get("default") is not None:
                seen = True
            elif seen:
                if c["kind"] == "namedtuple":
                    f["default"] = atom_json(self.fresh_int())
                else:
                    f["kw_only"] = True

    def retype(self, ty, src_by_id, dst_kind_pool, plan, path, kind=None, marks=None, below=False):
        """destination type for a source type; nested models get their own edited destination class.
        `below`: the type sits under a wrapper; a leaf retyped there is recorded in `marks`"""
        t = ty["t"]
        if t == "model":
            if self.chance(0.08) and not self.pyd:
                return ty                     # the very same class on both sides (copy conversion); never with
                #                               pydantic around: as a destination it would convert typed fields
            d = self.dst_model(src_by_id[ty["cls"]], src_by_id, dst_kind_pool, plan, path, top=False,
                               under_pyd=kind == "pydantic")
            return model_ty(d["id"])
        if t == "opt":
            a = self.retype(ty["a"], src_by_id, dst_kind_pool, plan, path, kind, marks, True)
            if a["t"] == "leaf" and a["n"] == LEAF_ANY and kind != "pydantic":
                a = ty["a"]                   # typing collapses Optional[Any]
            return {"t": "opt", "a": a}
        if t == "iter":
            o = self.iter_origin(kind) if self.chance(0.5) or kind == "pydantic" or self.pyd else ty["o"]
            return {"t": "iter", "o": o, "a": self.retype(ty["a"], src_by_id, dst_kind_pool, plan, path, kind, marks, True)}
        if t == "dict":
            return {"t": "dict", "k": ty["k"],
                    "v": self.retype(ty["v"], src_by_id, dst_kind_pool, plan, path, kind, marks, True)}
        if kind == "pydantic":
            return leaf(LEAF_ANY)     # pydantic converts bool/int/float/str into each other: keep its leaves untyped
        if below and marks is not None:
            # element / value / Optional-wrapped leaves change their type as well: int -> str needs a user coercer
            # (the wrapper's coercer is then built around a real inner coercer), bool -> int and T -> Any are as-is
            r = self.rng.random()
            p = 0.45 if self.deep else 0.15
            if ty["n"] == LEAF_INT and r < p:
                marks.append("int->str")
                return leaf(LEAF_STR)
            if ty["n"] == LEAF_BOOL and r < p:
                return leaf(LEAF_INT)
            if ty["n"] != LEAF_ANY and r > 0.93:
                return leaf(LEAF_ANY)
        return ty

    def dst_model(self, src, src_by_id, dst_kind_pool, plan, path, top, under_pyd=False, targs_dst=None):
        rng = self.rng
        kind = rng.choice(dst_kind_pool)
        # pydantic validates (and converts) the fields of nested models of every kind as well
        lkind = "pydantic" if under_pyd else kind
        fields = []
        edits = []
        used = set()
        generic = src.get("generic") if kind in GENERIC_KINDS else None
        xs, xmarks, perm = None, [], None
        if src.get("tvars"):
            # destination arguments of the source's type variables: given by the owner of a nested generic class,
            # else each source argument is retyped once (nested models get their destination class, leaves may
            # become str - served by a user coercer - or Any)
            xs = targs_dst
            if xs is None:
                no_any = self.opt_vars(src, src_by_id) if lkind != "pydantic" else set()
                xs = []
                for i, a in enumerate(src["targs"]):
                    x = self.retype(a, src_by_id, dst_kind_pool, plan, path + [f"T{i}"], lkind, xmarks, True)
                    if a == leaf(LEAF_INT) and x == a and lkind != "pydantic" and self.chance(0.3):
                        # arguments are retyped more often than ordinary leaves: the coercers of two arguments
                        # then differ (user coercer / as is), and so do the results when arguments are mixed up
                        x = leaf(LEAF_STR)
                        xmarks.append("int->str")
                    if a["t"] == "model" and i not in no_any and lkind != "pydantic" and self.chance(0.12):
                        x = leaf(LEAF_ANY)        # the model passes as is
                    if i in no_any and x == leaf(LEAF_ANY):
                        x = a
                    xs.append(x)
            if kind in GENERIC_KINDS and lkind != "pydantic":
                # the destination declares its variables in its own order
                perm = list(range(src["tvars"]))
                if self.chance(0.5):
                    rng.shuffle(perm)
        for f in src["fields"]:
            r = rng.random()
            fid = f["id"].lstrip("_") if kind != "attrs" else f["id"]
            if f.get("tvar"):
                if generic is not None and lkind != "pydantic":
                    fields.append({"id": fid, "ty": f["ty"], "tvar": True})
                else:
                    fields.append({"id": fid, "ty": leaf(LEAF_ANY) if lkind == "pydantic" else f["ty"]})
                used.add(fid.lstrip("_"))
                if fid != f["id"]:
                    edits.append(("rename", f["id"], fid))
                continue
            if r < 0.14:
                edits.append(("drop", f["id"]))
                continue
            marks = []
            hint2 = None
            if xs is not None and f.get("hint") is not None:
                hint2, ty = self.dst_hint(f["hint"], xs, src_by_id, dst_kind_pool, plan, path + [fid], lkind)
                marks = list(xmarks)
                if perm is None or not hint_vars(hint2):
                    hint2 = None
            else:
                ty = self.retype(f["ty"], src_by_id, dst_kind_pool, plan, path + [fid], lkind, marks)
            if lkind == "pydantic":
                ty = self.untyped_leaves(ty)
            if r < (0.17 if self.light else 0.30):
                new = rng.choice([n for n in FIELD_NAMES if n not in used and n != f["id"]] or [f["id"] + "2"])
                edits.append(("rename", f["id"], new))
                fid = new
            elif fid != f["id"]:
                edits.append(("rename", f["id"], fid))
            if fid.lstrip("_") in used:
                continue
            if ty["t"] == "leaf" and r > 0.9 and lkind != "pydantic" and hint2 is None:
                if ty["n"] != LEAF_ANY and self.chance(0.5):
                    ty = leaf(LEAF_ANY)
                elif ty["n"] == LEAF_BOOL and kind != "pydantic":
                    ty = leaf(LEAF_INT)
                elif ty["n"] == LEAF_INT and self.chance(0.5):
                    ty = leaf(LEAF_STR)
                    edits.append(("retype", f["id"], fid))
            used.add(fid.lstrip("_"))
            if marks and lkind != "pydantic":
                edits.append(("retype_inner", f["id"], fid))
            nf = {"id": fid, "ty": ty}
            if hint2 is not None:
                nf["hint"] = self.rename_vars(hint2, perm)
            if kind in ("attrs", "pydantic") and self.chance(0.1) and not fid.startswith("_"):
                nf["alias"] = fid + "_al"
            fields.append(nf)
        for _ in range(rng.choice([0, 0, 0, 0, 1] if self.light else [0, 0, 1, 1, 2])):
            cand = [n for n in FIELD_NAMES if n not in used]
            if not cand:
                break
            fid = rng.choice(cand)
            used.add(fid)
            fields.append({"id": fid, "ty": leaf(LEAF_ANY)})
            edits.append(("add", fid))
        if generic is not None and not any(f.get("tvar") for f in fields):
            generic = None
        if not fields and not (self.chance(0.5) and (self.falsy or not src["fields"])):
            fields.append({"id": "a", "ty": leaf(LEAF_ANY)})
            edits.append(("add", "a"))
        rng.shuffle(fields) if self.chance(0.3) else None
        # defaults / optional fields
        for f in fields:
            if self.chance(0.2):
                if kind == "typeddict":
                    f["not_required"] = True
                else:
                    f["default"] = self.class_default() if f["ty"] == leaf(LEAF_ANY) else atom_json(self.fresh_int()) \
                        if f["ty"] == leaf(LEAF_INT) else {"v": "none"}
            if kind in ("dataclass", "attrs") and self.chance(0.15):
                f["kw_only"] = True
        d = self.new_class("dst", kind, fields, generic)
        if perm is not None:
            d["tvars"] = len(perm)
            d["targs"] = [None] * len(perm)
            for i, x in enumerate(xs):
                d["targs"][perm[i]] = x
            self._perm[d["id"]] = perm
        self.maybe_falsy(d)
        self.fix_default_order(d)
        plan.append({"src": src["id"], "dst": d["id"], "edits": edits, "top": top})
        return d

    def rename_vars(self, h, perm):
        t = h["t"]
        if t == "var":
            return var(perm[h["i"]])
        if t in ("opt", "iter"):
            return {**h, "a": self.rename_vars(h["a"], perm)}
        if t == "dict":
            return {**h, "k": self.rename_vars(h["k"], perm), "v": self.rename_vars(h["v"], perm)}
        if t == "model" and "args" in h:
            return {**h, "args": [self.rename_vars(a, perm) for a in h["args"]]}
        return h

    # -- predicates --------------------------------------------------------------
    def dst_pred(self, dst_cls, fid):
        r = self.rng.random()
        if r < 0.5:
            return {"p": "name", "n": fid}
        if r < 0.85:
            return {"p": "end", "stack": [{"p": "origin", "o": {"o": "cls", "c": dst_cls["id"]}}, {"p": "name", "n": fid}]}
        if r < 0.95:
            return {"p": "names", "ns": [fid, "zz"]}
        return {"p": "or", "ps": [{"p": "name", "n": fid}, {"p": "name", "n": "zz"}]}

    def src_pred(self, src_cls, fid):
        r = self.rng.random()
        if r < 0.5:
            return {"p": "name", "n": fid}
        if r < 0.9:
            return {"p": "end", "stack": [{"p": "origin", "o": {"o": "cls", "c": src_cls["id"]}}, {"p": "name", "n": fid}]}
        return {"p": "names", "ns": [fid, "zz"]}

    def overlap_provider(self, pl, by_id, params):
        """a provider overlapping with whatever already feeds a field of the pair `pl` (exercises recipe order);
        None: the draw is discarded"""
        rng = self.rng
        s, d = by_id[pl["src"]], by_id[pl["dst"]]
        # a model without fields still takes part: the provider then names a field that does not exist
        f = rng.choice(d["fields"] or [{"id": "zz", "ty": leaf(LEAF_ANY)}])
        r = rng.random()
        if r < 0.4:
            sf = rng.choice(s["fields"] or [{"id": "zz", "ty": leaf(LEAF_ANY)}])
            if f["ty"]["t"] == "opt" and sf["ty"]["t"] in ("iter", "dict") and sf["ty"] != f["ty"]["a"]:
                return None       # UnionSubcaseCoercerProvider on same-origin generics is C14's business
            return {"k": "link", "src": self.src_pred(s, sf["id"]), "dst": self.dst_pred(d, f["id"]),
                    "coercer": self.fresh_f() if self.chance(0.2) and d["kind"] != "pydantic" else None}
        if r < 0.5 and len(params) >= 2:
            # a source predicate accepting several extra parameters: the rightmost one is taken
            ps = rng.sample(params, 2)
            return {"k": "link", "src": {"p": "or", "ps": [{"p": "from_param", "n": q["name"]} for q in ps]},
                    "dst": self.dst_pred(d, f["id"]), "coercer": None}
        if r < 0.6 and params:
            p = rng.choice(params)
            return {"k": "link", "src": {"p": "from_param", "n": p["name"]},
                    "dst": self.dst_pred(d, f["id"]), "coercer": None}
        if r < 0.85:
            return {"k": "link_constant", "dst": self.dst_pred(d, f["id"]), "value": self.const_for(f, d)}
        if r < 0.92:
            return {"k": "link", "src": {"p": "origin", "o": {"o": "leaf", "n": rng.choice([LEAF_INT, LEAF_STR])}},
                    "dst": self.dst_pred(d, f["id"]), "coercer": None}
        return {"k": "link_constant", "dst": {"p": "any"}, "value": {"v": "none"}}

    # -- positions below generic types ---------------------------------------------------------------------
    # A coercer is requested per *location*: the key of a mapping at GenericParamLoc(pos=0), its value at pos=1,
    # the element of an iterable / the type wrapped by Optional at pos=0, a field at its field location. The
    # public predicates address these positions (`P[dict].generic_arg(1, str)`, `P[Dst].table`, ...), so EQUAL
    # (source type, destination type) pairs at sibling positions may be served by DIFFERENT recipe entries.
    def pos_shape(self, pairs, level, key=False):
        """(source type, destination type) built from the leaf pairs `pairs`; the main pair (first) recurs at
        most positions, so that sibling positions carry equal pairs"""
        rng = self.rng
        a, b = pairs[0] if self.chance(0.8) else rng.choice(pairs)
        if key or level >= 3 or self.chance(0.15 + 0.25 * level):
            return leaf(a), leaf(b)
        r = rng.random()
        if r < 0.5:
            ks, kd = self.pos_shape(pairs, level + 1, key=True)
            vs, vd = self.pos_shape(pairs, level + 1)
            return {"t": "dict", "k": ks, "v": vs}, {"t": "dict", "k": kd, "v": vd}
        es, ed = self.pos_shape(pairs, level + 1)
        if r < 0.8:
            o = rng.choice(["list", "list", "list", "tuple", "deque", "sequence"])
            od = o if self.chance(0.5) else rng.choice(["list", "tuple", "deque", "sequence", "collection"])
            return {"t": "iter", "o": o, "a": es}, {"t": "iter", "o": od, "a": ed}
        if es["t"] == "opt":
            return es, ed
        return {"t": "opt", "a": es}, {"t": "opt", "a": ed}

    @staticmethod
    def pos_sites(s_ty, d_ty, s_stack, d_stack, by_id, out):
        """every pair of location stacks (bottom first) a coercer is requested for, under same-name linking"""
        out.append((s_stack, d_stack))
        st, dt = s_ty["t"], d_ty["t"]
        gp = lambda ty, pos: {"kind": "gparam", "ty": ty, "pos": pos}  # noqa: E731
        if st == dt == "dict":
            Gen.pos_sites(s_ty["k"], d_ty["k"], s_stack + [gp(s_ty["k"], 0)], d_stack + [gp(d_ty["k"], 0)], by_id, out)
            Gen.pos_sites(s_ty["v"], d_ty["v"], s_stack + [gp(s_ty["v"], 1)], d_stack + [gp(d_ty["v"], 1)], by_id, out)
        elif st == dt and st in ("iter", "opt"):
            Gen.pos_sites(s_ty["a"], d_ty["a"], s_stack + [gp(s_ty["a"], 0)], d_stack + [gp(d_ty["a"], 0)], by_id, out)
        elif st == dt == "model":
            s, d = by_id[s_ty["cls"]], by_id[d_ty["cls"]]
            for f in d["fields"]:
                sf = next((x for x in s["fields"] if x["id"] == f["id"]), None)
                if sf is not None:
                    Gen.pos_sites(sf["ty"], f["ty"], s_stack + [{"kind": "out", "ty": sf["ty"], "field": sf["id"]}],
                                  d_stack + [{"kind": "in", "ty": f["ty"], "field": f["id"]}], by_id, out)
        return out

    @staticmethod
    def pos_origin(ty):
        """the origin predicate of a type, where the public API can spell it with a concrete origin"""
        t = ty["t"]
        if t == "leaf":
            return {"p": "origin", "o": {"o": "leaf", "n": ty["n"]}}
        if t == "model":
            return {"p": "origin", "o": {"o": "cls", "c": ty["cls"]}}
        if t == "dict":
            return {"p": "origin", "o": {"o": "dict"}}
        if t == "opt":
            return {"p": "origin", "o": {"o": "union"}}
        if ty["o"] in ("list", "tuple", "deque"):
            return {"p": "origin", "o": {"o": "iter", "k": ty["o"]}}
        return {"p": "any"}

    def pos_elem(self, loc):
        """one pattern element describing the location by some of its attributes: origin of its type, field
        name, position among the type arguments of its parent - now and then the *sibling* position"""
        r = self.rng.random()
        if loc["kind"] == "gparam":
            if r < 0.55:
                return {"p": "garg", "pos": loc["pos"], "q": self.pos_origin(loc["ty"])}
            if r < 0.7:
                return {"p": "garg", "pos": loc["pos"], "q": {"p": "any"}}
            if r < 0.82:
                return {"p": "garg", "pos": 1 - loc["pos"], "q": self.pos_origin(loc["ty"])}
            return self.pos_origin(loc["ty"])
        if loc["kind"] in ("out", "in", "field"):
            if r < 0.55:
                return {"p": "name", "n": loc["field"]}
            if r < 0.85:
                return self.pos_origin(loc["ty"])
            return {"p": "any"}
        return self.pos_origin(loc["ty"]) if r < 0.7 else {"p": "any"}

    def pos_pred(self, stack):
        """a pattern over a suffix of the stack: `P[dict].generic_arg(1, str)`, `P[D].f.generic_arg(0, int)`,
        `P.generic_arg(0, str)`, `P[list].generic_arg(0, dict).generic_arg(1, int)`, ..."""
        n = min(len(stack), self.rng.choice([1, 2, 2, 2, 3]))
        els = [self.pos_elem(loc) for loc in stack[len(stack) - n:]]
        if n == 1:
            return els[0]
        return {"p": "end", "stack": els}

    def pos_coercers(self, sites, n):
        """n user coercers, each aimed at one coercion site: the predicate of one side (or both) is a pattern over
        the site's location stack, the other side names the type (or anything)"""
        rng = self.rng
        sites = [x for x in sites if len(x[0]) > 1]
        leaf_sites = [x for x in sites if x[0][-1]["ty"]["t"] == "leaf" and x[1][-1]["ty"]["t"] == "leaf"]
        out = []
        for _ in range(n if sites else 0):
            ss, ds = rng.choice(leaf_sites if leaf_sites and self.chance(0.9) else sites)
            r = rng.random()
            src = self.pos_pred(ss) if r < 0.45 or r >= 0.85 else \
                self.pos_origin(ss[-1]["ty"]) if self.chance(0.8) else {"p": "any"}
            dst = self.pos_pred(ds) if r >= 0.45 else \
                self.pos_origin(ds[-1]["ty"]) if self.chance(0.8) else {"p": "any"}
            out.append({"k": "coercer", "src": src, "dst": dst, "f": self.fresh_f()})
        return out

    def positional_case(self):
        rng = self.rng
        self.pyd = False
        self.falsy = self.falsy and self.chance(0.3)
        kinds = [k for k in KINDS if k != "pydantic"]
        leaves = [LEAF_INT, LEAF_STR]
        pairs = [(rng.choice(leaves), rng.choice(leaves))]
        pairs.append((rng.choice(leaves), rng.choice(leaves)))

        def model_pair(depth):
            names = rng.sample(FIELD_NAMES, rng.randint(1, 3))
            sf, df = [], []
            for nm in names:
                if depth > 0 and self.chance(0.3):
                    ns, nd = model_pair(depth - 1)
                    a, b = model_ty(ns["id"]), model_ty(nd["id"])
                    if self.chance(0.4):
                        w = rng.choice(["list", "dict", "opt"])
                        if w == "list":
                            a, b = {"t": "iter", "o": "list", "a": a}, {"t": "iter", "o": "list", "a": b}
                        elif w == "dict":
                            k = rng.choice(pairs)
                            a, b = {"t": "dict", "k": leaf(k[0]), "v": a}, {"t": "dict", "k": leaf(k[1]), "v": b}
                        else:
                            a, b = {"t": "opt", "a": a}, {"t": "opt", "a": b}
                else:
                    a, b = self.pos_shape(pairs, 0)
                sf.append({"id": nm, "ty": a})
                df.append({"id": nm, "ty": b})
            if self.chance(0.3):
                sf.append({"id": "extra", "ty": leaf(LEAF_INT)})
            return self.new_class("src", rng.choice(kinds), sf), self.new_class("dst", rng.choice(kinds), df)

        if self.chance(0.2):        # the converter's own pair is a generic type
            sty, dty = self.pos_shape(pairs, 0)
            while sty["t"] == "leaf":
                sty, dty = self.pos_shape(pairs, 0)
        else:
            s, d = model_pair(rng.choice([0, 1, 1]))
            sty, dty = model_ty(s["id"]), model_ty(d["id"])
        by_id = {c["id"]: c for c in self.classes}
        sites = self.pos_sites(sty, dty, [{"kind": "field", "ty": sty, "field": "src"}], [{"kind": "type", "ty": dty}],
                               by_id, [])
        recipe = self.pos_coercers(sites, rng.choice([1, 2, 2, 3, 4]))
        for a, b in dict.fromkeys(pairs):
            if (a != b and self.chance(0.85)) or self.chance(0.3):    # the general, type-bound coercer of the pair
                recipe.append({"k": "coercer", "src": self.pos_origin(leaf(a)), "dst": self.pos_origin(leaf(b)),
                               "f": self.fresh_f()})
        rng.shuffle(recipe)
        sig = {"params": [{"name": "src", "kind": "pos_only", "ty": sty}], "ret": dty}
        api = rng.choice(["get_converter", "get_converter", "retort.get_converter", "impl_converter",
                          "retort.impl_converter", "retort.extend"])
        case = {"classes": self.ordered_classes(), "sig": sig, "recipe": recipe, "api": api,
                "fname": rng.choice(FUNC_NAMES), "split": rng.randint(0, len(recipe)),
                "profile": {"deep": False, "falsy": self.falsy, "positional": True}}
        case["calls"] = [self.call(case, by_id) for _ in range(2)]
        return case

    # -- the whole case -------------------------------------------------------------
    def case(self):
        rng = self.rng
        kinds = list(KINDS)
        src_pool = [rng.choice(kinds)] if self.chance(0.6) else kinds
        dst_pool = [rng.choice(kinds)] if self.chance(0.6) else kinds
        self.pyd = "pydantic" in src_pool + dst_pool
        top_src = self.src_model(rng.choice([0, 1, 1, 2]), src_pool)
        src_by_id = {c["id"]: c for c in self.classes}
        plan = []
        top_dst = self.dst_model(top_src, src_by_id, dst_pool, plan, [], top=True)
        by_id = {c["id"]: c for c in self.classes}
        # dependencies first: nested classes were created before their owners on the src side, but the
        # destination classes are created owner-last as well (dst_model appends after recursion)
        recipe = []
        params = []
        top_plan = next(p for p in plan if p["top"])
        # ---- extra parameters
        used_names = set()

        def add_param(name, ty):
            if name in used_names or len(params) >= 4 or self.history:
                return False
            used_names.add(name)
            p = {"name": name, "kind": "pos_or_kw", "ty": ty}
            params.append(p)
            return True

        first_name = rng.choice(FIRST_NAMES)
        used_names.add(first_name)
        # ---- serve the edits
        for pl in plan:
            s, d = by_id[pl["src"]], by_id[pl["dst"]]
            for e in pl["edits"]:
                if e[0] == "rename":
                    if self.chance(0.88):
                        recipe.append({"k": "link", "src": self.src_pred(s, e[1]), "dst": self.dst_pred(d, e[2]),
                                       "coercer": None})
                elif e[0] == "retype":
                    r = rng.random()
                    if r < 0.4:
                        recipe.append({"k": "link", "src": self.src_pred(s, e[1]), "dst": self.dst_pred(d, e[2]),
                                       "coercer": self.fresh_f()})
                    elif r < 0.8 and d["kind"] != "pydantic":
                        recipe.append({"k": "coercer", "src": {"p": "origin", "o": {"o": "leaf", "n": LEAF_INT}},
                                       "dst": {"p": "origin", "o": {"o": "leaf", "n": LEAF_STR}}, "f": self.fresh_f()})
                elif e[0] == "retype_inner":
                    # an int leaf below Optional / iterable / dict became str: a user coercer for the leaf pair
                    # (the wrappers' coercers are generated around it), or a coercer for the whole field
                    r = rng.random()
                    if r < 0.8 and d["kind"] != "pydantic":
                        if not any(p["k"] == "coercer" for p in recipe) or self.chance(0.3):
                            recipe.append({"k": "coercer", "src": {"p": "origin", "o": {"o": "leaf", "n": LEAF_INT}},
                                           "dst": {"p": "origin", "o": {"o": "leaf", "n": LEAF_STR}}, "f": self.fresh_f()})
                    elif r < 0.9:
                        recipe.append({"k": "link", "src": self.src_pred(s, e[1]), "dst": self.dst_pred(d, e[2]),
                                       "coercer": self.fresh_f()})
                elif e[0] == "add":
                    self.serve_added(recipe, s, d, e[1], pl["top"], add_param, by_id)
        # ---- same-named parameters (top level and nested) and unused ones
        for _ in range(rng.choice([0, 0, 1, 1, 2])):
            pl = rng.choice(plan)
            d = by_id[pl["dst"]]
            if not d["fields"]:
                continue
            f = rng.choice(d["fields"])
            if f["ty"]["t"] == "leaf" or self.chance(0.3):
                add_param(f["id"], f["ty"] if self.chance(0.85) else leaf(LEAF_STR))
        if self.chance(0.2):
            add_param(rng.choice(PARAM_EXTRA_NAMES), self.leaf_type())
        # ---- overlapping providers to exercise recipe order
        for _ in range(rng.choice([0, 0, 1, 2, 3])):
            prov = self.overlap_provider(rng.choice(plan), by_id, params)
            if prov is not None:
                recipe.append(prov)
        # ---- policies
        for _ in range(rng.choice([0, 0, 0, 1, 2])):
            pl = rng.choice(plan)
            d = by_id[pl["dst"]]
            f = rng.choice(d["fields"] or [{"id": "zz", "ty": leaf(LEAF_ANY)}])
            r = rng.random()
            pred = None if r < 0.3 else self.dst_pred(d, f["id"]) if r < 0.8 else \
                {"p": "origin", "o": {"o": "cls", "c": d["id"]}}
            if pred is not None and pred["p"] == "origin":
                pred = {"p": "end", "stack": [pred, {"p": "any"}]}
            recipe.append({"k": "policy", "pred": pred, "allowed": self.chance(0.75)})
        # ---- user coercers bound to positions of this pair's types (field / generic argument / origin patterns)
        overlay = False
        if not self.pyd and self.chance(0.15):
            sites = self.pos_sites(model_ty(top_src["id"]), model_ty(top_dst["id"]),
                                   [{"kind": "field", "ty": model_ty(top_src["id"]), "field": first_name}],
                                   [{"kind": "type", "ty": model_ty(top_dst["id"])}], by_id, [])
            extra = self.pos_coercers(sites, rng.choice([1, 1, 2]))
            overlay = bool(extra)
            recipe.extend(extra)
        if self.chance(0.6):
            rng.shuffle(recipe)
        # ---- signature
        sig_params = [{"name": first_name, "kind": rng.choice(["pos_only", "pos_or_kw", "pos_or_kw"]),
                       "ty": model_ty(top_src["id"])}]
        rng.shuffle(params)
        kw_from = rng.randint(0, len(params)) if self.chance(0.3) else len(params)
        seen_default = False
        for i, p in enumerate(params):
            if i >= kw_from:
                p["kind"] = "kw_only"
            if self.chance(0.25) or (seen_default and p["kind"] != "kw_only"):
                dflt = self.param_default(p["ty"])
                if dflt is None:
                    if seen_default and p["kind"] != "kw_only":
                        p["kind"] = "kw_only"
                        kw_from = min(kw_from, i)
                else:
                    p["default"] = dflt
                    seen_default = seen_default or p["kind"] != "kw_only"
            sig_params.append(p)
        if self.chance(0.02) and not self.history:
            pos = next((i for i, p in enumerate(sig_params) if p["kind"] == "kw_only"), len(sig_params))
            sig_params.insert(pos, {"name": "args", "kind": "var_pos", "ty": leaf(LEAF_ANY)})
        sig = {"params": sig_params, "ret": model_ty(top_dst["id"])}
        # wrap the top level sometimes: Optional[S] -> Optional[D], List[S] -> Tuple[D, ...]
        if self.chance(0.14 if self.deep else 0.08) and not params:
            # deep profile: up to three wrappers, e.g. Optional[List[S]] -> Optional[Tuple[D, ...]]
            for _ in range(rng.choice([1, 2, 2, 3]) if self.deep else 1):
                w = rng.choice(["opt", "iter", "dict"] if self.deep else ["opt", "iter"])
                if w == "opt":
                    if sig["ret"]["t"] == "opt":
                        continue      # typing collapses Optional[Optional[T]]
                    sig["params"][0]["ty"] = {"t": "opt", "a": sig["params"][0]["ty"]}
                    sig["ret"] = {"t": "opt", "a": sig["ret"]}
                elif w == "iter":
                    sig["params"][0]["ty"] = {"t": "iter", "o": "list", "a": sig["params"][0]["ty"]}
                    sig["ret"] = {"t": "iter", "o": rng.choice(["tuple", "list", "sequence"]), "a": sig["ret"]}
                else:
                    sig["params"][0]["ty"] = {"t": "dict", "k": leaf(LEAF_STR), "v": sig["params"][0]["ty"]}
                    sig["ret"] = {"t": "dict", "k": leaf(LEAF_STR), "v": sig["ret"]}
        # ---- api
        plain = len(sig_params) == 1 and sig_params[0]["kind"] == "pos_only" and sig_params[0]["name"] == "src"
        apis = ["impl_converter", "impl_converter", "retort.impl_converter", "retort.extend"]
        if len(sig_params) == 1:
            sig_params[0]["kind"] = "pos_only" if self.chance(0.5) else sig_params[0]["kind"]
            if self.chance(0.45):
                sig_params[0]["kind"], sig_params[0]["name"] = "pos_only", "src"
                plain = True
        if plain:
            apis += ["get_converter", "get_converter", "retort.get_converter"]
            if top_src["kind"] != "typeddict" and top_src.get("generic") is None and not top_src.get("tvars") and sig["ret"]["t"] == "model" \
                    and self.chance(0.3):
                apis = ["convert"]
        case = {"classes": self.ordered_classes(), "sig": sig, "recipe": recipe, "api": rng.choice(apis),
                "fname": rng.choice(FUNC_NAMES), "split": rng.randint(0, len(recipe))}
        if case["api"] == "convert":
            case["fname"] = None
        case["profile"] = {"deep": self.deep, "falsy": self.falsy, "positional-overlay": overlay}
        if self.history:
            # the signature `_make_simple_converter` builds; the requests are drawn by history_case
            sig_params[0]["kind"], sig_params[0]["name"] = "pos_only", "src"
            self._plan, self._by_id, self._top_src = plan, by_id, top_src
            case["profile"]["light"] = self.light
            return case
        case["calls"] = [self.call(case, by_id) for _ in range(rng.choice([1, 2, 2, 3]))]
        return case

    # -- histories: several requests on one retort ----------------------------------------
    def overlay(self):
        """a per-call recipe overriding what the pair gets otherwise: one or two providers overlapping with the
        links already in force (constant, link from another field, link with coercer, swap of two fields, policy)"""
        rng = self.rng
        plan, by_id = self._plan, self._by_id
        out = []
        top = next(p for p in plan if p["top"])
        for _ in range(rng.choice([1, 1, 2])):
            pl = top if self.chance(0.7) else rng.choice(plan)
            s, d = by_id[pl["src"]], by_id[pl["dst"]]
            common = [f["id"] for f in d["fields"] if any(sf["id"] == f["id"] for sf in s["fields"])]
            r = rng.random()
            if r < 0.2 and len(common) >= 2:
                a, b = rng.sample(common, 2)          # the two fields exchange their sources
                out.append({"k": "link", "src": self.src_pred(s, a), "dst": self.dst_pred(d, b), "coercer": None})
                out.append({"k": "link", "src": self.src_pred(s, b), "dst": self.dst_pred(d, a), "coercer": None})
            elif r < 0.3 and d["fields"]:
                f = rng.choice(d["fields"])
                out.append({"k": "policy", "pred": self.dst_pred(d, f["id"]) if self.chance(0.7) else None,
                            "allowed": self.chance(0.5)})
            else:
                prov = self.overlap_provider(pl, by_id, [])
                if prov is not None:
                    out.append(prov)
        return out

    def history_case(self):
        """one model pair, one retort (the module-level API = the global retort, or a ConversionRetort with part of
        the recipe), and 2-6 operations on it: the same (src, dst, name) requested without a per-call recipe and
        with different ones in every order, through get_converter / convert / impl_converter, on the retort and on
        retorts extended from it"""
        rng = self.rng
        case = self.case()
        full = case.pop("recipe")
        for k in ("api", "fname", "split"):
            case.pop(k, None)
        sig = case.pop("sig")
        src_ty, dst_ty = sig["params"][0]["ty"], sig["ret"]
        by_id = self._by_id
        mode = "global" if self.chance(0.4) else "retort"
        if mode == "global":
            base, own = [], full
        else:
            k = 0 if self.chance(0.5) else rng.randint(0, len(full))
            base, own = full[k:], full[:k]       # the retort's providers / the ones given per call
        pairs = [{"src": src_ty, "dst": dst_ty}]
        if not self.pyd:
            pairs.append({"src": src_ty, "dst": src_ty})      # copy conversion: always possible without a recipe
        top_src = self._top_src
        convertible = src_ty["t"] == "model" and top_src["kind"] != "typeddict" and top_src.get("generic") is None \
            and not top_src.get("tvars")

        def per_call(what):
            if what == "plain":
                return []
            r = rng.random()
            if r < 0.25 and own:
                return copy.deepcopy(own)
            if r < 0.75:
                return self.overlay() + copy.deepcopy(own)
            if r < 0.85 and own:
                i = rng.randrange(len(own))
                return copy.deepcopy(own[:i] + own[i + 1:])
            return self.overlay()

        def request(what, on, pair, api, name):
            if api == "convert" and not (convertible and pair["dst"]["t"] == "model"):
                api = "get"
            st = {"op": api, "on": on, "recipe": per_call(what), "src": pair["src"], "dst": pair["dst"],
                  "name": name if api != "convert" else None}
            holder = {"sig": {"params": [{"name": "src", "kind": "pos_only", "ty": pair["src"]}], "ret": pair["dst"]},
                      "api": "get_converter"}
            st["calls"] = [self.call(holder, by_id) for _ in range(rng.choice([1, 1, 2]))]
            return st

        def draw_api():
            return rng.choice(["get", "get", "get", "convert", "convert", "impl"])

        steps = []
        n_retorts = 1
        if self.chance(0.65):
            # the systematic part: one key requested twice on the same retort
            first, second = rng.choice([("plain", "recipe"), ("plain", "recipe"), ("recipe", "plain"),
                                        ("recipe", "recipe"), ("plain", "plain")])
            pair = pairs[0] if self.chance(0.75) else rng.choice(pairs)
            name = rng.choice(FUNC_NAMES)
            a1, a2 = rng.choice([("get", "get"), ("get", "get"), ("get", "convert"), ("convert", "get"),
                                 ("convert", "convert")])
            if name is not None:
                a1 = a2 = "get"               # convert() has no name argument
            steps.append(request(first, 0, pair, a1, name))
            steps.append(request(second, 0, pair, a2, name))
        for _ in range(rng.randint(0 if steps else 2, 4)):
            if mode == "retort" and self.chance(0.2):
                steps.append({"op": "extend", "on": rng.randrange(n_retorts), "recipe": self.overlay()})
                n_retorts += 1
                continue
            on = 0 if self.chance(0.4) else rng.randrange(n_retorts)
            pair = pairs[0] if self.chance(0.7) else rng.choice(pairs)
            steps.append(request("plain" if self.chance(0.4) else "recipe", on, pair, draw_api(),
                                 rng.choice(FUNC_NAMES) if self.chance(0.3) else None))
        case["history"] = {"mode": mode, "base": base, "steps": steps}
        return case

    def ordered_classes(self):
        """dependencies first"""
        by_id = {c["id"]: c for c in self.classes}
        out, seen = [], set()

        def deps(ty):
            t = ty["t"]
            if t == "model":
                yield ty["cls"]
            elif t in ("opt", "iter"):
                yield from deps(ty["a"])
            elif t == "dict":
                yield from deps(ty["k"])
                yield from deps(ty["v"])

        def visit(cid):
            if cid in seen:
                return
            seen.add(cid)
            for f in by_id[cid]["fields"]:
                for d in deps(f["ty"]):
                    visit(d)
            out.append(by_id[cid])

        for c in self.classes:
            visit(c["id"])
        return out

    def const_for(self, f, d):
        if f["ty"] == leaf(LEAF_ANY) or d["kind"] != "pydantic":
            return self.lookalike()
        if f["ty"] == leaf(LEAF_INT):
            return atom_json(self.fresh_int())
        if f["ty"] == leaf(LEAF_STR):
            return atom_json(f"s{self.fresh_int()}")
        return {"v": "none"}

    def param_default(self, ty):
        if ty["t"] not in ("leaf", "opt"):
            return None           # a default must be a well-typed value
        if ty == leaf(LEAF_ANY):
            return self.lookalike()
        if ty == leaf(LEAF_INT):
            return atom_json(self.rng.choice([0, 1, self.fresh_int()]))
        if ty == leaf(LEAF_STR):
            return atom_json(f"it's{self.fresh_int()}")
        if ty == leaf(LEAF_BOOL):
            return atom_json(True)
        if ty == leaf(LEAF_FLOAT):
            return atom_json(self.rng.choice([1.5, float("inf"), -0.0]))
        return {"v": "none"}

    def serve_added(self, recipe, s, d, fid, top, add_param, by_id):
        rng = self.rng
        r = rng.random()
        f = next(x for x in d["fields"] if x["id"] == fid)
        if r < 0.22:
            recipe.append({"k": "link_constant", "dst": self.dst_pred(d, fid), "value": self.lookalike()})
        elif r < 0.32:
            if self.chance(0.5):
                b = rng.choice(["str", "bytes", "NoneType"] if self.pyd else
                               ["list", "dict", "tuple", "str", "bytes", "NoneType"])
                from harness.props.c13_oracle import FACTORY_LITERALS
                recipe.append({"k": "link_constant", "dst": self.dst_pred(d, fid), "factory": 900, "builtin": b,
                               "lit": FACTORY_LITERALS[b]})
            else:
                recipe.append({"k": "link_constant", "dst": self.dst_pred(d, fid), "factory": self.fresh_f(), "lit": None})
        elif r < 0.52:
            recipe.append(self.link_function(s, d, fid, add_param))
        elif r < 0.70:
            # an extra parameter: by the same name (works at the top level only) or through from_param
            name = fid if self.chance(0.6) else rng.choice(PARAM_EXTRA_NAMES)
            if add_param(name, leaf(LEAF_ANY)):
                if name != fid or (not top and self.chance(0.8)) or self.chance(0.2):
                    recipe.append({"k": "link", "src": {"p": "from_param", "n": name} if self.chance(0.8)
                                   else {"p": "name", "n": name}, "dst": self.dst_pred(d, fid), "coercer": None})
        elif r < 0.85:
            # optional + policy
            if d["kind"] == "typeddict":
                f["not_required"] = True
            else:
                f["default"] = self.class_default()
                if d["kind"] in ("dataclass", "attrs"):
                    f["kw_only"] = self.chance(0.4)
            self.fix_default_order(d)
            if self.chance(0.85):
                recipe.append({"k": "policy", "pred": self.dst_pred(d, fid) if self.chance(0.7) else None, "allowed": True})
        # else: left unlinked -> no converter

    def link_function(self, s, d, fid, add_param):
        rng = self.rng
        params = []
        if self.chance(0.8):
            params.append({"name": "model", "kind": rng.choice(["pos_or_kw", "pos_only"]), "ty": leaf(LEAF_ANY)})
        for _ in range(rng.choice([0, 0, 1])):
            name = rng.choice(PARAM_EXTRA_NAMES)
            if params and add_param(name, leaf(LEAF_ANY)) or (params and self.chance(0.1)):
                if name not in [p["name"] for p in params]:
                    params.append({"name": name, "kind": "pos_or_kw", "ty": leaf(LEAF_ANY)})
        for sf in rng.sample(s["fields"], rng.randint(0, min(2, len(s["fields"])))):
            if sf["id"] in [p["name"] for p in params] or sf["id"].startswith("_"):
                continue
            p = {"name": sf["id"], "kind": "kw_only", "ty": leaf(LEAF_ANY)}
            if self.chance(0.3) and not (self.pyd and sf["ty"]["t"] != "leaf"):
                p["annotated"] = True
                p["ty"] = sf["ty"] if self.chance(0.85) else leaf(LEAF_STR)
            params.append(p)
        if self.chance(0.06):
            params.append({"name": "nosuch", "kind": "kw_only", "ty": leaf(LEAF_ANY)})
        if not params:
            params.append({"name": "model", "kind": "pos_or_kw", "ty": leaf(LEAF_ANY)})
        prov = {"k": "link_function", "f": self.fresh_f(), "params": params, "dst": self.dst_pred(d, fid)}
        if self.chance(0.15):
            prov["fname"] = rng.choice([f"coerce_{s['name']}_to_{d['name']}", "data", "ctx", d["name"], "constant_0"])
        return prov

    def call(self, case, by_id):
        rng = self.rng
        sig = case["sig"]
        args, kwargs = [], []
        for i, p in enumerate(sig["params"]):
            if p["kind"] in ("var_pos", "var_kw"):
                continue
            if p.get("default") is not None and self.chance(0.4):
                continue
            v = self.value(p["ty"], by_id)
            if p["kind"] == "kw_only" or (p["kind"] == "pos_or_kw" and (kwargs or self.chance(0.3))):
                kwargs.append([p["name"], v])
            elif len(args) == i:
                args.append(v)
            else:
                kwargs.append([p["name"], v]) if p["kind"] != "pos_only" else None
        if case["api"] in ("get_converter", "retort.get_converter", "convert"):
            args, kwargs = args[:1] or [kw[1] for kw in kwargs[:1]], []
        elif self.chance(0.03):
            kwargs.append(["nosuch", atom_json(1)])
        return {"args": args, "kwargs": kwargs}


def gen_history(rng):
    """a generated history case (see Gen.history_case); same discarding rule as gen_case"""
    from harness.props.c13_world import Universe
    for _ in range(50):
        case = Gen(rng, history=True).history_case()
        try:
            Universe(case["classes"])
        except Exception:  # noqa: BLE001, S112
            continue
        return case
    raise RuntimeError("generator keeps producing classes that cannot be materialised")


def gen_case(rng):
    """a generated case whose classes are legal class bodies of their kinds (pydantic refuses some nestings of
    dataclasses with keyword-only fields; such a draw is discarded, deterministically for a given rng state)"""
    from harness.props.c13_world import Universe
    for _ in range(50):
        g = Gen(rng)
        # one case in eight lies in the region "equal type pairs at sibling positions x position-bound coercers"
        case = g.positional_case() if rng.random() < 0.125 else g.case()
        try:
            Universe(case["classes"])
        except Exception:  # noqa: BLE001, S112
            continue
        return case
    raise RuntimeError("generator keeps producing classes that cannot be materialised")
