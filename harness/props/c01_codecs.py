"""C01 / C02 / C04 — the base64 codec of the bytes-like scalars (Props/C01Codecs.lean, Codec/Base64.lean).

Correspondences (model vs real code, same inputs):
  b64-dump      real dumper of bytes / bytearray / BytesIO through a Retort     vs  model `b2a`
  b64-load      real loader of bytes / bytearray (strict and lax, 3 debug modes) vs  model `loadCodes`
  b64-pattern   B64_PATTERN.fullmatch of the working tree                         vs  model `matchesPattern`
  b64-binascii  binascii.a2b_base64 / b2a_base64 themselves                       vs  model `a2b` / `b2a`
Direct oracle (real code only, independent of Lean): load(dump(bs)) == bs for bytes, bytearray, BytesIO; a loaded text is
ASCII, alphabet + <= 2 pads of a possible length, and the result is the big-endian bit reading of its sextets (computed with
Python ints, not with binascii); canonical encodings are accepted; a rejected str raises ValueLoadError, a non-str
TypeLoadError, nothing else.  Whether the texts that only the lenient decoder tolerates are accepted is left open by the
documentation and is not judged by the oracle (the correspondence still pins the current behaviour to the model).
"""
import binascii
import io
from io import BytesIO

from harness.core import Ctx

ALPHA = "ABCDEFGHIJKLMNOPQRSTUVWXYZabcdefghijklmnopqrstuvwxyz0123456789+/"
NEAR = "-_=. \n\t\r\x00\x7f~,:;*@[`{éµĀK\U0001f600"


def _retorts():
    from adaptix import DebugTrail, Retort
    return {(dt.name, st): Retort(debug_trail=dt, strict_coercion=st) for dt in DebugTrail for st in (True, False)}


def bit_spec(text: str):
    """RFC 4648 as arithmetic: the sextets as one big-endian number, cut to whole bytes. None = not acceptable."""
    if any(ord(c) >= 128 for c in text):
        return None
    body = text.rstrip("=")
    k = len(text) - len(body)
    if k > 2 or any(c not in ALPHA for c in body):
        return None
    n = len(body)
    if not (n % 4 == 0 or (n % 4 == 2 and k == 2) or (n % 4 == 3 and k >= 1)):
        return None
    num = 0
    for c in body:
        num = num * 64 + ALPHA.index(c)
    nbytes = n * 6 // 8
    num >>= n * 6 - nbytes * 8
    return num.to_bytes(nbytes, "big")


def rule_violation(text: str, out: dict):
    """the documented rule evaluated on one outcome of the real loader; None = fine"""
    spec = bit_spec(text)
    canonical = spec is not None and binascii.b2a_base64(spec, newline=False).decode("ascii") == text
    if out["r"] == "ok":
        if spec is None:
            return "accepted although the text is not alphabet characters + at most two pads of a possible length"
        if out["bytes"] != list(spec):
            return f"the bits of the text read {list(spec)}"
        return None
    if out["r"] == "ValueLoadError":
        return "the canonical encoding of a byte string is rejected" if canonical else None
    return "a str that is not base64 must be rejected with ValueLoadError"


def gen_bytes(rng) -> bytes:
    n = rng.choice([0, 1, 2, 3, 4, 5, 6, 7, 8, 9, 10, 11, 12, 16, 31, 32, 33, 57, 58, 100])
    mode = rng.randrange(4)
    if mode == 0:
        return bytes(rng.randrange(256) for _ in range(n))
    if mode == 1:
        return bytes(rng.choice([0, 255, 0x3f, 0xfc, 0xfb, 0xff, 0x0f, 0xf0, 3, 0xc0]) for _ in range(n))
    if mode == 2:
        return bytes([rng.randrange(256)]) * n
    return bytes(rng.randrange(32, 127) for _ in range(n))


def gen_text(rng) -> str:
    """canonical encodings and their neighbourhood, plus free text over alphabet / pads / near-miss characters"""
    mode = rng.randrange(10)
    if mode <= 4:
        t = list(binascii.b2a_base64(gen_bytes(rng), newline=False).decode("ascii"))
        for _ in range(rng.choice([0, 1, 1, 2])):
            op = rng.randrange(5)
            pos = rng.randrange(len(t) + 1)
            if op == 0 and t:
                del t[min(pos, len(t) - 1)]
            elif op == 1:
                t.insert(pos, rng.choice(ALPHA))
            elif op == 2:
                t.insert(pos, rng.choice(NEAR))
            elif op == 3 and t:
                t[min(pos, len(t) - 1)] = rng.choice(ALPHA + NEAR)
            else:
                t.append("=")
        return "".join(t)
    if mode <= 7:
        n = rng.randrange(0, 14)
        body = "".join(rng.choice(ALPHA) for _ in range(n))
        return body + "=" * rng.choice([0, 0, 1, 2, 2, 3])
    n = rng.randrange(0, 10)
    return "".join(rng.choice(ALPHA + "===" + NEAR) for _ in range(n))


NON_STR = [None, 0, 1.5, True, b"QUJD", bytearray(b"QUJD"), ["QUJD"], ("Q",), {"a": 1}, object, 10 ** 30]


def real_load(retort, tp, datum):
    from adaptix.load_error import LoadError
    try:
        v = retort.load(datum, tp)
    except LoadError as e:  # noqa: PERF203
        return {"r": type(e).__name__}
    except BaseException as e:  # noqa: BLE001
        return {"r": "escape", "exc": type(e).__name__}
    if type(v) is not tp:
        return {"r": "wrong-class", "cls": type(v).__name__}
    return {"r": "ok", "bytes": list(v)}


def suite(ctx: Ctx, drv, n: int, stop_on_failure: bool = False):
    from adaptix._internal.morphing import concrete_provider
    retorts = _retorts()
    rng = ctx.rng
    # ---- dump: model b2a vs the real dumpers
    blobs = [gen_bytes(rng) for _ in range(n)]
    dump_req, dump_real = [], []
    for b in blobs:
        r = retorts[("DISABLE", True)]
        outs = {"bytes": r.dump(b, bytes), "bytearray": r.dump(bytearray(b), bytearray), "BytesIO": r.dump(BytesIO(b), BytesIO)}
        ctx.note_case({"suite": "b64", "bytes": list(b)}, nontrivial=len(b) > 0, kind="b64:dump")
        ctx.dist[f"b64:len%3={len(b) % 3}"] += 1
        # direct oracle: round trip, all six configurations, three classes
        for key, rt in retorts.items():
            for tp, mk in ((bytes, bytes), (bytearray, bytearray), (BytesIO, BytesIO)):
                try:
                    back = rt.load(rt.dump(mk(b), tp), tp)
                    got = back.getvalue() if tp is BytesIO else back
                    ok = type(back) is tp and bytes(got) == b
                except Exception as e:  # noqa: BLE001
                    ok, got = False, repr(e)
                if not ok:
                    ctx.fail(f"b64-roundtrip:{tp.__name__}", f"load(dump(x)) != x for {tp.__name__} value {b!r}: {got!r}",
                             {"suite": "b64", "bytes": list(b), "cls": tp.__name__, "cfg": list(key)})
                    if stop_on_failure:
                        return
        if len(set(outs.values())) != 1 or not isinstance(outs["bytes"], str):
            ctx.fail("b64-dump-form", f"bytes-like dumpers disagree on {b!r}: {outs}", {"suite": "b64", "bytes": list(b)})
        dump_req.append({"op": "b64_b2a", "bytes": list(b)})
        dump_real.append([ord(c) for c in outs["bytes"]] if isinstance(outs["bytes"], str) else None)
    if drv:
        dis = 0
        for b, real, rep in zip(blobs, dump_real, drv.batch(dump_req)):
            model = (rep.get("ok") or {}).get("codes")
            if model != real:
                dis += 1
                ctx.disagree("b64-dump", {"bytes": list(b)}, real, rep)
        ctx.suite("b64-dump", len(blobs), dis)
    # ---- load: model loadCodes vs the real loaders (bytes in all six configurations, bytearray in one)
    texts = [gen_text(rng) for _ in range(n * 2)]
    load_req, load_real = [], []
    for t in texts:
        ctx.note_case({"suite": "b64", "text": t}, nontrivial=len(t) > 0, kind="b64:load")
        spec = bit_spec(t)
        ctx.dist["b64:" + ("acceptable" if spec is not None else "unacceptable")] += 1
        per_cfg = {key: real_load(rt, bytes, t) for key, rt in retorts.items()}
        first = per_cfg[("DISABLE", True)]
        if any(v != first for v in per_cfg.values()):
            ctx.fail("b64-load-modes", f"bytes loader differs between configurations on {t!r}: {per_cfg}", {"suite": "b64", "text": t})
        ba = real_load(retorts[("DISABLE", True)], bytearray, t)
        if ba != first:
            ctx.fail("b64-load-bytearray", f"bytearray loader differs from bytes loader on {t!r}: {ba} vs {first}", {"suite": "b64", "text": t})
        # direct oracle ("represented as base64 encoded string"): an accepted text is alphabet + <= 2 pads of a possible length
        # and the value is its bit reading; the canonical encoding of any byte string is accepted; a str is rejected with
        # ValueLoadError only.  Texts the lenient decoder tolerates ("TWFu==", non-zero trailing bits) may go either way.
        bad = rule_violation(t, first)
        if bad:
            ctx.fail("b64-load-rule", f"bytes loader on {t!r}: {first}; {bad}", {"suite": "b64", "text": t})
            if stop_on_failure:
                return
        load_req.append({"op": "b64_load", "codes": [ord(c) for c in t]})
        load_real.append(first)
    for d in NON_STR:
        for key, rt in retorts.items():
            got = real_load(rt, bytes, d)
            if got != {"r": "TypeLoadError"}:
                ctx.fail("b64-load-nonstr", f"bytes loader on non-str {d!r} under {key}: {got}", {"suite": "b64", "nonstr": repr(d)})
    if drv:
        dis = 0
        for t, real, rep in zip(texts, load_real, drv.batch(load_req)):
            model = rep.get("ok")
            if model != real:
                dis += 1
                ctx.disagree("b64-load", {"text": t}, real, rep)
        ctx.suite("b64-load", len(texts), dis)
        # ---- the pattern of the working tree and binascii themselves
        pat = concrete_provider.B64_PATTERN
        raw = [t.encode("ascii") for t in texts if all(ord(c) < 128 for c in t)]
        reqs, exp = [], []
        for s in raw:
            reqs.append({"op": "b64_match", "codes": list(s)})
            exp.append({"m": bool(pat.fullmatch(s))})
        dis = sum(1 for s, e, rep in zip(raw, exp, drv.batch(reqs)) if rep.get("ok") != e and not ctx.disagree("b64-pattern", {"text": s.decode()}, e, rep))
        ctx.suite("b64-pattern", len(raw), dis)
        reqs, exp = [], []
        for s in raw:
            reqs.append({"op": "b64_a2b", "codes": list(s)})
            try:
                exp.append({"r": "ok", "bytes": list(binascii.a2b_base64(s))})
            except binascii.Error as e:
                exp.append({"r": "err", "e": "oneMore" if "1 more" in str(e) else "padding"})
        dis = sum(1 for s, e, rep in zip(raw, exp, drv.batch(reqs)) if rep.get("ok") != e and not ctx.disagree("b64-binascii", {"text": s.decode()}, e, rep))
        ctx.suite("b64-binascii", len(raw), dis)


def replay(ctx: Ctx, case) -> bool:
    retorts = _retorts()
    if "bytes" in case:
        b = bytes(case["bytes"])
        for rt in retorts.values():
            for tp in (bytes, bytearray, io.BytesIO):
                try:
                    back = rt.load(rt.dump(tp(b), tp), tp)
                    got = back.getvalue() if tp is io.BytesIO else back
                    if type(back) is not tp or bytes(got) != b:
                        return True
                except Exception:  # noqa: BLE001
                    return True
        return False
    if "text" in case:
        t = case["text"]
        outs = [real_load(rt, bytes, t) for rt in retorts.values()] + [real_load(retorts[("DISABLE", True)], bytearray, t)]
        return any(rule_violation(t, o) for o in outs) or any(o != outs[0] for o in outs)
    if "nonstr" in case:
        return any(real_load(rt, bytes, d) != {"r": "TypeLoadError"} for rt in retorts.values() for d in NON_STR)
    return False
