"""C18 — Enum and Flag representations are bijections on their members.

Lean side: AdaptixModel/Morph/{EnumVal,EnumNames,Enum,Flag}.lean (model),
AdaptixProofs/Props/C18.lean (theorems).
Tie: correspondence of the real providers (public facade: Retort(recipe=[enum_by_name(...) | ...]).get_loader /
get_dumper) with the model's executable definitions on generated real Enum / IntEnum / StrEnum / Flag / IntFlag
classes, suites
  * enum-codec   : exact value / by name (name_style, map) / by value type  x candidate data x all members
  * flag-codec   : flag by exact value / by member-name list (2x2x2 switches x strict_coercion x name_style x map)
                   x candidate data x all 2^n combinations of the named members
  * flag-struct  : enum.__members__ (canonical names of aliases), mask, non-compound cases, CPython `cls(v)`
  * enum-aliases : which names CPython turns into aliases (== / hash) vs the model's pyEq
  * name-style   : convert_snake_style vs the model on ASCII names x 16 styles
  * multi-bind   : ONE provider bound to SEVERAL predicates (class objects, P[cls], P[a, b], field-name strings,
                   regexes, P[Holder].field; decoys of the other family) and several classes of the population on ONE
                   shared retort, loaders / dumpers requested in varying orders (loader first / dumper first, class
                   order permuted, at top level or as a dataclass field): the complete enum-codec / flag-codec
                   evaluation (oracle + model) on what the shared retort hands out (multi-enum-codec,
                   multi-flag-codec), 'behaves like the provider bound to this class alone' (direct oracle), and
                   bind-select: the provider the Lean model of bound_by_any / recipe search / retort cache selects
                   for every request of the history
Direct oracle (real code only, Python): creation succeeds for every class the documentation does not exclude,
load(dump(m)) is m for every member / combination, the dumped form is the documented one, and a candidate datum is
accepted iff it is (up to Python ==) the representation of a member, everything else raising LoadError; a provider
bound to several predicates gives every class named by one of them that same representation for loader and dumper,
whatever was requested from the retort before, and leaves every other class with the built-in one.
"""

import enum
import itertools
import json
import re
from functools import reduce
from operator import or_

from harness.core import Ctx, Driver, InfraError

ID = "C18"
CLAIM = {
    "technique": "Lean 4 proof (dict/injectivity lemmas for the mapping generators, bitwise cover argument for the "
                 "flag list codec) + model/code correspondence",
    "text": (
        "Proved in Lean for every enum class (any number of members, aliases, unhashable values, overridden "
        "_missing_) and every flag class (zero-valued, compound, multi-bit members, aliases, any number of bits): "
        "load(dump m) = m for the exact-value, by-name (under the explicit hypothesis that the name mapping is "
        "injective) and by-value providers; for flags load(dump v) = v for every union v of members, for the "
        "exact-value provider and for the member-name-list provider under every combination of allow_single_value / "
        "allow_duplicates / strict_coercion with allow_compound=True, and with allow_compound=False for unions of "
        "single-bit members (the full statement is refuted by a witness: known finding); each loader accepts "
        "exactly the representations of members and answers every other datum with a LoadError; creation of loader "
        "and dumper cannot fail for a non-empty flag class with convertible names (zero member, aliases, compound, "
        "multi-bit). Which representation applies: bound_by_any is an `any` over the predicates "
        "(bound_by_any_applies_iff, order-independent), the recipe search takes the first accepting provider "
        "(select_first_match), what a retort with caches answers does not depend on its request history "
        "(served_independent_of_history), loader and dumper of a class get the same representation and the round trip "
        "holds for every class bound through any of several predicates (multi_bound_enum_rt / multi_bound_flag_rt). "
        "The model is tied to the code by eight correspondences on generated real classes."
    ),
    "note": (
        "Trusted: Lean 4.33 kernel; axioms audited each run (subset of propext, Classical.choice, Quot.sound). The "
        "theorems are about the hand-written Lean model of the *repaired* code (three fix patches in fixes/C18-*); the "
        "model is tied to /repo on every run by differential correspondence (all members, all 2^n combinations for "
        "n <= 6, the option cube, candidate data incl. look-alikes and unhashables). CPython 3.12 Enum.__new__ / "
        "Flag._missing_ are modelled and validated by the same correspondence. name_style conversion is modelled for "
        "ASCII names only; enum_by_value is checked under strict coercion for int/str/bool/Any."
    ),
    "design_ref": "DESIGN.md §4 C18",
}
PROPS_FILE = "AdaptixProofs/Props/C18.lean"
LEAN_TARGETS = ["AdaptixProofs.Props.C18", "drv_c18"]
RULE = ("a case is one (class, provider configuration, datum or member/combination) evaluation on the real library "
        "(kinds 'multi:*': the loader / dumper came from a retort shared by several classes whose provider is bound to "
        "two or more predicates); "
        "it is non-trivial when the loader accepts the datum or the round trip of a member / a combination of at "
        "least one flag is exercised (rejections of junk are counted as trivial)")
ASSUMPTIONS = [
    "the by-name round trip needs an injective name mapping (explicit hypothesis of enum_name_rt / flag_list_rt); "
    "configurations whose documented mapping is not injective are only checked for agreement with the model and for "
    "'no exception other than LoadError'",
    "exact-value lookup is a Python dict lookup: 'is the representation of a member' is read up to Python == "
    "(True and 1.0 load as the member with value 1) — DESIGN.md §5",
    "flag classes with negative values, skipped bits (exact-value provider only) and without members are excluded "
    "(documentation / degenerate)",
    "name_style is defined for snake-style names only (convert_snake_style raises ValueError otherwise); such "
    "configurations are compared with the model but excluded from the creation oracle",
    "a list item that cannot be hashed together with allow_duplicates=False (TypeError out of set()) belongs to C04 "
    "and is not fed to this check",
    "instances of the class itself passed as data are compared with the model but only judged by the oracle where the "
    "code states its intent (exact-value loader of a class without mixed-in type rejects them)",
    "multi-bind: predicates are class objects, P[cls], P[a, b], field-name strings, regexes matching one field name and "
    "P[Holder].field; request sites are the class at top level or as the only field of a dataclass; the binding model "
    "covers these forms only (generic / nested locations belong to C09)",
]
TRUSTED = [
    "CPython 3.12 Enum.__new__ / Flag._missing_ / Flag.__or__ / __contains__ as modelled (validated by the enum-codec, "
    "flag-codec and flag-struct correspondences on every run)",
    "loaders / dumpers of int, str, bool, Any under strict coercion as modelled by ValueKind (identity on the exact type)",
]

# ---------------------------------------------------------------------------
# value descriptors  (JSON, shared with the Lean driver)  <->  Python objects
# ---------------------------------------------------------------------------

# ids 0, 1, 4, 5 are hashable and not iterable (usable as a top-level datum); 2, 3 (hashable) and 10..13 (unhashable)
# are containers and only ever used as *items* of a list / tuple / dict datum
OPAQUE = {
    0: (1.5, True), 1: (1j, True), 2: (("A",), True), 3: (frozenset({"A"}), True), 4: (2.5, True), 5: (-0.5, True),
    10: (["A"], False), 11: ({"A": 1}, False), 12: ([[1]], False), 13: ({"A"}, False),
}


def d_none():
    return {"t": "none"}


def d_bool(b):
    return {"t": "bool", "v": bool(b)}


def d_int(i):
    return {"t": "int", "v": int(i)}


def d_float(i):
    return {"t": "float", "v": int(i)}


def d_str(s):
    return {"t": "str", "v": s}


def d_opaque(k):
    return {"t": "opaque", "k": k, "h": OPAQUE[k][1]}


def d_list(items):
    return {"t": "list", "v": list(items)}


def d_tuple(items):
    return {"t": "tuple", "v": list(items)}


def d_mapping(keys):
    return {"t": "mapping", "v": list(keys)}


def dec_atom(d):
    t = d["t"]
    if t == "none":
        return None
    if t == "bool":
        return bool(d["v"])
    if t == "int":
        return int(d["v"])
    if t == "float":
        return float(d["v"])
    if t == "str":
        return d["v"]
    if t == "opaque":
        return OPAQUE[d["k"]][0]
    raise InfraError(f"bad atom descriptor {d}")


def dec_val(d, cls=None):
    t = d["t"]
    if t == "list":
        return [dec_atom(x) for x in d["v"]]
    if t == "tuple":
        return tuple(dec_atom(x) for x in d["v"])
    if t == "mapping":
        return {dec_atom(x): 1 for x in d["v"]}
    if t == "self":
        return cls.__members__[d["name"]]
    return dec_atom(d)


class Unencodable(Exception):
    pass


def enc_atom(x):
    if x is None:
        return d_none()
    t = type(x)
    if t is bool:
        return d_bool(x)
    if t is int:
        return d_int(x)
    if t is float and x == x and x not in (float("inf"), float("-inf")) and x.is_integer():
        return d_float(int(x))
    if t is str:
        return d_str(x)
    for k, (obj, _h) in OPAQUE.items():
        if type(obj) is t:
            try:
                if obj == x:
                    return d_opaque(k)
            except Exception:
                pass
    raise Unencodable(repr(x))


def enc_val(x, cls=None):
    if cls is not None and type(x) is cls:
        return {"t": "self", "name": x.name, "as": self_as(cls, x)}
    t = type(x)
    if t is list:
        try:
            return d_list(enc_atom(i) for i in x)
        except Unencodable:
            return enc_atom(x)
    if t is tuple:
        try:
            return d_tuple(enc_atom(i) for i in x)
        except Unencodable:
            return enc_atom(x)
    if t is dict:
        return d_mapping(enc_atom(i) for i in x)
    return enc_atom(x)


def has_mixin(cls):
    return cls._member_type_ is not object


def self_as(cls, member):
    """what an instance of the class is equal to / hashes like"""
    if has_mixin(cls):
        return enc_atom(member._value_)  # the plain int / str it is equal to
    idx = list(cls.__members__.values()).index(member)
    return {"t": "opaque", "k": 100 + idx, "h": True}


def canon(obj):
    return json.dumps(obj, sort_keys=True, separators=(",", ":"), default=repr)


def py_eq(a, b):
    try:
        return bool(a == b)
    except Exception:
        return False


def hashable(x):
    try:
        hash(x)
    except TypeError:
        return False
    return True


# ---------------------------------------------------------------------------
# class specifications -> real classes
# ---------------------------------------------------------------------------
# enum spec : {"kind": "enum"|"int"|"str"|"strenum", "pairs": [[name, value descriptor]], "missing": [[value d, name]]|None}
# flag spec : {"kind": "flag"|"intflag", "boundary": None|"STRICT"|"CONFORM"|"EJECT"|"KEEP", "pairs": [[name, int]]}

_COUNTER = itertools.count()


def build_enum(spec):
    pairs = [(n, dec_val(v)) for n, v in spec["pairs"]]
    name = f"E{next(_COUNTER)}"
    kind = spec["kind"]
    if spec.get("missing") is not None:
        table = {}
        for vd, n in spec["missing"]:
            table[dec_val(vd)] = n

        class Base(enum.Enum):
            @classmethod
            def _missing_(cls, value):
                try:
                    n = table.get(value)
                except TypeError:
                    return None
                m = cls.__members__.get(n)
                return m if m is not None and m.name == n else None

        return Base(name, pairs)
    if kind == "enum":
        return enum.Enum(name, pairs)
    if kind == "int":
        return enum.IntEnum(name, pairs)
    if kind == "str":
        return enum.Enum(name, pairs, type=str)
    if kind == "strenum":
        return enum.StrEnum(name, pairs)
    raise InfraError(f"bad enum kind {kind}")


def build_flag(spec):
    base = enum.Flag if spec["kind"] == "flag" else enum.IntFlag
    name = f"F{next(_COUNTER)}"
    kw = {}
    if spec.get("boundary"):
        kw["boundary"] = getattr(enum, spec["boundary"])
    return base(name, [(n, int(v)) for n, v in spec["pairs"]], **kw)


def enum_model_class(cls, spec):
    """the class as the model sees it, read back from the real class"""
    entries = []
    for n, m in cls.__members__.items():
        entries.append({"name": n, "value": enc_val(m.value), "alias": None if m.name == n else m.name})
    out = {"entries": entries}
    if spec.get("missing") is not None:
        # effective table (dict semantics already applied by Python)
        table = {}
        for vd, n in spec["missing"]:
            table[dec_val(vd)] = n
        out["missing"] = [[enc_val(k), n] for k, n in table.items()]
    return out


def flag_model_class(cls, spec):
    return {"entries": [{"name": n, "bits": int(v)} for n, v in spec["pairs"]],
            "strict": cls._boundary_ is enum.STRICT}


# ---------------------------------------------------------------------------
# provider configurations
# ---------------------------------------------------------------------------
# name cfg : {"style": None|"LOWER_SNAKE"..., "map": [[{"k":"name","v":n}|{"k":"member","v":attr}|{"k":"foreign","v":i}, mapped]]}

STYLES = ["LOWER_SNAKE", "CAMEL_SNAKE", "PASCAL_SNAKE", "UPPER_SNAKE", "LOWER_KEBAB", "CAMEL_KEBAB", "PASCAL_KEBAB",
          "UPPER_KEBAB", "LOWER", "CAMEL", "PASCAL", "UPPER", "LOWER_DOT", "CAMEL_DOT", "PASCAL_DOT", "UPPER_DOT"]


class ForeignPlain(enum.Enum):
    A = 1
    B = "A"


class ForeignStr(str, enum.Enum):
    A = "A"
    B = "B"
    X = "x"
    AB = "AB"


class ForeignInt(enum.IntEnum):
    A = 1
    B = 2


FOREIGN = [ForeignPlain.A, ForeignPlain.B, ForeignStr.A, ForeignStr.B, ForeignStr.X, ForeignStr.AB, ForeignInt.A,
           ForeignInt.B]


def build_pymap(cls, map_spec):
    """the dict the user would write; Python's own key merging applies"""
    if map_spec is None:
        return None
    out = {}
    for key, mapped in map_spec:
        if key["k"] == "name":
            out[key["v"]] = mapped
        elif key["k"] == "member":
            out[cls.__members__[key["v"]]] = mapped
        else:
            out[FOREIGN[key["v"]]] = mapped
    return out


def model_map(cls, pymap):
    """the effective dict as the model sees it"""
    rows = []
    for key, mapped in (pymap or {}).items():
        if type(key) is cls:
            rows.append([{"k": "member", "v": key.name}, mapped])
        elif isinstance(key, enum.Enum):
            rows.append([{"k": "foreign"}, mapped])
        else:
            rows.append([{"k": "name", "v": key}, mapped])
    return rows


SIMPLE_NAME = re.compile(r"[a-z]+(_[a-z]+)*\Z")


def simple_convert(name, style):
    """documented meaning of the 16 styles on plain lower_snake names (independent of adaptix)"""
    case, _, sepname = style.partition("_")
    sep = {"SNAKE": "_", "KEBAB": "-", "DOT": ".", "": ""}[sepname]
    words = name.split("_")
    if case == "LOWER":
        ws = [w.lower() for w in words]
    elif case == "UPPER":
        ws = [w.upper() for w in words]
    elif case == "CAMEL":
        ws = [words[0].lower()] + [w.capitalize() for w in words[1:]]
    else:
        ws = [w.capitalize() for w in words]
    return sep.join(ws)


def documented_name(member, style, pymap):
    """what the documentation of enum_by_name / flag_by_member_names promises for one member; ValueError when the
    name is outside the domain of name styles"""
    for key, mapped in (pymap or {}).items():
        if key is member:
            return mapped
    for key, mapped in (pymap or {}).items():
        if type(key) is str and key == member.name:
            return mapped
    if style is None:
        return member.name
    if SIMPLE_NAME.match(member.name):
        return simple_convert(member.name, style)
    from adaptix import NameStyle
    from adaptix._internal.name_style import convert_snake_style
    return convert_snake_style(member.name, NameStyle[style])


def is_ascii(s):
    return all(ord(ch) < 128 for ch in s)


def make_retort(provider, strict_coercion=True, debug_trail=None):
    from adaptix import DebugTrail, Retort
    kw = {}
    if debug_trail is not None:
        kw["debug_trail"] = DebugTrail[debug_trail]
    return Retort(strict_coercion=strict_coercion, recipe=[provider] if provider is not None else [], **kw)


def canon_create(fn):
    """('ok', closure) | ('cannot_provide', None) | ('raises', None)"""
    from adaptix import ProviderNotFoundError
    try:
        return "ok", fn()
    except ProviderNotFoundError:
        return "cannot_provide", None
    except Exception:  # noqa: BLE001
        return "raises", None


def creation_error(fn):
    try:
        fn()
    except Exception as e:  # noqa: BLE001
        return f"{type(e).__name__}: {str(e)[:120]}"
    return "no error"


def sorted_canon(items):
    return sorted(items, key=canon)


def canon_load_error(e, cls):
    name = type(e).__name__
    out = {"err": name}
    try:
        if name == "BadVariantLoadError":
            out["variants"] = sorted_canon(enc_val(v, cls) for v in e.allowed_values)
        elif name == "MultipleBadVariantLoadError":
            out["variants"] = sorted(e.allowed_values)
            out["invalid"] = [enc_atom_or_self(v, cls) for v in e.invalid_values]
        elif name == "OutOfRangeLoadError":
            out["lo"], out["hi"] = e.min_value, e.max_value
    except Unencodable as u:
        out["unencodable"] = str(u)
    return out


def enc_atom_or_self(v, cls):
    return enc_atom(v)


def canon_model_outcome(o):
    """same canonical form for a model reply"""
    if "err" in o:
        out = {"err": o["err"]}
        if o["err"] == "BadVariantLoadError":
            out["variants"] = sorted_canon(o["variants"])
        elif o["err"] == "MultipleBadVariantLoadError":
            out["variants"] = sorted(o["variants"])
            out["invalid"] = o["invalid"]
        elif o["err"] == "OutOfRangeLoadError":
            out["lo"], out["hi"] = o["lo"], o["hi"]
        return out
    return o


def run_loader(loader, datum, cls, ok_of):
    from adaptix.load_error import LoadError
    try:
        res = loader(datum)
    except LoadError as e:
        return canon_load_error(e, cls), None
    except Exception as e:  # noqa: BLE001
        return {"esc": type(e).__name__}, None
    return {"ok": ok_of(res)}, res


# ---------------------------------------------------------------------------
# enum providers: one (class, provider configuration) evaluation
# ---------------------------------------------------------------------------

KF_UNNAMED_BIT = "flag-list:allow_compound=False:bits-without-single-bit-member-dropped"


def oracle_hooks(ctx: Ctx, env):
    """ctx.fail / ctx.note_case; inside the multi-bind suite every failure signature and every evidence kind carries
    the prefix 'multi-bind:' / 'multi:' (the known finding keeps its signature: it is the same defect there)"""
    if env is None:
        return ctx.fail, (lambda c, nontrivial, kind=None: ctx.note_case(c, nontrivial=nontrivial, kind=kind))

    def fail(sig, what, c):
        ctx.fail(sig if sig == KF_UNNAMED_BIT else "multi-bind:" + sig, env["where"] + what, c)

    def note(c, nontrivial, kind=None):
        ctx.note_case(c, nontrivial=nontrivial, kind="multi:" + kind if kind else None)
    return fail, note


JUNK = [d_none(), d_int(0), d_int(1), d_int(2), d_int(-1), d_bool(True), d_bool(False), d_float(1), d_float(0),
        d_str(""), d_str("A"), d_str("a"), d_str("1"), d_opaque(0), d_opaque(1), d_opaque(4), d_list([]),
        d_list([d_int(1)]), d_tuple([]), d_tuple([d_int(1)]), d_mapping([]), d_mapping([d_str("A")]),
        d_list([d_opaque(12)]), d_tuple([d_opaque(10)])]


def lookalikes(d):
    """near misses and ==-look-alikes of one value descriptor"""
    t = d["t"]
    out = []
    if t in ("int", "bool", "float"):
        v = int(d["v"])
        out += [d_int(v), d_float(v), d_int(v + 1), d_str(str(v))]
        if v in (0, 1):
            out.append(d_bool(v))
    elif t == "str":
        s = d["v"]
        out += [d_str(s + " "), d_str(s.upper()), d_str(s.lower()), d_str(s[:-1]), d_str(s.swapcase()),
                d_list([d]), d_tuple([d])]
        if s.lstrip("-").isdigit() and len(s) < 6:
            out.append(d_int(int(s)))
    elif t == "list":
        out += [d_tuple(d["v"]), d_list(d["v"][:-1]), d_list(d["v"] + [d_int(0)]),
                d_list([x2 for x in d["v"] for x2 in lookalikes(x)[:2]][:len(d["v"])])]
    elif t == "tuple":
        out += [d_list(d["v"]), d_tuple(d["v"][:-1]), d_tuple(d["v"] + [d_int(0)]),
                d_tuple([x2 for x in d["v"] for x2 in lookalikes(x)[:2]][:len(d["v"])])]
    elif t == "none":
        out += [d_str("None"), d_int(0), d_bool(False)]
    return out


def dedup(ds):
    seen, out = set(), []
    for d in ds:
        k = canon(d)
        if k not in seen:
            seen.add(k)
            out.append(d)
    return out


def enum_candidates(cls, spec, docnames, rng, limit):
    ds = []
    for n, m in cls.__members__.items():
        try:
            vd = enc_val(m.value)
        except Unencodable:
            continue
        ds += [vd, d_str(n), d_str(n.lower()), d_str(n.upper())] + lookalikes(vd)
        ds.append({"t": "self", "name": m.name, "as": self_as(cls, m)})
    for s in docnames:
        ds += [d_str(s)] + lookalikes(d_str(s))[:4]
    for vd, _n in (spec.get("missing") or []):
        ds += [vd] + lookalikes(vd)[:3]
    ds = dedup(ds)
    junk = list(JUNK)
    rng.shuffle(junk)
    if len(ds) > limit:
        head = ds[: limit // 2]
        tail = ds[limit // 2:]
        rng.shuffle(tail)
        ds = head + tail[: limit - len(head)]
    return dedup(ds + junk[:10])


def enum_provider(cls, cfg, pymap):
    from typing import Any

    from adaptix import NameStyle, enum_by_exact_value, enum_by_name, enum_by_value
    k = cfg["kind"]
    if k == "exact":
        return enum_by_exact_value() if cfg.get("explicit") else None
    if k == "name":
        return enum_by_name(name_style=NameStyle[cfg["style"]] if cfg.get("style") else None, map=pymap)
    tp = {"int": int, "str": str, "bool": bool, "any": Any}[cfg["tp"]]
    return enum_by_value(cls, tp=tp)


def enum_expected(cls, cfg, d, obj, doc):
    """independent statement of 'is the representation of member m' -> set of admissible members, or None = must be
    rejected with LoadError; 'skip' when the property does not decide"""
    k = cfg["kind"]
    if d["t"] == "self":
        if k == "exact" and not has_mixin(cls):
            return None
        return "skip"
    if k == "name":
        if doc is None:
            return "skip"
        if type(obj) is not str:
            return None
        ms = [m for m in cls if doc[m.name] == obj]
        return ms or None
    if k == "value":
        tp = cfg["tp"]
        if tp != "any" and type(obj) is not {"int": int, "str": str, "bool": bool}[tp]:
            return None
    ms = [m for m in cls if py_eq(m.value, obj)]
    if ms:
        return ms
    if cls._missing_.__func__ is not enum.Enum._missing_.__func__:
        try:
            r = cls._missing_(obj)
        except ValueError:
            r = None
        if isinstance(r, cls):
            return [r]
    return None


def eval_enum(ctx: Ctx, spec, cfg, rng=None, with_model=True, env=None):
    """runs one configuration on the real library, evaluates the direct oracle, returns (request, real canonical).
    env (multi-bind suite): the class, the provider's map and the loader / dumper were obtained elsewhere (from a
    retort shared by several classes whose provider is bound to several predicates); cfg is then the representation
    the class is *expected* to have there"""
    rng = rng or ctx.rng
    fail, note = oracle_hooks(ctx, env)
    if env is None:
        cls = build_enum(spec)
        case0 = {"suite": "enum-codec", "cls": spec, "provider": cfg}
        pymap = build_pymap(cls, cfg.get("map")) if cfg["kind"] == "name" else None
        retort = make_retort(enum_provider(cls, cfg, pymap), True, cfg.get("debug_trail"))
        l_tag, loader = canon_create(lambda: retort.get_loader(cls))
        d_tag, dumper = canon_create(lambda: retort.get_dumper(cls))
    else:
        cls, case0, pymap = env["cls"], env["case0"], env["pymap"] if cfg["kind"] == "name" else None
        (l_tag, loader), (d_tag, dumper) = env["loader"], env["dumper"]
    label = cfg["kind"] + (":" + cfg["tp"] if cfg["kind"] == "value" else "")
    # documented mapping (names only)
    doc = None
    convertible = True
    if cfg["kind"] == "name":
        try:
            doc = {m.name: documented_name(m, cfg.get("style"), pymap) for m in cls}
        except ValueError:
            convertible = False
    # -- creation oracle
    if convertible:
        for what, tag in (("loader", l_tag), ("dumper", d_tag)):
            if tag != "ok":
                fail(f"enum-{cfg['kind']}:creation-fails", f"creating the {what} of an Enum class for provider {cfg} "
                         f"fails ({l_tag if what == 'loader' else d_tag}); members {spec['pairs']}", case0)
    real = {"loader": l_tag, "dumper": d_tag, "loads": [], "dumps": []}
    members = list(cls)
    injective = doc is None or len(set(doc.values())) == len(doc)
    # -- dump + round trip of every member
    dumped = {}
    if dumper is not None:
        for m in members:
            try:
                out = dumper(m)
                dumped[m.name] = out
                real["dumps"].append(enc_val(out))
            except Exception as e:  # noqa: BLE001
                real["dumps"].append({"esc": type(e).__name__})
                fail(f"enum-{cfg['kind']}:dump-raises", f"dumping member {m!r} with {cfg} raises {type(e).__name__}",
                         dict(case0, member=m.name))
                continue
            c = dict(case0, member=m.name)
            if cfg["kind"] == "name":
                expect = doc[m.name] if doc is not None else None
                good = doc is None or (type(out) is str and out == expect)
            else:
                expect = m.value
                good = out is m.value or (type(out) is type(m.value) and py_eq(out, m.value))
            if not good:
                fail(f"enum-{cfg['kind']}:dump-not-documented-representation",
                         f"{label}: member {m.name} of {spec['pairs']} with {cfg} dumps to {out!r}, documented "
                         f"representation is {expect!r}", c)
            covered = cfg["kind"] != "value" or cfg["tp"] == "any" or \
                type(m.value) is {"int": int, "str": str, "bool": bool}[cfg["tp"]]
            note(c, nontrivial=True, kind=f"enum-{label}-roundtrip")
            if loader is not None and injective and covered:
                o, res = run_loader(loader, out, cls, lambda r: r.name if isinstance(r, cls) else repr(r))
                if res is not m:
                    fail(f"enum-{cfg['kind']}:round-trip", f"{label}: load(dump({m.name})) gives {o} instead of the "
                             f"member; class {spec['pairs']} provider {cfg}", c)
    # -- candidate data
    data = enum_candidates(cls, spec, sorted(set((doc or {}).values())), rng, 40)
    for out in dumped.values():
        try:
            data.append(enc_val(out))
        except Unencodable:
            pass
    data = dedup(data)
    if loader is not None:
        for d in data:
            obj = dec_val(d, cls)
            o, res = run_loader(loader, obj, cls, lambda r: r.name if isinstance(r, cls) else repr(r))
            real["loads"].append(o)
            c = dict(case0, datum=d)
            note(c, nontrivial="ok" in o, kind=f"enum-{label}-" + ("accept" if "ok" in o else o.get("err", "escape")))
            exp = enum_expected(cls, cfg, d, obj, doc)
            if "esc" in o:
                fail(f"enum-{cfg['kind']}:escape", f"{label}: datum {obj!r} makes the loader raise {o['esc']} "
                         f"(not a LoadError); class {spec['pairs']} provider {cfg}", c)
            elif exp == "skip":
                pass
            elif exp is None and "ok" in o:
                fail(f"enum-{cfg['kind']}:accepts-non-representation", f"{label}: datum {obj!r} is not the "
                         f"representation of a member of {spec['pairs']} but loads as {o['ok']}; provider {cfg}", c)
            elif exp is not None and ("ok" not in o or not any(res is m for m in exp)):
                fail(f"enum-{cfg['kind']}:rejects-representation", f"{label}: datum {obj!r} is the representation "
                         f"of {[m.name for m in exp]} of {spec['pairs']} but the loader answers {o}; provider {cfg}", c)
    real["_data"], real["_values"] = data, members
    if cfg["kind"] == "exact" and loader is not None and getattr(loader, "__name__", "") in (
            "enum_exact_loader_v2m", "enum_exact_loader"):
        real["path"] = "v2m" if loader.__name__.endswith("v2m") else "fallback"
    ctx.sample({"suite": "enum-codec", "cls": spec, "provider": cfg, "dumps": real["dumps"][:3],
                "loads": list(zip(data[:3], real["loads"][:3]))}, every=173)
    if not with_model:
        return None, real
    if cfg["kind"] == "name" and cfg.get("style") and not all(is_ascii(m.name) for m in cls.__members__.values()):
        return None, real   # name styles are modelled for ASCII names only
    mcls = enum_model_class(cls, spec)
    prov = {"kind": cfg["kind"]}
    if cfg["kind"] == "name":
        prov["style"] = cfg.get("style")
        prov["map"] = model_map(cls, pymap)
    if cfg["kind"] == "value":
        prov["tp"] = cfg["tp"]
    req = {"op": "enum", "entries": mcls["entries"], "provider": prov, "data": data,
           "dump": [m.name for m in members]}
    if "missing" in mcls:
        req["missing"] = mcls["missing"]
    return req, real


def compare_enum(rep, real):
    """model reply vs real canonical; returns a description of the first difference or None"""
    if "ok" not in rep:
        return f"model error {rep}"
    m = rep["ok"]
    if m["loader"] != real["loader"] or m["dumper"] != real["dumper"]:
        return f"creation: model {m['loader']}/{m['dumper']} real {real['loader']}/{real['dumper']}"
    if real["dumper"] == "ok" and m["dumps"] != real["dumps"]:
        return f"dumps: model {m['dumps']} real {real['dumps']}"
    if real["loader"] == "ok":
        ml = [canon_model_outcome(o) for o in m["loads"]]
        if ml != real["loads"]:
            for i, (a, b) in enumerate(zip(ml, real["loads"])):
                if a != b:
                    return f"load #{i}: model {a} real {b}"
            return "loads differ in length"
    if "path" in real and m.get("path") != real["path"]:
        return f"path: model {m.get('path')} real {real['path']}"
    return None


# ---------------------------------------------------------------------------
# flag providers: one (class, provider configuration) evaluation
# ---------------------------------------------------------------------------

def popcount1(v):
    return v > 0 and v & (v - 1) == 0


def flag_provider(cfg, pymap):
    from adaptix import NameStyle, flag_by_exact_value, flag_by_member_names
    if cfg["kind"] == "exact":
        return flag_by_exact_value() if cfg.get("explicit") else None
    return flag_by_member_names(
        allow_single_value=cfg["single"], allow_duplicates=cfg["dups"], allow_compound=cfg["compound"],
        name_style=NameStyle[cfg["style"]] if cfg.get("style") else None, map=pymap,
    )


def flag_values(cls, rng, max_exhaustive=6, sample=48):
    """all unions of subsets of the distinct named members (exhaustive for n <= 6)"""
    distinct = []
    for m in cls.__members__.values():
        if m not in distinct:
            distinct.append(m)
    zero = cls(0)
    n = len(distinct)
    if n <= max_exhaustive:
        subsets = [[distinct[i] for i in range(n) if mask >> i & 1] for mask in range(2 ** n)]
    else:
        subsets = [[]] + [[m] for m in distinct] + [distinct]
        for _ in range(sample):
            subsets.append([m for m in distinct if rng.random() < 0.5])
    vals, seen = [], set()
    for s in subsets:
        v = reduce(or_, s, zero)
        if v._value_ not in seen:
            seen.add(v._value_)
            vals.append(v)
    return vals


def flag_list_candidates(cls, docnames_all, dumps, rng, limit):
    names = dedup([d_str(s) for s in docnames_all] + [d_str(n) for n in cls.__members__])
    bad = [d_str("NOPE"), d_str(""), d_int(1), d_bool(True), d_none(), d_opaque(0), d_opaque(2), d_opaque(10),
           d_opaque(11), d_float(1)]
    bad += [d_str(n["v"].lower()) for n in names[:3]] + [d_str(n["v"] + "_") for n in names[:2]]
    out = [d_list([]), d_tuple([]), d_mapping([]), d_none(), d_int(0), d_int(1), d_bool(True), d_opaque(0), d_opaque(1),
           d_str(""), d_str("NOPE")]
    for n in names:
        out += [d_list([n]), n, d_tuple([n]), d_mapping([n]), d_list([n, n])]
    for _ in range(limit):
        k = rng.randint(1, 4)
        items = [rng.choice(names) if rng.random() < 0.8 else rng.choice(bad) for _ in range(k)]
        out.append(rng.choice([d_list, d_list, d_tuple, d_mapping])(items))
    for d in dumps:
        out.append(d_list([d_str(s) for s in d]))
        if d:
            out.append(d_tuple([d_str(s) for s in reversed(d)]))
            out.append(d_list([d_str(s) for s in d] + [d_str(d[0])]))
    out = [d for d in out if d["t"] != "mapping" or mapping_keys_distinct(d)]
    return dedup(out)


def mapping_keys_distinct(d):
    """a dict datum whose keys Python itself would merge (1 / True / 1.0) or cannot hash is not this datum"""
    if not all(k.get("h", True) for k in d["v"]):
        return False
    objs = [dec_atom(k) for k in d["v"]]
    return len(set(objs)) == len(objs)


def flag_list_expected(cls, cfg, d, obj, allowed_doc):
    """None = must be rejected; 'skip'; else the int value the datum represents.
    allowed_doc: documented name -> list of admissible member values (more than one when not injective)"""
    if d["t"] == "self":
        return None
    if type(obj) is str:
        if not cfg["single"]:
            return None
        items = [obj]
    elif type(obj) in (list, tuple):
        items = list(obj)
    elif type(obj) is dict:
        if cfg["strict_coercion"]:
            return None
        items = list(obj)
    else:
        return None
    if not cfg["dups"]:
        if not all(hashable(i) for i in items):
            return "skip"     # C04
        if any(py_eq(a, b) for i, a in enumerate(items) for b in items[i + 1:]):
            return None
    value = 0
    for it in items:
        if type(it) is not str or it not in allowed_doc:
            return None
        if len(allowed_doc[it]) != 1:
            return "skip"
        value |= allowed_doc[it][0]
    return value


def eval_flag(ctx: Ctx, spec, cfg, rng=None, with_model=True, env=None):
    rng = rng or ctx.rng
    fail, note = oracle_hooks(ctx, env)
    if env is None:
        cls = build_flag(spec)
        case0 = {"suite": "flag-codec", "cls": spec, "provider": cfg}
        pymap = build_pymap(cls, cfg.get("map")) if cfg["kind"] == "list" else None
        retort = make_retort(flag_provider(cfg, pymap), cfg.get("strict_coercion", True), cfg.get("debug_trail"))
        l_tag, loader = canon_create(lambda: retort.get_loader(cls))
        d_tag, dumper = canon_create(lambda: retort.get_dumper(cls))
    else:
        cls, case0, pymap = env["cls"], env["case0"], env["pymap"] if cfg["kind"] == "list" else None
        (l_tag, loader), (d_tag, dumper) = env["loader"], env["dumper"]
    kind = cfg["kind"]
    mask = reduce(or_, (int(v) for _n, v in spec["pairs"]), 0)
    nonneg = all(int(v) >= 0 for _n, v in spec["pairs"])
    gaps = mask < 0 or (2 ** mask.bit_length() - 1) != mask
    members = list(cls.__members__.values())
    # documented names of the cases the provider may use
    allowed_doc = None
    convertible = True
    injective = True
    if kind == "list":
        try:
            allowed_doc = {}
            for m in members:
                if cfg["compound"] or popcount1(m._value_):
                    vs = allowed_doc.setdefault(documented_name(m, cfg.get("style"), pymap), [])
                    if m._value_ not in vs:
                        vs.append(m._value_)
            injective = all(len(v) == 1 for v in allowed_doc.values())
        except ValueError:
            convertible = False
            allowed_doc = None
    # -- creation oracle
    excluded = not nonneg or (kind == "exact" and gaps) or not convertible
    if kind == "exact" and nonneg and gaps and l_tag != "cannot_provide":
        fail("flag-exact:creation-of-excluded-class", f"flag {spec['pairs']} has skipped bits: the loader creation "
                 f"must be refused with ProviderNotFoundError, got {l_tag}", case0)
    if kind == "exact" and d_tag != "ok":
        fail("flag-exact:creation-fails", f"creating the exact-value dumper of flag {spec['pairs']} fails", case0)
    if not excluded:
        for what, tag in (("loader", l_tag), ("dumper", d_tag)):
            if tag != "ok":
                fail(f"flag-{kind}:creation-fails", f"creating the {what} of flag class {spec['pairs']} "
                         f"({spec['kind']}, boundary {spec.get('boundary')}) with provider {cfg} fails: "
                         f"{creation_error(lambda: getattr(retort, 'get_' + what)(cls)) if env is None else tag}", case0)
    real = {"loader": l_tag, "dumper": d_tag, "loads": [], "dumps": []}
    if not nonneg:
        return None, real          # outside the model (and the documentation)
    # -- all combinations: dump, documented form, round trip
    values = flag_values(cls, rng)
    single_union = reduce(or_, (m._value_ for m in members if popcount1(m._value_)), 0)
    dumps = []
    if dumper is not None:
        for v in values:
            c = dict(case0, value=v._value_)
            try:
                out = dumper(v)
            except Exception as e:  # noqa: BLE001
                real["dumps"].append({"esc": type(e).__name__})
                fail(f"flag-{kind}:dump-raises", f"dumping {v!r} of {spec['pairs']} with {cfg} raises "
                         f"{type(e).__name__}", c)
                continue
            note(c, nontrivial=v._value_ != 0, kind=f"flag-{kind}-roundtrip")
            if kind == "exact":
                real["dumps"].append(enc_val(out))
                if type(out) is not int or out != v._value_:
                    fail("flag-exact:dump-not-documented-representation", f"{v!r} dumps to {out!r}", c)
            else:
                wf = type(out) is list and all(type(s) is str for s in out)
                real["dumps"].append(list(out) if wf else repr(out))
                if wf:
                    dumps.append(out)
                if allowed_doc is not None and not (wf and all(
                        s in allowed_doc and any(b & v._value_ == b for b in allowed_doc[s]) for s in out)):
                    fail("flag-list:dump-not-documented-representation", f"{v!r} of {spec['pairs']} with {cfg} "
                             f"dumps to {out!r}: not a list of documented names of members contained in the value", c)
            if loader is None or (kind == "list" and not injective):
                continue
            o, res = run_loader(loader, out, cls, lambda r: r._value_ if isinstance(r, cls) else repr(r))
            if res is not v:
                if kind == "list" and not cfg["compound"] and v._value_ & ~single_union:
                    fail(KF_UNNAMED_BIT, f"flag_by_member_names(allow_compound=False): {v!r} of {spec['pairs']} "
                             f"dumps to {out!r} and loads back as {o}: bits that have no single-bit member of their "
                             f"own are silently dropped", c)
                else:
                    fail(f"flag-{kind}:round-trip", f"load(dump({v!r})) gives {o}; dumped {out!r}; class "
                             f"{spec['pairs']} ({spec['kind']}, boundary {spec.get('boundary')}) provider {cfg}", c)
    # -- candidate data
    if kind == "exact":
        ints = {-2, -1, 0, 1, 2, 3, mask - 1, mask, mask + 1, mask + 2, 2 * mask + 1} | {v._value_ for v in values}
        if mask < 64:
            ints |= set(range(0, mask + 3))
        else:
            ints |= {rng.randrange(0, mask + 1) for _ in range(24)}
        data = [d_int(i) for i in sorted(ints)] + [d_bool(True), d_bool(False), d_float(1), d_float(0), d_str("1"),
                                                  d_str("A"), d_none(), d_list([d_int(1)]), d_tuple([]), d_opaque(0),
                                                  d_mapping([])]
        data += [{"t": "self", "name": m.name, "as": self_as(cls, m)} for m in members]
    else:
        all_doc = []
        for m in members:
            try:
                all_doc.append(documented_name(m, cfg.get("style"), pymap))
            except ValueError:
                pass
        data = flag_list_candidates(cls, all_doc, dumps[:12], rng, 30)
        if not cfg["dups"]:
            data = [d for d in data if d["t"] not in ("list", "tuple", "mapping") or all(x.get("h", True) for x in d["v"])]
    data = dedup(data)
    if loader is not None:
        for d in data:
            obj = dec_val(d, cls)
            o, res = run_loader(loader, obj, cls, lambda r: r._value_ if isinstance(r, cls) else repr(r))
            real["loads"].append(o)
            c = dict(case0, datum=d)
            note(c, nontrivial="ok" in o, kind=f"flag-{kind}-" + ("accept" if "ok" in o else o.get("err", "escape")))
            if "esc" in o:
                fail(f"flag-{kind}:escape", f"{kind}: datum {obj!r} makes the loader of flag {spec['pairs']} "
                         f"({spec['kind']}, boundary {spec.get('boundary')}) raise {o['esc']} (not a LoadError); "
                         f"provider {cfg}", c)
                continue
            if kind == "exact":
                if d["t"] == "self":
                    exp = "skip" if has_mixin(cls) else None
                elif type(obj) is int and 0 <= obj <= mask:
                    try:
                        r = cls(obj)
                        exp = r._value_ if isinstance(r, cls) else None   # boundary=EJECT hands back an int
                    except ValueError:
                        exp = None
                else:
                    exp = None
            else:
                exp = "skip" if allowed_doc is None else flag_list_expected(cls, cfg, d, obj, allowed_doc)
            if exp == "skip":
                continue
            if exp is None and "ok" in o:
                fail(f"flag-{kind}:accepts-non-representation", f"{kind}: datum {obj!r} is not the representation "
                         f"of a value of {spec['pairs']} but loads as {o['ok']}; provider {cfg}", c)
            elif exp is not None and ("ok" not in o or res is not cls(exp)):
                fail(f"flag-{kind}:rejects-representation", f"{kind}: datum {obj!r} represents value {exp} of "
                         f"{spec['pairs']} but the loader answers {o}; provider {cfg}", c)
    real["_data"], real["_values"] = data, values
    ctx.sample({"suite": "flag-codec", "cls": spec, "provider": cfg, "dumps": real["dumps"][:4],
                "loads": list(zip(data[:3], real["loads"][:3]))}, every=131)
    if not with_model:
        return None, real
    if kind == "list" and cfg.get("style") and not all(is_ascii(m.name) for m in members):
        return None, real
    prov = {"kind": kind}
    if kind == "list":
        prov.update(style=cfg.get("style"), map=model_map(cls, pymap), single=cfg["single"], dups=cfg["dups"],
                    compound=cfg["compound"], strict_coercion=cfg["strict_coercion"])
    mcls = flag_model_class(cls, spec)
    req = {"op": "flag", "entries": mcls["entries"], "strict": mcls["strict"], "provider": prov, "data": data,
           "dump": [v._value_ for v in values]}
    return req, real


def compare_flag(rep, real):
    if "ok" not in rep:
        return f"model error {rep}"
    m = rep["ok"]
    if m["loader"] != real["loader"] or m["dumper"] != real["dumper"]:
        return f"creation: model {m['loader']}/{m['dumper']} real {real['loader']}/{real['dumper']}"
    if real["dumper"] == "ok" and m["dumps"] != real["dumps"]:
        for i, (a, b) in enumerate(zip(m["dumps"], real["dumps"])):
            if a != b:
                return f"dump #{i}: model {a} real {b}"
        return "dumps differ in length"
    if real["loader"] == "ok":
        ml = [canon_model_outcome(o) for o in m["loads"]]
        if ml != real["loads"]:
            for i, (a, b) in enumerate(zip(ml, real["loads"])):
                if a != b:
                    return f"load #{i}: model {a} real {b}"
            return "loads differ in length"
    return None


# ---------------------------------------------------------------------------
# generators
# ---------------------------------------------------------------------------

NAMES = ["A", "B", "C", "AB", "a", "b", "ab", "aB", "A_B", "a_b", "AB_C", "A1", "a1b", "A_1", "_A", "A_", "__A", "A__B",
         "a_B_c", "RED", "GREEN", "read_write", "X", "x", "CASE_ONE", "case_two", "ReadWrite", "x1_y2", "ONE", "one"]
ODD_NAMES = ["_", "__", "a-b", "x y", "é", "ß", "Ä_b", "straße_x", "ǆ_a"]
STR_VALUES = NAMES[:12] + ["", " ", "x", "1", "0", "True", "none", "a b", "é"]
MAPPED = ["x", "y", "A", "B", "a", "one", "", "a_b", "X-1", "é"]


def gen_names(rng, n):
    pool = list(NAMES)
    if rng.random() < 0.15:
        pool += ODD_NAMES
    rng.shuffle(pool)
    return pool[:n]


def gen_enum_value(rng, kind):
    if kind == "int":
        return d_int(rng.choice([0, 1, 2, 3, -1, 10, 2 ** 70]))
    if kind in ("str", "strenum"):
        return d_str(rng.choice(STR_VALUES))
    r = rng.random()
    if r < 0.3:
        return d_int(rng.choice([0, 1, 2, 3, -1, 10 ** 20]))
    if r < 0.4:
        return d_bool(rng.random() < 0.5)
    if r < 0.47:
        return d_float(rng.choice([0, 1, 2]))
    if r < 0.75:
        return d_str(rng.choice(STR_VALUES))
    if r < 0.8:
        return d_none()
    if r < 0.87:
        return d_tuple([rng.choice([d_int(1), d_bool(True), d_str("a"), d_int(2), d_float(1)])
                        for _ in range(rng.randint(0, 2))])
    if r < 0.95:
        return d_list([rng.choice([d_int(1), d_bool(True), d_str("a"), d_int(2), d_float(1)])
                       for _ in range(rng.randint(0, 2))])
    return d_opaque(rng.choice([0, 1, 3, 4]))


def gen_enum_spec(rng):
    for _ in range(50):
        kind = rng.choice(["enum", "enum", "enum", "int", "str", "strenum"])
        n = rng.randint(1, 6)
        names = gen_names(rng, n)
        pairs = [[nm, gen_enum_value(rng, kind)] for nm in names]
        if kind == "enum" and rng.random() < 0.75:
            # keep most plain classes hashable so that the value table path is exercised
            pairs = [[nm, v if v["t"] != "list" else d_tuple(v["v"])] for nm, v in pairs]
        spec = {"kind": kind, "pairs": pairs, "missing": None}
        if kind == "enum" and rng.random() < 0.25:
            keys = [rng.choice(JUNK[:16] + [d_str("a"), d_str("b"), d_int(7), d_tuple([d_int(1)])])
                    for _ in range(rng.randint(0, 3))]
            keys = [k for k in keys if k["t"] not in ("list", "mapping") and k.get("h", True)]
            spec["missing"] = [[k, rng.choice(names + ["NOPE"])] for k in keys]
        try:
            cls = build_enum(spec)
            enum_model_class(cls, spec)
        except (Unencodable, ValueError, TypeError, KeyError):
            continue
        return spec
    raise InfraError("cannot generate an enum class")


def gen_map(rng, member_names, entry_names):
    rows = []
    for _ in range(rng.randint(1, 4)):
        r = rng.random()
        if r < 0.45:
            key = {"k": "name", "v": rng.choice(member_names + entry_names + STR_VALUES[:6] + ["NOPE"])}
        elif r < 0.85:
            key = {"k": "member", "v": rng.choice(entry_names)}
        else:
            key = {"k": "foreign", "v": rng.randrange(len(FOREIGN))}
        rows.append([key, rng.choice(MAPPED + member_names)])
    return rows


def gen_name_cfg(rng, cls):
    member_names = [m.name for m in cls.__members__.values()]
    entry_names = list(cls.__members__)
    r = rng.random()
    cfg = {"style": None, "map": None}
    if r < 0.2:
        pass
    elif r < 0.55:
        cfg["style"] = rng.choice(STYLES)
    elif r < 0.85:
        cfg["map"] = gen_map(rng, member_names, entry_names)
    else:
        cfg["style"] = rng.choice(STYLES)
        cfg["map"] = gen_map(rng, member_names, entry_names)
    return cfg


def enum_cfgs(rng, spec, n_name):
    cls = build_enum(spec)
    dt = rng.choice([None, "DISABLE", "FIRST", "ALL"])
    cfgs = [{"kind": "exact", "explicit": rng.random() < 0.5, "debug_trail": "DISABLE"}]
    for tp in ("int", "str", "bool", "any"):
        cfgs.append({"kind": "value", "tp": tp, "debug_trail": dt})
    cfgs.append({"kind": "name", "style": None, "map": None, "debug_trail": dt})
    for _ in range(n_name):
        cfgs.append(dict(gen_name_cfg(rng, cls), kind="name", debug_trail=dt))
    return cfgs


def gen_flag_spec(rng):
    for _ in range(50):
        kind = rng.choice(["flag", "flag", "intflag"])
        boundary = rng.choice([None, None, None, "STRICT", "CONFORM", "EJECT", "KEEP"])
        n = rng.randint(1, 6)
        names = gen_names(rng, n)
        nbits = rng.randint(1, 4)
        if rng.random() < 0.12:
            positions = sorted(rng.sample(range(44, 72), nbits))      # beyond float precision of log2
        elif rng.random() < 0.25:
            positions = sorted(rng.sample(range(0, 7), nbits))        # may leave gaps
        else:
            positions = list(range(nbits))
        singles = [1 << p for p in positions]
        values = []
        for i in range(n):
            r = rng.random()
            if r < 0.5 and i < len(singles):
                values.append(singles[i])
            elif r < 0.6:
                values.append(0)
            elif r < 0.85:
                k = rng.randint(2, max(2, len(singles)))
                values.append(reduce(or_, rng.sample(singles, min(k, len(singles))), 0))
            elif r < 0.93 and values:
                values.append(rng.choice(values))                      # alias
            else:
                values.append(rng.choice(singles) | (1 << rng.choice(positions)) << rng.choice([0, 1]))
        order = list(range(n))
        if rng.random() < 0.4:
            rng.shuffle(order)
        pairs = [[names[i], values[order[i]]] for i in range(n)]
        spec = {"kind": kind, "boundary": boundary, "pairs": pairs}
        try:
            build_flag(spec)
        except (ValueError, TypeError):
            continue
        return spec
    raise InfraError("cannot generate a flag class")


def flag_cfgs(rng, spec, n_name):
    cls = build_flag(spec)
    dt = rng.choice([None, "DISABLE", "FIRST", "ALL"])
    cfgs = [{"kind": "exact", "explicit": rng.random() < 0.5, "debug_trail": dt}]
    name_cfgs = [{"style": None, "map": None}] + [gen_name_cfg(rng, cls) for _ in range(n_name)]
    for nc in name_cfgs:
        for single, dups, compound in itertools.product([False, True], repeat=3):
            cfgs.append(dict(nc, kind="list", single=single, dups=dups, compound=compound,
                             strict_coercion=rng.random() < 0.6, debug_trail=dt))
    return cfgs


FIXED_ENUMS = [
    {"kind": "enum", "pairs": [["V1", d_str("1")]], "missing": None},
    {"kind": "int", "pairs": [["V1", d_int(1)], ["V2", d_int(2)], ["ONE", d_int(1)]], "missing": None},
    {"kind": "str", "pairs": [["A", d_str("B")], ["B", d_str("A")]], "missing": None},
    {"kind": "strenum", "pairs": [["A", d_str("B")], ["B", d_str("A")], ["x", d_str("x")]], "missing": None},
    {"kind": "enum", "pairs": [["ONE", d_int(1)], ["T", d_bool(True)], ["ZERO", d_int(0)], ["L", d_list([d_int(1), d_int(2)])]],
     "missing": None},
    {"kind": "enum", "pairs": [["A", d_int(1)], ["B", d_int(2)]], "missing": [[d_str("a"), "A"], [d_int(7), "B"], [d_none(), "NOPE"]]},
    {"kind": "enum", "pairs": [["a", d_int(1)], ["A", d_int(2)], ["a_b", d_int(3)], ["ab", d_int(4)]], "missing": None},
]
FIXED_ENUM_CFGS = [
    {"kind": "name", "style": None, "map": [[{"k": "name", "v": "A"}, "x"]]},
    {"kind": "name", "style": "LOWER", "map": None},
    {"kind": "name", "style": None, "map": [[{"k": "foreign", "v": 2}, "x"], [{"k": "foreign", "v": 3}, "y"]]},
]
FIXED_FLAGS = [
    {"kind": "flag", "boundary": None, "pairs": [["CASE_ONE", 1], ["CASE_TWO", 2], ["CASE_THREE", 3], ["CASE_FOUR", 4], ["CASE_EIGHT", 8]]},
    {"kind": "flag", "boundary": None, "pairs": [["Z", 0], ["A", 1], ["B", 2], ["AB", 3], ["C", 4], ["AL", 1]]},
    {"kind": "flag", "boundary": None, "pairs": [["AB", 3], ["C", 4]]},
    {"kind": "intflag", "boundary": None, "pairs": [["AB", 3], ["C", 4]]},
    {"kind": "flag", "boundary": None, "pairs": [["A", 1], ["C", 4]]},
    {"kind": "flag", "boundary": None, "pairs": [["A", 1], ["BIG", 1 << 50], ["BOTH", (1 << 50) | 1]]},
    {"kind": "flag", "boundary": None, "pairs": [["WHITE", 7], ["R", 1], ["G", 2], ["B", 4]]},
    {"kind": "flag", "boundary": None, "pairs": [["Z", 0]]},
    {"kind": "intflag", "boundary": "STRICT", "pairs": [["A", 1], ["AB", 3], ["BC", 6]]},
]
NEGATIVE_FLAGS = [
    {"kind": "flag", "boundary": None, "pairs": [["CASE_ONE", -1]]},
    {"kind": "intflag", "boundary": None, "pairs": [["A", 1], ["B", -2]]},
]


# ---------------------------------------------------------------------------
# multi-bind: ONE representation provider bound to SEVERAL predicates, several classes on one shared retort
# ---------------------------------------------------------------------------
# group : {"suite": "multi-bind",
#          "classes":   [{"family": "enum"|"flag", "spec": <class spec>, "site": "top"|"field"}],
#          "providers": [{"family": "enum"|"flag", "cfg": <provider cfg; map keys {"k":"member","c":i,"v":attr}>,
#                         "preds": [{"form": "cls"|"P"|"Ptuple"|"str"|"re"|"Ppath", "cs": [class index, ...]}]}],
#          "strict_coercion": bool, "debug_trail": ..., "order": <name>, "plan": [[class index, "loader"|"dumper"]]}
# Class i is requested either at top level (retort.get_loader(cls_i)) or as the only field `f<i>` of a dataclass
# `H<i>` (retort.get_loader(H_i); data wrapped as {"f<i>": datum}) - the place where str / regex / P[H].f predicates
# apply.  The property (documentation of `preds`: "the provider will be applied if any predicates meet the
# conditions"): class i has the provider's representation iff one of the predicates matches its request site - for
# loader AND dumper, whatever was requested from the retort before.

PRED_FORMS = ["cls", "cls", "cls", "P", "P", "str", "re", "Ppath"]
ORDERS = ["loaders-first", "dumpers-first", "class-loader-dumper", "class-dumper-loader", "shuffled"]


def pred_matches(pred, i, site):
    """independent statement of the predicate system for the forms used here"""
    if i not in pred["cs"]:
        return False
    if pred["form"] in ("cls", "P", "Ptuple"):
        return True                      # the type of the location, wherever it is
    return site == "field"               # a field name / a path ending in the field: only where there is a field


def gen_multi_name_cfg(rng, classes, members_of):
    all_names = sorted({n for ms in members_of for n in ms})
    cfg = {"style": None, "map": None}
    r = rng.random()
    if r < 0.15:
        return cfg
    if r < 0.6 or r >= 0.85:
        cfg["style"] = rng.choice(STYLES)
    if r >= 0.6:
        rows = []
        for _ in range(rng.randint(1, 5)):
            q = rng.random()
            if q < 0.45:
                key = {"k": "name", "v": rng.choice(all_names + ["NOPE"])}
            elif q < 0.9:
                ci = rng.randrange(len(classes))
                key = {"k": "member", "c": ci, "v": rng.choice(members_of[ci])}
            else:
                key = {"k": "foreign", "v": rng.randrange(len(FOREIGN))}
            rows.append([key, rng.choice(MAPPED + all_names[:4])])
        cfg["map"] = rows
    return cfg


def gen_group(rng, enum_specs, flag_specs):
    main = rng.choice(["enum", "flag"])
    pool = {"enum": enum_specs, "flag": [s for s in flag_specs if all(int(v) >= 0 for _n, v in s["pairs"])]}
    other = "flag" if main == "enum" else "enum"
    k = rng.choice([2, 2, 3, 3, 4])
    classes = [{"family": main, "spec": rng.choice(pool[main])} for _ in range(k)]
    if rng.random() < 0.3:
        classes.insert(rng.randrange(len(classes) + 1), {"family": other, "spec": rng.choice(pool[other])})
    for c in classes:
        c["site"] = "field" if rng.random() < 0.35 else "top"
    built = [(build_enum if c["family"] == "enum" else build_flag)(c["spec"]) for c in classes]
    members_of = [list(b.__members__) for b in built]
    n = len(classes)
    providers = []
    for pi in range(1 if rng.random() < 0.7 else 2):
        fam = main if pi == 0 or rng.random() < 0.7 else other
        if fam == "enum":
            r = rng.random()
            if r < 0.12:
                cfg = {"kind": "exact", "explicit": True}
            elif r < 0.3:
                cfg = {"kind": "value", "tp": rng.choice(["int", "str", "bool", "any"])}
            else:
                cfg = dict(gen_multi_name_cfg(rng, classes, members_of), kind="name")
        else:
            if rng.random() < 0.15:
                cfg = {"kind": "exact", "explicit": True}
            else:
                cfg = dict(gen_multi_name_cfg(rng, classes, members_of), kind="list", single=rng.random() < 0.5,
                           dups=rng.random() < 0.5, compound=rng.random() < 0.6)
        # predicates: at least two, every one names a class of the group; a class may be named more than once
        chosen = [i for i in range(n) if rng.random() < 0.75]
        while len(chosen) < 2:
            chosen.append(rng.randrange(n))
        rng.shuffle(chosen)
        preds = []
        for i in chosen:
            form = rng.choice(PRED_FORMS)
            if form == "P" and preds and preds[-1]["form"] == "P" and rng.random() < 0.5:
                preds[-1] = {"form": "Ptuple", "cs": preds[-1]["cs"] + [i]}      # P[A, B]: one predicate, two classes
            else:
                preds.append({"form": form, "cs": [i]})
        if len(preds) < 2:
            preds.append({"form": rng.choice(PRED_FORMS), "cs": [rng.randrange(n)]})
        providers.append({"family": fam, "cfg": cfg, "preds": preds})
    order = rng.choice(ORDERS)
    perm = list(range(n))
    rng.shuffle(perm)
    if order == "loaders-first":
        plan = [[i, "loader"] for i in perm] + [[i, "dumper"] for i in perm]
    elif order == "dumpers-first":
        plan = [[i, "dumper"] for i in perm] + [[i, "loader"] for i in perm]
    elif order == "class-loader-dumper":
        plan = [[i, d] for i in perm for d in ("loader", "dumper")]
    elif order == "class-dumper-loader":
        plan = [[i, d] for i in perm for d in ("dumper", "loader")]
    else:
        plan = [[i, d] for i in perm for d in ("loader", "dumper")]
        rng.shuffle(plan)
    return {"suite": "multi-bind", "classes": classes, "providers": providers,
            # enum_by_value is modelled (and judged by the oracle) under strict coercion only
            "strict_coercion": (rng.random() < 0.6) or main == "enum" or any(p["cfg"]["kind"] == "value"
                                                                             for p in providers),
            "debug_trail": rng.choice([None, "DISABLE", "FIRST", "ALL"]), "order": order, "plan": plan}


def unwrap_exc(e):
    """debug_trail=ALL wraps the field's error into an exception group of the model"""
    while getattr(e, "exceptions", None) and len(e.exceptions) == 1:
        e = e.exceptions[0]
    return e


def site_codec(retort, site, cls, holder, fname, direction):
    """the loader / dumper of the class as requested at its site (may raise like get_loader / get_dumper)"""
    if site == "top":
        return retort.get_loader(cls) if direction == "loader" else retort.get_dumper(cls)
    if direction == "loader":
        hl = retort.get_loader(holder)

        def field_loader(data):
            try:
                return getattr(hl({fname: data}), fname)
            except Exception as e:  # noqa: BLE001
                raise unwrap_exc(e) from None
        return field_loader
    hd = retort.get_dumper(holder)

    def field_dumper(value):
        try:
            return hd(holder(value))[fname]
        except Exception as e:  # noqa: BLE001
            raise unwrap_exc(e) from None
    return field_dumper


def multi_pymap(built, map_spec):
    if map_spec is None:
        return None
    out = {}
    for key, mapped in map_spec:
        if key["k"] == "name":
            out[key["v"]] = mapped
        elif key["k"] == "member":
            out[built[key["c"]].__members__[key["v"]]] = mapped
        else:
            out[FOREIGN[key["v"]]] = mapped
    return out


def make_bound_provider(cfg, pymap, preds):
    """the facade call a user writes: the representation provider with the predicates as positional arguments"""
    from typing import Any

    from adaptix import (
        NameStyle,
        enum_by_exact_value,
        enum_by_name,
        enum_by_value,
        flag_by_exact_value,
        flag_by_member_names,
    )
    style = NameStyle[cfg["style"]] if cfg.get("style") else None
    k = cfg["kind"]
    if "single" in cfg:
        return flag_by_member_names(*preds, allow_single_value=cfg["single"], allow_duplicates=cfg["dups"],
                                    allow_compound=cfg["compound"], name_style=style, map=pymap)
    if k == "name":
        return enum_by_name(*preds, name_style=style, map=pymap)
    if k == "value":
        return enum_by_value(*preds, tp={"int": int, "str": str, "bool": bool, "any": Any}[cfg["tp"]])
    if cfg["family"] == "enum":
        return enum_by_exact_value(*preds)
    return flag_by_exact_value(*preds)


def real_pred(pred, built, holders):
    from adaptix import P
    i = pred["cs"][0]
    form = pred["form"]
    if form == "cls":
        return built[i]
    if form == "P":
        return P[built[i]]
    if form == "Ptuple":
        return P[tuple(built[j] for j in pred["cs"])]
    if form == "str":
        return f"f{i}"
    if form == "re":
        return f"f{i}$"                   # not an identifier: compiled as a regular expression for the field name
    return getattr(P[holders[i]], f"f{i}")


def py_select(group, i):
    """independent reading of the documentation: the first provider of the recipe that is for this family of classes
    (enum providers are for Enum classes that are not flags, flag providers for Flag classes) and one of whose
    predicates matches the request site; None = the built-in representation (exact value).  Whether the provider can
    then build the loader is not part of the choice (the refusal of flag_by_exact_value for a class with skipped bits
    is final: the built-in provider would refuse as well)"""
    c = group["classes"][i]
    for pi, p in enumerate(group["providers"]):
        if p["family"] == c["family"] and any(pred_matches(pr, i, c["site"]) for pr in p["preds"]):
            return pi
    return None


def bind_request(group):
    """the group as the Lean op `bind` sees it"""
    classes = [{"family": c["family"]} for c in group["classes"]]
    provs = [{"family": p["family"], "kind": p["cfg"]["kind"], "preds": p["preds"]} for p in group["providers"]]
    return {"op": "bind", "classes": classes, "providers": provs,
            "history": [{"cls": i, "field": group["classes"][i]["site"] == "field", "dir": d} for i, d in group["plan"]]}


def fingerprint(family, cls, loader, dumper, data, values):
    """observable behaviour of one (loader, dumper) pair on fixed data / members"""
    ok_of = (lambda r: r.name if isinstance(r, cls) else repr(r)) if family == "enum" else \
        (lambda r: r._value_ if isinstance(r, cls) else repr(r))
    loads = dumps = None
    if loader[1] is not None:
        loads = [run_loader(loader[1], dec_val(d, cls), cls, ok_of)[0] for d in data]
    if dumper[1] is not None:
        dumps = []
        for v in values:
            try:
                dumps.append(repr(dumper[1](v)))
            except Exception as e:  # noqa: BLE001
                dumps.append({"esc": type(e).__name__})
    return {"loader": [loader[0], loads], "dumper": [dumper[0], dumps]}


def eval_group(ctx: Ctx, group, rng=None, with_model=True, model_sel=None):
    """one shared retort, every class of the group: the whole single-class oracle (and model request) on the loaders /
    dumpers obtained in the order of the plan + 'same behaviour as the provider bound to this class alone'.
    Returns (jobs for the representation model, (compared, disagreements) of the bind-select correspondence)"""
    import dataclasses

    from adaptix import DebugTrail, Retort
    rng = rng or ctx.rng
    classes = group["classes"]
    built = [(build_enum if c["family"] == "enum" else build_flag)(c["spec"]) for c in classes]
    holders = [dataclasses.make_dataclass(f"H{i}", [(f"f{i}", b)]) for i, b in enumerate(built)]
    pymaps = [multi_pymap(built, p["cfg"].get("map")) for p in group["providers"]]
    kw = {"debug_trail": DebugTrail[group["debug_trail"]]} if group["debug_trail"] is not None else {}

    def retort_of(recipe):
        return Retort(strict_coercion=group["strict_coercion"], recipe=recipe, **kw)

    shared = retort_of([make_bound_provider(dict(p["cfg"], family=p["family"]), pymaps[pi],
                                            [real_pred(pr, built, holders) for pr in p["preds"]])
                        for pi, p in enumerate(group["providers"])])
    got = {}
    for i, direction in group["plan"]:
        got[i, direction] = canon_create(
            lambda: site_codec(shared, classes[i]["site"], built[i], holders[i], f"f{i}", direction))
    ctx.dist["multi:groups"] += 1
    ctx.dist[f"multi:order={group['order']}"] += 1
    for p in group["providers"]:
        ctx.dist[f"multi:provider={p['family']}-{p['cfg']['kind']}:preds={len(p['preds'])}"] += 1
        for pr in p["preds"]:
            ctx.dist[f"multi:pred-form={pr['form']}"] += 1
    jobs, compared, disagreements = [], 0, 0
    refs = {}

    def reference(i, sel):
        """the class alone: a fresh retort whose recipe is the selected provider bound to this one class (the
        single-predicate path of bound_by_any), or nothing at all"""
        if (i, sel) not in refs:
            recipe = []
            if sel is not None:
                p = group["providers"][sel]
                recipe = [make_bound_provider(dict(p["cfg"], family=p["family"]), pymaps[sel], [built[i]])]
            r = retort_of(recipe)
            refs[i, sel] = {d: canon_create(lambda: site_codec(r, classes[i]["site"], built[i], holders[i], f"f{i}", d))
                            for d in ("loader", "dumper")}
        return refs[i, sel]

    for i, c in enumerate(classes):
        sel = {d: py_select(group, i) for d in ("loader", "dumper")}
        case0 = {"suite": "multi-bind", "group": group, "target": i}
        first = [d for j, d in group["plan"] if j == i][0]
        ctx.dist[f"multi:class-site={c['site']}"] += 1
        ctx.dist["multi:class-" + ("unbound" if sel["dumper"] is None else "bound")] += 1
        ctx.dist[f"multi:first-request={first}"] += 1
        where = (f"[multi-bind: class #{i} of a group of {len(classes)} on one shared retort, requested at "
                 f"{c['site']} site, {first} first, order {group['order']}, providers "
                 f"{[(p['cfg']['kind'], [(pr['form'], pr['cs']) for pr in p['preds']]) for p in group['providers']]}] ")
        if sel["dumper"] is None:
            cfg = {"kind": "exact", "explicit": False}
        else:
            cfg = dict(group["providers"][sel["dumper"]]["cfg"])
        if "single" in cfg:
            cfg["strict_coercion"] = group["strict_coercion"]
        env = {"cls": built[i], "case0": case0, "where": where,
               "pymap": pymaps[sel["dumper"]] if sel["dumper"] is not None else None,
               "loader": got[i, "loader"], "dumper": got[i, "dumper"]}
        ev = eval_enum if c["family"] == "enum" else eval_flag
        req, real = ev(ctx, c["spec"], cfg, rng, with_model, env)
        if req is not None:
            jobs.append(("multi-" + c["family"] + "-codec", case0, cfg, req, real))
        data, values = real.get("_data", []), real.get("_values", [])
        shared_fp = fingerprint(c["family"], built[i], got[i, "loader"], got[i, "dumper"], data, values)
        # direct oracle: same behaviour as the provider bound to this class alone
        for d in ("loader", "dumper"):
            ref = reference(i, sel[d])
            ref_fp = fingerprint(c["family"], built[i], ref["loader"], ref["dumper"], data, values)
            ctx.note_case(dict(case0, direction=d), nontrivial=sel[d] is not None, kind=f"multi:same-as-single-{d}")
            if ref_fp[d] != shared_fp[d]:
                what = "provider #%s bound to this class alone" % sel[d] if sel[d] is not None else \
                    "built-in representation (no predicate matches)"
                diff = first_difference(shared_fp[d], ref_fp[d], data if d == "loader" else values)
                ctx.fail(f"multi-bind:{c['family']}:{d}-differs-from-single-predicate-provider",
                         where + f"the {d} of class {c['spec']['pairs']} does not behave like the {what}: {diff}",
                         dict(case0, direction=d))
            # bind-select correspondence: the provider the Lean model of bound_by_any / the recipe search selects
            if model_sel is not None:
                msel = model_sel[i, d]
                compared += 1
                mref = reference(i, msel)
                m_fp = ref_fp if msel == sel[d] else fingerprint(c["family"], built[i], mref["loader"], mref["dumper"],
                                                                data, values)
                if m_fp[d] != shared_fp[d]:
                    disagreements += 1
                    ctx.disagree("bind-select", dict(case0, direction=d),
                                 first_difference(shared_fp[d], m_fp[d], data if d == "loader" else values),
                                 f"model selects provider {msel}")
    return jobs, (compared, disagreements)


def first_difference(shared, ref, items):
    if shared[0] != ref[0]:
        return f"creation on the shared retort: {shared[0]}, reference: {ref[0]}"
    for x, a, b in zip(items, shared[1] or [], ref[1] or []):
        if a != b:
            return f"on {x!r} the shared retort gives {a}, the reference {b}"
    return "results differ"


def model_selection(group, reply):
    """reply of op `bind`: selected provider index (or null) per request of the plan"""
    if "ok" not in reply:
        raise InfraError(f"bind op failed: {reply}")
    return {(i, d): sel for (i, d), sel in zip(map(tuple, group["plan"]), reply["ok"])}


# ---------------------------------------------------------------------------
# structure suites
# ---------------------------------------------------------------------------

def flag_struct_case(spec):
    cls = build_flag(spec)
    members = [[n, m.name, m._value_] for n, m in cls.__members__.items()]
    mask = reduce(or_, (m._value_ for m in cls.__members__.values()), 0)
    from adaptix._internal.morphing import enum_provider as ep
    try:
        non_compound = [m.name for m in ep._extract_non_compound_cases_from_flag(cls)]
    except Exception as e:  # noqa: BLE001
        non_compound = f"raises {type(e).__name__}"
    gaps = (2 ** mask.bit_length() - 1) != mask
    vals = sorted(set(range(0, min(mask, 40) + 1)) | {mask}) if not gaps else []
    calls = []
    for v in vals:
        try:
            calls.append(cls(v)._value_)
        except ValueError:
            calls.append(None)
    real = {"members": members, "mask": mask, "non_compound": non_compound, "calls": calls}
    mcls = flag_model_class(cls, spec)
    req = {"op": "flag_members", "entries": mcls["entries"], "strict": mcls["strict"], "values": vals}
    return req, real


def enum_alias_case(spec):
    cls = build_enum(spec)
    pairs, real = [], []
    for (n, vd), (n2, m) in zip(spec["pairs"], cls.__members__.items()):
        assert n == n2
        pairs.append([n, enc_val(dec_val(vd)) if spec["kind"] == "enum" else enc_val(m.value)])
        real.append(None if m.name == n else m.name)
    return {"op": "enum_aliases", "pairs": pairs}, real


def gen_style_names(rng, n):
    alphabet = "abAB_1xY"
    out = ["_", "__", "a", "A", "a_b", "aB_cD", "_a__b_", "a1b2_c3", "ABC_DEF", "a-b", "", "a b", "x__", "__x"]
    for _ in range(n):
        out.append("".join(rng.choice(alphabet) for _ in range(rng.randint(1, 9))))
    return out


def style_self_examples(ctx: Ctx):
    """every NameStyle value is its own example: converting its snake form must give it back"""
    from adaptix import NameStyle
    from adaptix._internal.name_style import convert_snake_style
    for st in NameStyle:
        words = [w.lower() for w in re.findall(r"[A-Z]+(?![a-z])|[A-Z]?[a-z]+", st.value)]
        snake = "_".join(words)
        ctx.note_case({"suite": "name-style", "style": st.name}, nontrivial=True, kind="style-self-example")
        try:
            got = convert_snake_style(snake, st)
        except Exception as e:  # noqa: BLE001
            got = f"raises {type(e).__name__}"
        if got != st.value:
            ctx.fail("name-style:self-example", f"convert_snake_style({snake!r}, NameStyle.{st.name}) gives {got!r}, "
                     f"the style documents itself as {st.value!r}", {"suite": "name-style", "style": st.name, "name": snake})


def suite_structure(ctx: Ctx, drv, enum_specs, flag_specs):
    from adaptix import NameStyle
    from adaptix._internal.name_style import convert_snake_style
    style_self_examples(ctx)
    reqs, reals, metas = [], [], []
    for spec in flag_specs:
        if any(int(v) < 0 for _n, v in spec["pairs"]):
            continue
        rq, rl = flag_struct_case(spec)
        reqs.append(rq), reals.append(rl), metas.append(("flag-struct", spec))
    for spec in enum_specs:
        rq, rl = enum_alias_case(spec)
        reqs.append(rq), reals.append(rl), metas.append(("enum-aliases", spec))
    for st in STYLES:
        names = gen_style_names(ctx.rng, ctx.budget(25, 400))
        real = []
        for n in names:
            try:
                real.append(convert_snake_style(n, NameStyle[st]))
            except ValueError:
                real.append(None)
        reqs.append({"op": "style", "style": st, "names": names}), reals.append(real), metas.append(("name-style", st))
    if drv is None:
        return
    counts = {}
    for (suite, what), rep, real in zip(metas, drv.batch(reqs), reals):
        c = counts.setdefault(suite, [0, 0])
        c[0] += len(real) if suite == "name-style" else 1
        ctx.note_case({"suite": suite, "what": what}, nontrivial=True, kind=suite)
        if rep.get("ok") != real:
            c[1] += 1
            ctx.disagree(suite, {"suite": suite, "what": what}, real, rep)
    for suite, (n, d) in counts.items():
        ctx.suite(suite, n, d)


# ---------------------------------------------------------------------------
# run / search / replay
# ---------------------------------------------------------------------------

def collect(ctx: Ctx, with_model: bool, n_enum: int, n_flag: int, n_name: int, n_groups: int = 0, drv=None):
    """evaluates the real library (with the direct oracle) and returns the model requests"""
    rng = ctx.rng
    jobs = []
    enum_specs = list(FIXED_ENUMS) + [gen_enum_spec(rng) for _ in range(n_enum)]
    flag_specs = list(FIXED_FLAGS) + [gen_flag_spec(rng) for _ in range(n_flag)]
    for i, spec in enumerate(enum_specs):
        cfgs = enum_cfgs(rng, spec, n_name)
        if i < len(FIXED_ENUMS):
            cfgs += [dict(c, debug_trail=None) for c in FIXED_ENUM_CFGS]
        for cfg in cfgs:
            req, real = eval_enum(ctx, spec, cfg, rng, with_model)
            if req is not None:
                jobs.append(("enum-codec", spec, cfg, req, real))
    for spec in flag_specs:
        for cfg in flag_cfgs(rng, spec, n_name):
            req, real = eval_flag(ctx, spec, cfg, rng, with_model)
            if req is not None:
                jobs.append(("flag-codec", spec, cfg, req, real))
    for spec in NEGATIVE_FLAGS:
        for cfg in flag_cfgs(rng, spec, 0)[:2]:
            eval_flag(ctx, spec, cfg, rng, False)
    # providers bound to several predicates, several classes of the population above on one shared retort
    groups = [gen_group(rng, enum_specs, flag_specs) for _ in range(n_groups)]
    sels = [None] * len(groups)
    if drv is not None and groups:
        sels = [model_selection(g, rep) for g, rep in zip(groups, drv.batch([bind_request(g) for g in groups]))]
    compared = disagreements = 0
    for g, sel in zip(groups, sels):
        gjobs, (n, d) = eval_group(ctx, g, rng, with_model, sel)
        jobs += gjobs
        compared, disagreements = compared + n, disagreements + d
    if drv is not None and groups:
        ctx.suite("bind-select", compared, disagreements)
    return jobs, enum_specs, flag_specs


N_GROUPS_QUICK, N_GROUPS_THOROUGH = 260, 3000


def run(ctx: Ctx):
    drv = None
    if ctx.driver_ok:
        try:
            drv = Driver("drv_c18")
        except InfraError:
            drv = None
    jobs, enum_specs, flag_specs = collect(ctx, drv is not None, ctx.budget(140, 1800), ctx.budget(140, 1800),
                                           ctx.budget(3, 4), ctx.budget(N_GROUPS_QUICK, N_GROUPS_THOROUGH), drv)
    if drv is not None:
        replies = drv.batch([j[3] for j in jobs])
        counts = {"enum-codec": [0, 0], "flag-codec": [0, 0], "multi-enum-codec": [0, 0], "multi-flag-codec": [0, 0]}
        for (suite, spec, cfg, req, real), rep in zip(jobs, replies):
            diff = (compare_enum if "enum" in suite else compare_flag)(rep, real)
            counts[suite][0] += len(req["data"]) + len(req["dump"]) + 2
            if diff is not None:
                counts[suite][1] += 1
                case = spec if suite.startswith("multi-") else {"suite": suite, "cls": spec, "provider": cfg}
                ctx.disagree(suite, case, diff, "see 'real' for the first difference")
        for suite, (n, d) in counts.items():
            ctx.suite(suite, n, d)
    suite_structure(ctx, drv, enum_specs, flag_specs)
    ctx.extra["exhaustive"] = False
    ctx.extra["exhaustive_part"] = ("per flag class: all unions of subsets of the distinct named members when there are "
                                    "at most 6 of them (every generated class), all 8 switch combinations of "
                                    "flag_by_member_names; per enum class: all members; per multi-bind group: every "
                                    "class of the group, loader and dumper")


def search(ctx: Ctx):
    """after a broken tie: re-run the oracle on the disagreeing configurations, then a larger random budget"""
    for d in ctx.disagreements[:100]:
        c = d["case"]
        if c.get("suite") == "enum-codec":
            eval_enum(ctx, c["cls"], c["provider"], ctx.rng, False)
        elif c.get("suite") == "flag-codec":
            eval_flag(ctx, c["cls"], c["provider"], ctx.rng, False)
        elif c.get("suite") == "multi-bind":
            eval_group(ctx, c["group"], ctx.rng, False)
    if not ctx.failures:
        collect(ctx, False, 250, 250, 3, 400)
        style_self_examples(ctx)


def replay(ctx: Ctx, case) -> bool:
    before = len(ctx.failures)
    suite = case.get("suite")
    if suite == "enum-codec":
        eval_enum(ctx, case["cls"], case["provider"], ctx.rng, False)
    elif suite == "flag-codec":
        eval_flag(ctx, case["cls"], case["provider"], ctx.rng, False)
    elif suite == "multi-bind":
        eval_group(ctx, case["group"], ctx.rng, False)
    elif suite == "name-style":
        style_self_examples(ctx)
    else:
        return False
    return len(ctx.failures) > before
