"""C09, retort histories: 'a retort placed in a recipe serves matched requests from its OWN recipe and options; extend()
prepends, replace() changes only scalar options' over multi-step histories of the operations

    new      Retort(recipe=[...], strict_coercion=s)           (recipe entries: loader(pred, f[, Chain.FIRST/LAST]) and
    extend   R.extend(recipe=[...])                             earlier retorts, plain or bound(pred, retort))
    replace  R.replace(strict_coercion=s)
    use      R.load(...) for one request type (served directly or through the retorts nested in R's recipe)

in every order: in particular a retort is derived (extend / replace) AFTER it, or the retort it was derived from, has
been placed in the recipe of another retort and served requests through it, and the derived retort is then nested again.

The expected outcome of every `use` is computed here from the RECIPES ALONE (a retort = its own instance recipe +
strict_coercion + the builtin class recipe; nothing of what happened before matters):
  * a plain entry matches by its predicate;
  * a nested retort (plain: always; bound(pred, .): where pred matches) answers with the outcome of its own recipe for the
    request and declines when its own recipe has nothing;
  * the builtin recipe behind the instance recipe loads `int` by the strict_coercion of the retort that OWNS that recipe;
  * chaining composes with the next matching provider (py_spec_send of c09.py).
The same retort trees are evaluated by the Lean model (`serve_tree`: `flat` / `serveTree`, Router.lean) - correspondence
`facade-history`.
"""

from abc import ABC, abstractmethod
from dataclasses import dataclass

OPT_STRICT, OPT_LAX = 1000, 1001

# predicates of user entries / of bound(): name -> kind for the model ("exact" origins are combined by the router)
PLAIN_PREDS = ["A", "B", "int", "Base", "M.a", "name_b", "name_n"]
BOUND_PREDS = [None, None, None, "M", "A", "Base", "int"]
REQUESTS = [("A", None), ("B", None), ("I", None)]


def sat(pname, origin, field):
    """does predicate `pname` match a request whose last location has type `origin` and (for a field) name `field`"""
    if pname is None:
        return True
    if pname == "A":
        return origin == "A"
    if pname == "B":
        return origin == "B"
    if pname == "int":
        return origin == "I"
    if pname == "M":
        return origin == "M"
    if pname == "Base":
        return origin in ("A", "B")
    if pname == "M.a":
        return field == "a"
    if pname == "name_b":
        return field == "b"
    if pname == "name_n":
        return field == "n"
    raise KeyError(pname)


class Universe:
    def __init__(self):
        from adaptix import P

        class Base(ABC):
            @abstractmethod
            def tag(self):
                ...

        class A(Base):
            def tag(self):
                return "a"

        class B(Base):
            def tag(self):
                return "b"

        @dataclass
        class M:
            a: A
            b: B
            n: int

        self.A, self.B, self.M, self.Base = A, B, M, Base
        self.hint = {"A": A, "B": B, "I": int, "M": M}
        self.pred = {"A": A, "B": B, "int": int, "Base": Base, "M": M, "M.a": P[M].a, "name_b": "b", "name_n": "n"}


# ---------------------------------------------------------------------------
# histories (abstract) and their meaning from the recipes alone
# ---------------------------------------------------------------------------

def gen_entries(rng, n_retorts, next_id, max_len=3, nest_p=0.45, prefer=()):
    out = []
    for _ in range(rng.randint(0, max_len)):
        if n_retorts and rng.random() < nest_p:
            ref = rng.choice(list(prefer)) if prefer and rng.random() < 0.6 else rng.randrange(n_retorts)
            out.append({"e": "retort", "bound": rng.choice(BOUND_PREDS), "ref": ref})
        else:
            r = rng.random()
            out.append({"e": "plain", "pred": rng.choice(PLAIN_PREDS),
                        "chain": None if r < 0.4 else ("first" if r < 0.7 else "last"), "id": next_id[0]})
            next_id[0] += 1
    return out


def gen_history(rng, max_ops=9):
    """ops over a growing list of retorts; `use` ops are interleaved so that derivations happen after nesting + use.
    Biased towards the long chains: derive from a retort that is already placed in a recipe (and was requested through
    it), place derived retorts into new recipes."""
    ops, n, next_id = [], 0, [0]
    placed, derived = [], []          # retorts already nested somewhere / made by extend, replace
    for _ in range(rng.randint(3, max_ops)):
        r = rng.random()
        if n == 0 or r < 0.3:
            rec = gen_entries(rng, n, next_id, prefer=derived)
            ops.append({"op": "new", "recipe": rec, "strict": rng.random() < 0.5})
            placed += [e["ref"] for e in rec if e["e"] == "retort"]
            if any(e["e"] == "retort" for e in rec) and rng.random() < 0.6:
                ops.append({"op": "use", "src": n, "load": rng.choice(["A", "B", "I", "M"])})
            n += 1
        elif r < 0.62:
            src = rng.choice(placed) if placed and rng.random() < 0.6 else rng.randrange(n)
            if r < 0.5:
                rec = gen_entries(rng, n, next_id, max_len=2, nest_p=0.25)
                ops.append({"op": "extend", "src": src, "recipe": rec})
                placed += [e["ref"] for e in rec if e["e"] == "retort"]
            else:
                ops.append({"op": "replace", "src": src, "strict": rng.random() < 0.5})
            derived.append(n)
            n += 1
        else:
            ops.append({"op": "use", "src": rng.randrange(n), "load": rng.choice(["A", "B", "I", "M"])})
    return ops


def directed_histories():
    """the shortest histories of every shape 'derive after the source was nested and used, then nest the derived retort'"""
    out = []
    for first_use in ("A", "I", "M"):
        for bound_ in (None, "M", "A"):
            for chain in (None, "first", "last"):
                for derive in ("extend", "replace"):
                    ops = [
                        {"op": "new", "recipe": [{"e": "plain", "pred": "A", "chain": None, "id": 0},
                                                 {"e": "plain", "pred": "int", "chain": "last", "id": 1}], "strict": True},
                        {"op": "new", "recipe": [{"e": "retort", "bound": None, "ref": 0}], "strict": True},
                        {"op": "use", "src": 1, "load": first_use},
                    ]
                    if derive == "extend":
                        ops.append({"op": "extend", "src": 0, "recipe": [{"e": "plain", "pred": "Base", "chain": chain, "id": 2}]})
                    else:
                        ops.append({"op": "replace", "src": 0, "strict": False})
                    ops.append({"op": "new", "recipe": [{"e": "retort", "bound": bound_, "ref": 2}], "strict": True})
                    out.append(ops)
    return out


def retort_values(ops):
    """the retorts a history creates, as values: instance recipe (nested retorts by index of an EARLIER retort) + option"""
    vals = []
    for op in ops:
        if op["op"] == "new":
            vals.append({"recipe": list(op["recipe"]), "strict": op["strict"]})
        elif op["op"] == "extend":                       # extend() prepends, keeps the options
            src = vals[op["src"]]
            vals.append({"recipe": list(op["recipe"]) + list(src["recipe"]), "strict": src["strict"]})
        elif op["op"] == "replace":                      # replace() changes only the scalar option
            src = vals[op["src"]]
            vals.append({"recipe": list(src["recipe"]), "strict": op["strict"]})
    return vals


def spec_handlers(vals, idx, origin, field, spec_send):
    """the handlers matching the request in retort #idx, in recipe order (instance recipe, then the builtin class recipe)"""
    hs = []
    for e in vals[idx]["recipe"]:
        if e["e"] == "plain":
            if sat(e["pred"], origin, field):
                hs.append({"h": "respond", "w": [e["id"]]} if e["chain"] is None else {"h": f"chain_{e['chain']}", "f": e["id"]})
        elif sat(e["bound"], origin, field):
            inner = spec_send(spec_handlers(vals, e["ref"], origin, field, spec_send))
            hs.append({"h": "respond", "w": inner["w"]} if inner["r"] == "ok" else {"h": "decline"})
    if origin == "I":
        hs.append({"h": "respond", "w": [OPT_STRICT if vals[idx]["strict"] else OPT_LAX]})
    return hs


def model_owner(vals, idx):
    """the retort whose builtin recipe builds the loader of the model M requested from retort #idx: no user entry matches M,
    so the first nested retort that is asked (plain, or bound to M) serves it - by the same rule - from ITS recipe"""
    for e in vals[idx]["recipe"]:
        if e["e"] == "retort" and e["bound"] in (None, "M"):
            return model_owner(vals, e["ref"])
    return idx


def tree_json(vals, idx):
    """retort #idx as a self-contained tree for the Lean model (`serve_tree`)"""
    def checker(pname):
        exact = {"A": 0, "B": 1, "int": 2, "M": 3}
        other = {None: 0, "Base": 1, "M.a": 2, "name_b": 3, "name_n": 4}
        return {"k": "exact", "o": exact[pname]} if pname in exact else {"k": "other", "id": other[pname]}
    rec = []
    for e in vals[idx]["recipe"]:
        if e["e"] == "plain":
            h = {"h": "respond", "w": [e["id"]]} if e["chain"] is None else {"h": f"chain_{e['chain']}", "f": e["id"]}
            rec.append({"p": "plain", "c": checker(e["pred"]), "h": h})
        else:
            rec.append(dict(tree_json(vals, e["ref"]), p="nested", c=checker(e["bound"])))
    # the builtin class recipe: the int loader reads the owning retort's option
    rec.append({"p": "builtin", "c": checker("int")})
    return {"opt": 0 if vals[idx]["strict"] else 1, "recipe": rec}


def model_req(origin, field):
    o = {"A": 0, "B": 1, "I": 2, "M": 3}[origin]
    s = [0]
    if origin in ("A", "B"):
        s.append(1)
    s += {"a": [2], "b": [3], "n": [4], None: []}[field]
    return {"origin": o, "sat": s}


# ---------------------------------------------------------------------------
# real side
# ---------------------------------------------------------------------------

class RealHistory:
    def __init__(self, uni: Universe):
        from adaptix import Chain, Retort, bound, loader
        self.uni, self.Chain, self.Retort, self.bound, self.loader = uni, Chain, Retort, bound, loader
        self.retorts = []
        self.log = []

    def _fn(self, i):
        def f(data):
            self.log.append(i)
            return data + [i] if isinstance(data, list) else data
        return f

    def _build(self, entries):
        rec = []
        for e in entries:
            if e["e"] == "plain":
                ch = {None: None, "first": self.Chain.FIRST, "last": self.Chain.LAST}[e["chain"]]
                rec.append(self.loader(self.uni.pred[e["pred"]], self._fn(e["id"]), ch))
            else:
                r = self.retorts[e["ref"]]
                rec.append(r if e["bound"] is None else self.bound(self.uni.pred[e["bound"]], r))
        return rec

    def apply(self, op):
        if op["op"] == "new":
            self.retorts.append(self.Retort(recipe=self._build(op["recipe"]), strict_coercion=op["strict"]))
        elif op["op"] == "extend":
            self.retorts.append(self.retorts[op["src"]].extend(recipe=self._build(op["recipe"])))
        elif op["op"] == "replace":
            self.retorts.append(self.retorts[op["src"]].replace(strict_coercion=op["strict"]))

    def load(self, idx, what):
        """-> ('ok', value, log) | ('load_error', None, log) | ('not_found', None, log)"""
        from adaptix import ProviderNotFoundError
        from adaptix.load_error import LoadError
        self.log.clear()
        datum = {"A": [], "B": [], "I": "5", "M": {"a": [], "b": [], "n": "5"}}[what]
        try:
            v = self.retorts[idx].load(datum, self.uni.hint[what])
        except ProviderNotFoundError:
            return "not_found", None, list(self.log)
        except LoadError:
            return "load_error", None, list(self.log)
        return "ok", v, list(self.log)


def expect_scalar(spec, origin):
    """what the facade shows for the documented outcome `spec` of a request for A / B ([] is loaded) or int ('5' is loaded)"""
    if spec["r"] != "ok":
        return ("not_found", None, None)
    w = spec["w"]
    if origin != "I":
        return ("ok", list(w), list(w))
    if OPT_STRICT in w:                     # the strict builtin loader rejects '5'; what is composed behind it never runs
        return ("load_error", None, w[:w.index(OPT_STRICT)])
    if OPT_LAX in w:
        return ("ok", 5, [x for x in w if x != OPT_LAX])
    return ("ok", "5", list(w))


def judge(what, got, results):
    """does the real outcome `got` of load(what) show the documented outcomes `results` (scalar: {None: outcome}; M: per
    field)?  -> (True/False, expected) or (None, None) when the outcomes do not pin the facade result down"""
    if what != "M":
        want = expect_scalar(results[None], what)
        ok = got[0] == want[0] and (got[0] == "not_found" or (got[1] == want[1] and got[2] == want[2]))
        return ok, want
    if any(s["r"] != "ok" for s in results.values()):
        return None, None   # the owner cannot build M; what the search does after that failure is not pinned down here
    wants = {f: expect_scalar(results[f], M_FIELDS[f]) for f in M_FIELDS}
    if got[0] == "not_found":
        ok = False
    elif any(w[0] == "load_error" for w in wants.values()):
        ok = got[0] == "load_error" and sorted(got[2]) == sorted(x for w in wants.values() for x in w[2])
    else:
        ok = (got[0] == "ok" and got[1] == {f: wants[f][1] for f in M_FIELDS}
              and got[2] == wants["a"][2] + wants["b"][2] + wants["n"][2])
    return ok, wants


M_FIELDS = {"a": "A", "b": "B", "n": "I"}


def run_history(ctx, uni, ops, spec_send):
    """replays one history against the real library; every `use` and a final sweep over all retorts are checked against
    the meaning computed from the recipes alone.  Returns the observations for the model correspondence:
    (case, what, real outcome, {field: (retort tree, request)})."""
    vals = retort_values(ops)
    real = RealHistory(uni)
    n_made = sum(1 for op in ops if op["op"] != "use")
    sweep = [{"op": "use", "src": i, "load": what} for i in range(n_made) for what in ("A", "B", "I", "M")]
    ctx.rng.shuffle(sweep)
    observations = []
    for step, op in enumerate(list(ops) + sweep):
        if op["op"] != "use":
            try:
                real.apply(op)
            except Exception as e:  # noqa: BLE001
                ctx.fail("history:raises", f"history op #{step} {op['op']} raises {type(e).__name__}: {e}"[:200],
                         {"suite": "facade-history", "ops": ops})
                return observations
            continue
        idx, what = op["src"], op["load"]
        case = {"suite": "facade-history", "ops": ops, "use": {"src": idx, "load": what}}
        try:
            got = real.load(idx, what)
        except Exception as e:  # noqa: BLE001
            ctx.fail("history:raises", f"history use #{step} load {what} from retort #{idx} raises {type(e).__name__}: {e}"[:200], case)
            return observations
        if got[0] == "ok" and what == "M":
            got = ("ok", {f: getattr(got[1], f) for f in M_FIELDS}, got[2])
        kind = _kind(vals, ops, idx)
        ctx.note_case(case, nontrivial=kind != "flat", kind=f"facade-history:{kind}")
        if what != "M":
            queries = {None: (idx, what, None)}
        else:
            owner = model_owner(vals, idx)
            queries = {f: (owner, o, f) for f, o in M_FIELDS.items()}
        results = {k: spec_send(spec_handlers(vals, i, o, f, spec_send)) for k, (i, o, f) in queries.items()}
        ok, want = judge(what, got, results)
        observations.append((case, what, got, {k: (tree_json(vals, i), model_req(o, f)) for k, (i, o, f) in queries.items()}))
        if ok is False:
            ctx.fail(f"history:{kind}", f"retort #{idx} of the history [{_short(ops)}] loads {what}: real {got}, the recipes give "
                     f"{want} (1000/1001 = the builtin int loader of a strict/lax retort)", case)
            return observations
    return observations


def _kind(vals, ops, idx):
    """flat / nested / derived / nested-derived (a retort reachable from #idx was made by extend/replace)"""
    made = [op for op in ops if op["op"] != "use"]

    def reach(i, top):
        out = set() if top else {i}
        for e in vals[i]["recipe"]:
            if e["e"] == "retort":
                out |= reach(e["ref"], False)
        return out
    inner = reach(idx, True)
    if not inner:
        return "derived" if made[idx]["op"] != "new" else "flat"
    return "nested-derived" if any(made[i]["op"] != "new" for i in inner) else "nested"


def _short(ops):
    out = []
    for op in ops:
        if op["op"] == "use":
            out.append(f"use(#{op['src']},{op['load']})")
            continue
        rec = ",".join((f"{e['pred']}:{e['chain'] or 'plain'}:{e['id']}" if e["e"] == "plain" else
                        (f"retort#{e['ref']}" if e["bound"] is None else f"bound({e['bound']},#{e['ref']})"))
                       for e in op.get("recipe", []))
        if op["op"] == "new":
            out.append(f"new([{rec}],strict={op['strict']})")
        elif op["op"] == "extend":
            out.append(f"#{op['src']}.extend([{rec}])")
        else:
            out.append(f"#{op['src']}.replace(strict={op['strict']})")
    return "; ".join(out)
