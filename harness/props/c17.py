"""C17 — all supported model kinds behave the same for the same logical model.

Lean side: AdaptixModel/Kinds/Shapes.lean (model), AdaptixProofs/Props/C17.lean (theorems).

Tie = translation validation of the six shape introspectors + end-to-end twins:
  * shape-canonical : for every generated (kind, logical model) the REAL class is created
                      (dataclasses.make_dataclass / NamedTuple / TypedDict / attrs.make_class /
                      pydantic BaseModel / SQLAlchemy declarative class in a fresh registry) from the
                      canonical declaration and the real get_*_shape output, projected to
                      (field ids in order, types, default, required, params, accessors, kwargs,
                      overriden_types), is compared with the model's `shapeOf`;
                      "Python/3rd party refuses the class" must coincide with the model's Unsupported
  * shape-rich      : the same for declarations using the per-kind extras (InitVar/ClassVar/init=False,
                      Required/NotRequired/total, attrs alias/underscore/takes_self, pydantic aliases/
                      computed/private/extra, SQLAlchemy pk/autoincrement/nullable/FK/server default/
                      context default/relationships)
  * twins-load      : Retort.load on every kind's class vs `loadModel (shapeOf k m)` (+ object view)
  * twins-dump      : Retort.dump vs `dumpModel`; twins-aslist : as_list dump vs `dumpAsList`
  * link            : get_converter between every ordered pair of kinds vs `link`
  * convert-sub     : conversion twins — a source model that LACKS some destination fields (the optional ones,
                      in every position; sometimes a required one) and/or has source-only fields, converted into
                      the destination declared in every kind under allow_unlinked_optional(names) / (P.ANY) /
                      a partial allowance / the default forbidding policy, vs `convertModel`
                      (`fetchLinking` + `planCall` = _make_constructor_call + `bindCall` = Python's call
                      binding over the kind's InputShape.params) followed by `objectOf`
Direct oracle (real library only, Python, no Lean): all kinds in which the logical model can be
declared give the same load outcome / dump / error / converter result, up to the listed per-kind
limitations; limitations that are adaptix's own choice must be *documented* (DOC_ANCHORS are looked up
in /repo/docs on every run), otherwise the difference is reported.
"""

import dataclasses
import json
import re
import types
import typing
import warnings
from typing import Any, ClassVar, NamedTuple, Optional, TypedDict

from harness import core
from harness.core import Ctx, Driver, InfraError
from harness.props import c17_defaults

ID = "C17"
CLAIM = {
    "technique": "Lean 4 proof (shape projections of the six introspector models + shape-generic load/dump/link "
                 "semantics) + translation validation of the real introspectors and end-to-end twins",
    "text": (
        "Partial (third-party introspection is modelled, not verified). Proved in Lean for every logical model "
        "(any number of fields, any names/types/defaults/kw-only flags): a kind yields a shape iff the explicit "
        "decidable per-kind side conditions hold (declarable_iff: trailing defaults for dataclass/attrs/NamedTuple, no "
        "underscore names for NamedTuple/pydantic, no factories for NamedTuple, non-colliding stripped init names for "
        "attrs, a first field as primary key and no nested model column for SQLAlchemy); the shapes the models of the "
        "dataclass, NamedTuple, attrs and pydantic introspectors produce for the canonical declaration have exactly the "
        "logical model's (id, type, required, default) per field in declaration order (shape_projection_*); the "
        "TypedDict shape has them sorted by name with defaults erased; the SQLAlchemy shape has them exactly iff no "
        "field is an autoincrement primary key / nullable column / None default (sqlalchemy_projection_iff). The model "
        "loader, dumper and converter linking read the shape only through that projection, hence any two such kinds "
        "load the same input to the same constructor arguments (field-wise related ones when nested models are loaded "
        "by kind-specific loaders: kinds_agree_load_nested), report the same missing/bad keys, dump field-wise equal "
        "objects to equal dicts under every name mapping and omit_default setting, and a converter between any two of "
        "the six kinds links every field to its namesake (kinds_agree_*, cross_kind_convert_copies_all). The one later "
        "stage that reads the kind-specific parameter list is modelled too: _make_constructor_call (planCall: positional "
        "until the first parameter left out, keywords afterwards) composed with Python's call binding (bindCall); for "
        "every parameter list with distinct names and no positional-only parameter the planned call binds exactly the "
        "linked parameters to their own values (planned_call_binds_fieldwise), every kind's parameter list is of that form "
        "(every_kind_params_wellformed), hence for any source shape, any allow_unlinked_optional policy and unlinked "
        "optional fields in any position the destination constructor of each of the six kinds receives exactly the "
        "field-wise specification (convert_fieldwise, convert_fieldwise_lookup), any two kinds receive the same argument "
        "for every field and refuse together (kinds_agree_convert, _objects, _refusal). The deviations "
        "of TypedDict (no defaults, sorted as_list order) and SQLAlchemy are stated as theorems with proved witnesses "
        "(full_strength_fails_*). That the real attrs/pydantic/SQLAlchemy/stdlib classes are described by the model is "
        "established by differential testing only: real get_*_shape vs shapeOf on generated canonical and rich "
        "declarations, and real Retort.load/dump/get_converter on twins of all six kinds vs the model (converters also "
        "from sources that lack / add fields, vs convertModel + objectOf)."
    ),
    "note": (
        "Trusted: Lean 4.33 kernel; axioms audited each run. The theorems are about the hand-written Lean model of the "
        "introspectors and of a minimal shape-generic loader/dumper/linker (field loaders, dumpers and the name layout "
        "are parameters: they belong to C02/C03/C08/C13). What Python, attrs, pydantic and SQLAlchemy do with a class "
        "statement is modelled and validated by correspondence, not proved. Pydantic validation inside the constructor "
        "is the identity on the values adaptix passes for the generated type pool; SQLAlchemy column defaults act at "
        "flush time. Requires fixes/C17-sqlalchemy-builtin-callable-default.patch (default=list/dict) in /repo."
    ),
    "design_ref": "DESIGN.md §4 C17",
}
PROPS_FILE = "AdaptixProofs/Props/C17.lean"
LEAN_TARGETS = ["AdaptixProofs.Props.C17", "drv_c17"]
RULE = ("logical models: 1-5 fields over {int,str,bool,float,Optional[int],list[int],dict[str,int],nested model}, "
        "defaults none/scalar (0,'',None,False,...)/factories (list,dict,plain functions), kw-only flags, private and "
        "trailing-underscore names; every model is declared in all six kinds; a case is non-trivial when the class "
        "exists in the kind and the shape has >= 2 fields or a default / the load reaches the per-field stage; "
        "conversion twins: per destination model 1-2 source models = destination minus a random subset of its optional "
        "fields (sometimes a required one) plus 0-2 source-only fields, policy allow-by-name / allow P.ANY / partial / "
        "default forbid, every destination kind x 2 source kinds; three fixed destinations with every subset of "
        "their optional fields dropped; non-trivial when source and destination field sets differ")
ASSUMPTIONS = [
    "field loaders/dumpers and the name layout are the same function of (type, field id) for every kind — they never "
    "see the kind (C02/C03); the correspondence plugs the real leaf outcomes into the model",
    "pydantic's own validation in the constructor is the identity on exactly-typed values of the generated pool",
    "converters: the coercer of a field whose source and destination types are equal is as-is and the coercer of a "
    "nested model is built by the same construction (parameter `co` of convertModel; C13/C14); the source object holds "
    "every field of its shape (TypedDict sources with an absent NotRequired key are not generated: the accessor raises "
    "KeyError for every destination kind alike)",
    "per-kind limitations that make a logical model undeclarable (NamedTuple: no factories/underscore names; "
    "pydantic: underscore names are private attributes; SQLAlchemy: nested model needs FK + relationship; TypedDict: "
    "no defaults -> NotRequired) are properties of Python / the third-party library, observed on the real class machinery",
]
TRUSTED = [
    "third-party introspection (attrs.fields, pydantic model_fields/__private_attributes__, SQLAlchemy mapper/"
    "Table.autoincrement_column, dataclasses.fields, inspect.signature) is modelled and validated by the shape "
    "correspondence on every run, not verified",
]

KINDS = ["dataclass", "namedtuple", "typeddict", "attrs", "pydantic", "sqlalchemy"]
PLAIN_KINDS = ["dataclass", "attrs", "pydantic", "namedtuple"]   # kinds without own limitations: oracle reference
ABSENT = "<absent>"

# ---------------------------------------------------------------------------
# documented limitations: looked up in the working tree's docs on every run
# ---------------------------------------------------------------------------

DOC_FILE = "docs/reference/integrations.rst"
DOC_ANCHORS = {
    # adaptix's own choices: must be documented to count as "documented per-kind limitation"
    "sa-fk-optional": r"foreign keys and relationships are considered as optional",
    "sa-order": r"does not support registering the order of mapped fields",
    "pydantic-category-order": r"regular fields will come first",
    "sa-nullable-optional": r"nullable columns.{0,200}considered as optional",
    "sa-autoinc-optional": r"autoincrement(ed)? primary key.{0,200}considered as optional",
    "td-sorted-order": r"TypedDict.{0,200}(sorted|ordered) by (their )?names?",
}
_doc_cache: dict = {}


def documented(tag: str) -> bool:
    if "text" not in _doc_cache:
        try:
            _doc_cache["text"] = re.sub(r"\s+", " ", (core.REPO / DOC_FILE).read_text())
        except OSError:
            _doc_cache["text"] = ""
    return re.search(DOC_ANCHORS[tag], _doc_cache["text"], re.I | re.S) is not None


# limitations inherent to the kind as Python / the library defines it (no adaptix documentation needed)
INHERENT = {
    "td-no-default": "a TypedDict cannot carry defaults: a defaulted field is NotRequired and simply absent",
    "sa-none-default": "SQLAlchemy reads mapped_column(default=None) as 'no default'",
    "sa-deferred-default": "SQLAlchemy applies column defaults at flush time, an unset attribute reads None",
}


# ---------------------------------------------------------------------------
# types
# ---------------------------------------------------------------------------

def T(t_, **kw):
    return dict({"t": t_}, **kw)


T_INT, T_STR, T_BOOL, T_FLOAT = T("int"), T("str"), T("bool"), T("float")
T_OPT_INT = T("opt", a=T_INT)
T_LIST_INT = T("list", a=T_INT)
T_DICT = T("dict", k=T_STR, v=T_INT)


def py_type(ty, nested_cls=None):
    t = ty["t"]
    if t == "int":
        return int
    if t == "str":
        return str
    if t == "bool":
        return bool
    if t == "float":
        return float
    if t == "opt":
        return Optional[py_type(ty["a"], nested_cls)]
    if t == "list":
        return list[py_type(ty["a"], nested_cls)]
    if t == "dict":
        return dict[py_type(ty["k"], nested_cls), py_type(ty["v"], nested_cls)]
    if t == "model":
        return nested_cls[ty["name"]]
    raise ValueError(t)


def ty_of_py(tp, nested_names):
    """inverse of py_type on the real introspector's output"""
    if tp is int:
        return T_INT
    if tp is str:
        return T_STR
    if tp is bool:
        return T_BOOL
    if tp is float:
        return T_FLOAT
    if tp is Any:
        return T("any")
    if isinstance(tp, type) and id(tp) in nested_names:
        return T("model", name=nested_names[id(tp)])
    origin = typing.get_origin(tp)
    args = typing.get_args(tp)
    if origin is typing.Union and len(args) == 2 and args[1] is type(None):
        return T("opt", a=ty_of_py(args[0], nested_names))
    if origin is list:
        return T("list", a=ty_of_py(args[0], nested_names))
    if origin is dict:
        return T("dict", k=ty_of_py(args[0], nested_names), v=ty_of_py(args[1], nested_names))
    return T("unknown", repr=repr(tp))


def shape_ty_of_py(tp, nested_names):
    origin = typing.get_origin(tp)
    if origin is typing.NotRequired:
        return {"w": "not_required", "ty": ty_of_py(typing.get_args(tp)[0], nested_names)}
    if origin is typing.Required:
        return {"w": "required", "ty": ty_of_py(typing.get_args(tp)[0], nested_names)}
    if isinstance(tp, dataclasses.InitVar):
        return {"w": "init_var", "ty": ty_of_py(tp.type, nested_names)}
    return {"w": "plain", "ty": ty_of_py(tp, nested_names)}


# ---------------------------------------------------------------------------
# defaults: factory identity matters (builtin class vs plain function)
# ---------------------------------------------------------------------------

def fn_list():
    return []


def fn_dict():
    return {}


def self_zero(self):
    return 0


FACTORIES = {"list": list, "dict": dict, "fn_list": fn_list, "fn_dict": fn_dict}
FACTORY_NAMES = {id(v): k for k, v in FACTORIES.items()}
SELF_FACTORIES = {"self_zero": self_zero}
SELF_FACTORY_NAMES = {id(v): k for k, v in SELF_FACTORIES.items()}

NO_DEFAULT = {"k": "none"}


def scalar_to_json(v):
    return {"f": json.dumps(v)} if type(v) is float else v


def scalar_of_json(j):
    return float(j["f"]) if isinstance(j, dict) else j


def D_value(v):
    return {"k": "value", "v": scalar_to_json(v)}


def D_factory(f):
    return {"k": "factory", "f": f}


def fdefault(f):
    return f.get("default") or NO_DEFAULT


class Undeclarable(Exception):
    """Python / the third-party class machinery refuses (or silently alters) the declaration"""


# ---------------------------------------------------------------------------
# builders: declaration -> real class
# ---------------------------------------------------------------------------

def build_dataclass(decl, nested):
    specs = []
    for f in decl["fields"]:
        tp = py_type(f["ty"], nested)
        pseudo = f.get("pseudo", "none")
        if pseudo == "classvar":
            tp = ClassVar[tp]
        elif pseudo == "initvar":
            tp = dataclasses.InitVar[tp]
        kw = {}
        d = fdefault(f)
        if d["k"] == "value":
            kw["default"] = scalar_of_json(d["v"])
        elif d["k"] == "factory":
            kw["default_factory"] = FACTORIES[d["f"]]
        elif d["k"] == "factory_self":
            raise Undeclarable("dataclasses have no factory taking self")
        if f.get("kw_only"):
            kw["kw_only"] = True
        if not f.get("init", True):
            kw["init"] = False
        specs.append((f["name"], tp, dataclasses.field(**kw)))
    try:
        return dataclasses.make_dataclass(decl.get("name", "M"), specs)
    except (TypeError, ValueError) as e:
        raise Undeclarable(f"{type(e).__name__}: {e}")


def build_namedtuple(decl, nested):
    ns = {"__annotations__": {}, "__module__": __name__}
    for f in decl["fields"]:
        ns["__annotations__"][f["name"]] = py_type(f["ty"], nested)
        d = fdefault(f)
        if d["k"] == "value":
            ns[f["name"]] = scalar_of_json(d["v"])
        elif d["k"] != "none":
            raise Undeclarable("NamedTuple has no default factories")
    try:
        return types.new_class(decl.get("name", "M"), (NamedTuple,), {}, lambda x: x.update(ns))
    except (TypeError, ValueError) as e:
        raise Undeclarable(f"{type(e).__name__}: {e}")


def build_typeddict(decl, nested):
    ann = {}
    for f in decl["fields"]:
        tp = py_type(f["ty"], nested)
        req = f.get("req", "plain")
        if req == "required":
            tp = typing.Required[tp]
        elif req == "not_required":
            tp = typing.NotRequired[tp]
        ann[f["name"]] = tp
    try:
        return TypedDict(decl.get("name", "M"), ann, total=(decl.get("opts") or {}).get("total", True))
    except (TypeError, ValueError) as e:
        raise Undeclarable(f"{type(e).__name__}: {e}")


def build_attrs(decl, nested):
    import attrs
    attribs = {}
    for f in decl["fields"]:
        kw = {"type": py_type(f["ty"], nested)}
        d = fdefault(f)
        if d["k"] == "value":
            kw["default"] = scalar_of_json(d["v"])
        elif d["k"] == "factory":
            kw["factory"] = FACTORIES[d["f"]]
        elif d["k"] == "factory_self":
            kw["default"] = attrs.Factory(SELF_FACTORIES[d["f"]], takes_self=True)
        if f.get("kw_only"):
            kw["kw_only"] = True
        if not f.get("init", True):
            kw["init"] = False
        if f.get("alias") is not None:
            kw["alias"] = f["alias"]
        attribs[f["name"]] = attrs.field(**kw)
    try:
        return attrs.make_class(decl.get("name", "M"), attribs)
    except (TypeError, ValueError, SyntaxError) as e:
        raise Undeclarable(f"{type(e).__name__}: {str(e)[:120]}")


def build_pydantic(decl, nested):
    import pydantic
    opts = decl.get("opts") or {}
    ns = {"__annotations__": {}, "__module__": __name__}
    cfg = {}
    if opts.get("extra", "unset") != "unset":
        cfg["extra"] = opts["extra"]
    if opts.get("populate_by_name"):
        cfg["populate_by_name"] = True
    if cfg:
        ns["model_config"] = pydantic.ConfigDict(**cfg)
    must_be_private, must_be_field = [], []
    for f in decl["fields"]:
        tp = py_type(f["ty"], nested)
        cat = f.get("cat", "regular")
        d = fdefault(f)
        if d["k"] == "factory_self":
            raise Undeclarable("pydantic has no factory taking self")
        if cat == "computed":
            def getter(self, _v=scalar_of_json(d.get("v"))):
                return _v
            getter.__annotations__ = {"return": tp}
            getter.__name__ = f["name"]
            ns[f["name"]] = pydantic.computed_field(property(getter))
            must_be_field.append(f["name"])
            continue
        ns["__annotations__"][f["name"]] = tp
        if cat == "private":
            must_be_private.append(f["name"])
            if d["k"] == "value":
                ns[f["name"]] = pydantic.PrivateAttr(default=scalar_of_json(d["v"]))
            elif d["k"] == "factory":
                ns[f["name"]] = pydantic.PrivateAttr(default_factory=FACTORIES[d["f"]])
            continue
        must_be_field.append(f["name"])
        kw = {}
        if d["k"] == "value":
            kw["default"] = scalar_of_json(d["v"])
        elif d["k"] == "factory":
            kw["default_factory"] = FACTORIES[d["f"]]
        if f.get("alias") is not None:
            kw["validation_alias"] = f["alias"]
        if kw:
            ns[f["name"]] = pydantic.Field(**kw)
    try:
        with warnings.catch_warnings():
            warnings.simplefilter("error")
            cls = types.new_class(decl.get("name", "M"), (pydantic.BaseModel,), {}, lambda x: x.update(ns))
    except (TypeError, ValueError, NameError, Warning, pydantic.errors.PydanticUserError) as e:
        raise Undeclarable(f"{type(e).__name__}: {str(e)[:120]}")
    # pydantic silently re-categorises by the leading underscore: then the class is not the declared model
    for n in must_be_field:
        if n in cls.__private_attributes__:
            raise Undeclarable(f"{n!r}: a name with a leading underscore declares a private attribute, not a field")
    for n in must_be_private:
        if n not in cls.__private_attributes__:
            raise Undeclarable(f"{n!r}: private attributes must start with an underscore")
    return cls


def sa_column_type(ty):
    import sqlalchemy
    t = ty["t"]
    if t == "opt":
        return sa_column_type(ty["a"])
    return {"int": sqlalchemy.Integer, "str": sqlalchemy.String, "bool": sqlalchemy.Boolean,
            "float": sqlalchemy.Float, "list": sqlalchemy.JSON, "dict": sqlalchemy.JSON}[t]


def ctx_default(ctx):
    return 0


def build_sqlalchemy(decl, nested):
    import sqlalchemy
    from sqlalchemy.orm import Mapped, mapped_column, registry, relationship
    reg = registry()
    name = decl.get("name", "M")
    ns = {"__tablename__": name, "__annotations__": {}}
    target = None
    if any(f.get("fk") or f.get("rel", "none") != "none" for f in decl["fields"]):
        target = reg.mapped(type("Target", (), {
            "__tablename__": "target", "__annotations__": {"id": Mapped[int]}, "id": mapped_column(primary_key=True),
        }))
    try:
        for f in decl["fields"]:
            rel = f.get("rel", "none")
            if rel != "none":
                ns["__annotations__"][f["name"]] = Mapped[Optional[target]] if rel == "one" else Mapped[list[target]]
                ns[f["name"]] = relationship()
                continue
            if f["ty"]["t"] == "model" or (f["ty"]["t"] == "opt" and f["ty"]["a"]["t"] == "model"):
                raise Undeclarable("a nested model needs a foreign key column and a relationship")
            ns["__annotations__"][f["name"]] = Mapped[py_type(f["ty"], nested)]
            args = [sa_column_type(f["ty"])]
            kw = {}
            d = fdefault(f)
            if d["k"] == "value":
                kw["default"] = scalar_of_json(d["v"])
            elif d["k"] == "factory":
                kw["default"] = FACTORIES[d["f"]]
            elif d["k"] == "factory_self":
                raise Undeclarable("SQLAlchemy has no factory taking self")
            if f.get("ctx_default"):
                kw["default"] = ctx_default
            if f.get("pk"):
                kw["primary_key"] = True
            ai = f.get("autoinc", "auto")
            if ai != "auto":
                kw["autoincrement"] = (ai == "true")
            nl = f.get("nullable", "unset")
            if nl != "unset":
                kw["nullable"] = (nl == "true")
            if f.get("server_default"):
                kw["server_default"] = "0"
            if f.get("fk"):
                args.append(sqlalchemy.ForeignKey("target.id"))
            ns[f["name"]] = mapped_column(*args, **kw)
        with warnings.catch_warnings():
            warnings.simplefilter("ignore")
            cls = reg.mapped(type(name, (), ns))
            sqlalchemy.orm.configure_mappers()
            # Table.autoincrement_column is computed lazily and may reject the declaration
            _ = cls.__table__.autoincrement_column
    except Undeclarable:
        raise
    except (sqlalchemy.exc.SQLAlchemyError, TypeError, ValueError) as e:
        raise Undeclarable(f"{type(e).__name__}: {str(e)[:120]}")
    cls._c17_target = target
    return cls


BUILDERS = {
    "dataclass": build_dataclass, "namedtuple": build_namedtuple, "typeddict": build_typeddict,
    "attrs": build_attrs, "pydantic": build_pydantic, "sqlalchemy": build_sqlalchemy,
}


def build_class(decl, nested=None):
    return BUILDERS[decl["kind"]](decl, nested or {})


# ---------------------------------------------------------------------------
# projection of the real shape
# ---------------------------------------------------------------------------

def introspector(kind):
    from adaptix._internal.model_tools.introspection.attrs import get_attrs_shape
    from adaptix._internal.model_tools.introspection.dataclass import get_dataclass_shape
    from adaptix._internal.model_tools.introspection.named_tuple import get_named_tuple_shape
    from adaptix._internal.model_tools.introspection.pydantic import get_pydantic_shape
    from adaptix._internal.model_tools.introspection.sqlalchemy import get_sqlalchemy_shape
    from adaptix._internal.model_tools.introspection.typed_dict import get_typed_dict_shape
    return {"dataclass": get_dataclass_shape, "namedtuple": get_named_tuple_shape, "typeddict": get_typed_dict_shape,
            "attrs": get_attrs_shape, "pydantic": get_pydantic_shape, "sqlalchemy": get_sqlalchemy_shape}[kind]


def proj_default(d):
    from adaptix._internal.model_tools.definitions import DefaultFactory, DefaultFactoryWithSelf, DefaultValue, NoDefault
    if isinstance(d, NoDefault):
        return {"k": "none"}
    if isinstance(d, DefaultValue):
        v = d.value
        if v is None or type(v) in (bool, int, str, float):
            return {"k": "value", "v": scalar_to_json(v)}
        return {"k": "value", "v": {"unknown": repr(v)}}
    if isinstance(d, DefaultFactory):
        return {"k": "factory", "f": FACTORY_NAMES.get(id(d.factory), "unknown:" + repr(d.factory))}
    if isinstance(d, DefaultFactoryWithSelf):
        return {"k": "factory_self", "f": SELF_FACTORY_NAMES.get(id(d.factory), "unknown:" + repr(d.factory))}
    return {"k": "unknown", "repr": repr(d)}


def proj_accessor(a):
    from adaptix._internal.model_tools.definitions import DescriptorAccessor, ItemAccessor
    if isinstance(a, DescriptorAccessor):
        return {"a": "attr", "name": a.attr_name, "optional": a.access_error is not None}
    if isinstance(a, ItemAccessor):
        if isinstance(a.key, int):
            return {"a": "index", "idx": a.key, "optional": a.access_error is not None}
        return {"a": "key", "name": a.key, "optional": a.access_error is not None}
    return {"a": "unknown"}


def project_shape(shape, nested_names):
    inp, out = shape.input, shape.output
    return {
        "input": {
            "fields": [{"id": f.id, "ty": shape_ty_of_py(f.type, nested_names), "default": proj_default(f.default),
                        "required": f.is_required} for f in inp.fields],
            "params": [{"field": p.field_id, "name": p.name, "kind": p.kind.name} for p in inp.params],
            "kwargs": inp.kwargs is not None,
            "overriden": sorted(inp.overriden_types),
        },
        "output": {
            "fields": [{"id": f.id, "ty": shape_ty_of_py(f.type, nested_names), "default": proj_default(f.default),
                        "accessor": proj_accessor(f.accessor)} for f in out.fields],
            "overriden": sorted(out.overriden_types),
        },
    }


def real_shape_of_class(kind, cls, nested_names=None):
    from adaptix._internal.model_tools.definitions import ClarifiedIntrospectionError, IntrospectionError
    names = dict(nested_names or {})
    target = getattr(cls, "_c17_target", None) if kind == "sqlalchemy" else None
    if target is not None:
        names[id(target)] = "Target"
    try:
        with warnings.catch_warnings():
            warnings.simplefilter("ignore")
            shape = introspector(kind)(cls)
    except ClarifiedIntrospectionError:
        return {"unsupported": "introspection"}
    except IntrospectionError as e:
        return {"unsupported": "not-recognised", "cls": type(e).__name__}
    except Exception as e:  # the introspector crashed: never agreement
        return {"crash": type(e).__name__, "msg": str(e)[:160]}
    return project_shape(shape, names)


# ---------------------------------------------------------------------------
# logical models and their canonical declaration (Python mirror of `declOf`, compared with it)
# ---------------------------------------------------------------------------

PLAIN_NAMES = ["a", "b", "c", "d", "e", "x", "y", "value", "count", "first_name", "user_id", "is_ok", "zz", "k2"]
ODD_NAMES = ["_p", "_q", "_private_x", "from_", "type_", "B", "Ab", "camelCase"]
SNAKE_RE = re.compile(r"^[a-z][a-z0-9]*(_[a-z0-9]+)*$")


def canonical_field(kind, idx, f):
    d = fdefault(f)
    out = {"name": f["name"], "ty": f["ty"], "default": NO_DEFAULT, "kw_only": False, "init": True, "pseudo": "none",
           "alias": None, "req": "plain", "cat": "regular", "pk": False, "autoinc": "auto", "nullable": "unset",
           "fk": False, "server_default": False, "ctx_default": False, "rel": "none"}
    if kind == "typeddict":
        out["req"] = "plain" if d["k"] == "none" else "not_required"
        return out
    out["default"] = d
    if kind in ("dataclass", "attrs"):
        out["kw_only"] = bool(f.get("kw_only"))
    if kind == "sqlalchemy":
        out["pk"] = idx == 0
    return out


def canonical_decl(kind, lm):
    return {"kind": kind, "opts": {"total": True, "extra": "unset", "populate_by_name": False},
            "fields": [canonical_field(kind, i, f) for i, f in enumerate(lm["fields"])]}


def gen_default(rng, ty):
    t = ty["t"]
    if t == "int":
        return D_value(rng.choice([0, 1, -5, 42]))
    if t == "str":
        return D_value(rng.choice(["", "x", "dflt"]))
    if t == "bool":
        return D_value(rng.choice([False, True]))
    if t == "float":
        return D_value(rng.choice([0.0, 1.5, -2.25]))
    if t == "opt":
        return D_value(rng.choice([None, None, 3, 0]))
    if t == "list":
        return D_factory(rng.choice(["list", "fn_list"]))
    if t == "dict":
        return D_factory(rng.choice(["dict", "fn_dict"]))
    return None


def gen_logical(rng, allow_nested=True):
    n = rng.choice([1, 2, 2, 3, 3, 3, 4, 4, 5])
    names = []
    odd = rng.random() < 0.3
    while len(names) < n:
        nm = rng.choice(ODD_NAMES) if (odd and rng.random() < 0.4) else rng.choice(PLAIN_NAMES)
        if nm not in names:
            names.append(nm)
    pool = [(T_INT, 25), (T_STR, 20), (T_BOOL, 10), (T_FLOAT, 10), (T_OPT_INT, 12), (T_LIST_INT, 10), (T_DICT, 7)]
    if allow_nested:
        pool.append((T("model", name="N"), 7))
    p_default = rng.choice([0.0, 0.25, 0.5, 0.8])
    kw_model = rng.random() < 0.25
    fields = []
    for nm in names:
        ty = rng.choices([p[0] for p in pool], [p[1] for p in pool])[0]
        f = {"name": nm, "ty": ty}
        if rng.random() < p_default:
            d = gen_default(rng, ty)
            if d is not None:
                f["default"] = d
        if kw_model and rng.random() < 0.5:
            f["kw_only"] = True
        fields.append(f)
    if rng.random() < 0.7:   # mostly: defaults trail, so the positional kinds accept the model
        fields.sort(key=lambda f: fdefault(f)["k"] != "none")
    lm = {"fields": fields}
    if any(f["ty"]["t"] == "model" for f in fields):
        lm["nested"] = {"N": {"fields": [{"name": "nu", "ty": T_INT}] + ([{"name": "nv", "ty": T_STR}] if rng.random() < 0.6 else [])}}
    return lm


def lean_model(lm):
    return {"fields": lm["fields"]}


class Twin:
    """the real classes of one logical model in every kind where Python / the library accepts it"""

    def __init__(self, lm):
        self.lm = lm
        self.decl = {}
        self.cls = {}
        self.nested_cls = {}
        self.why = {}
        for kind in KINDS:
            decl = canonical_decl(kind, lm)
            self.decl[kind] = decl
            try:
                nested = {}
                for nname, nlm in (lm.get("nested") or {}).items():
                    nested[nname] = build_class(dict(canonical_decl(kind, nlm), name=nname))
                self.nested_cls[kind] = nested
                self.cls[kind] = build_class(decl, nested)
            except Undeclarable as e:
                self.why[kind] = str(e)

    def nested_names(self, kind):
        return {id(c): n for n, c in self.nested_cls.get(kind, {}).items()}

    def kinds(self):
        return [k for k in KINDS if k in self.cls]


# ---------------------------------------------------------------------------
# values, views, inputs
# ---------------------------------------------------------------------------

def jtext(v):
    return json.dumps(v, sort_keys=True, separators=(",", ":"))


def gen_value(rng, ty, lm):
    """a JSON datum that loads into the type (the loaded value is the same datum for the pool, floats aside)"""
    t = ty["t"]
    if t == "int":
        return rng.randint(-3, 120)
    if t == "str":
        return rng.choice(["", "s", "hello", "x y", "42"])
    if t == "bool":
        return rng.random() < 0.5
    if t == "float":
        return rng.choice([0.0, 1.5, -2.25, 3.0, 1e10])
    if t == "opt":
        return None if rng.random() < 0.4 else gen_value(rng, ty["a"], lm)
    if t == "list":
        return [gen_value(rng, ty["a"], lm) for _ in range(rng.randint(0, 3))]
    if t == "dict":
        return {rng.choice(["k", "l", "m", "n"]): gen_value(rng, ty["v"], lm) for _ in range(rng.randint(0, 2))}
    if t == "model":
        nlm = lm["nested"][ty["name"]]
        return {f["name"]: gen_value(rng, f["ty"], nlm) for f in nlm["fields"]}
    raise ValueError(t)


def corrupt_value(rng, ty):
    t = ty["t"]
    choices = {
        "int": ["1", True, None, 1.5, [1]],
        "str": [1, None, ["s"], True],
        "bool": [0, "true", None, 1],
        "float": ["1.5", None, True, [1.0]],
        "opt": ["q", True, [1], 2.5],
        "list": [3, {"a": 1}, "12", [1, "x"], [None], None],          # wrong container / bad element
        "dict": [[1], 5, {"k": "v"}, {"k": None}, None, "k"],
        "model": [5, [], {"nu": "bad"}, {}, None],
    }[t]
    return rng.choice(choices)


def to_py_value(ty, datum, kind, twin):
    """the in-memory value a loaded object of `kind` holds for the datum (used to build objects for dumping)"""
    t = ty["t"]
    if t == "model":
        nlm = twin.lm["nested"][ty["name"]]
        ncls = twin.nested_cls[kind][ty["name"]]
        return construct(kind, ncls, nlm, {f["name"]: to_py_value(f["ty"], datum[f["name"]], kind, twin) for f in nlm["fields"]})
    if t == "opt":
        return None if datum is None else to_py_value(ty["a"], datum, kind, twin)
    if t == "list":
        return [to_py_value(ty["a"], x, kind, twin) for x in datum]
    if t == "dict":
        return {k: to_py_value(ty["v"], x, kind, twin) for k, x in datum.items()}
    if t == "float":
        return float(datum)
    return datum


def construct(kind, cls, lm, values):
    """calls the class's own constructor with every field given (independent of adaptix)"""
    if kind == "attrs":
        import attrs
        alias = {a.name: a.alias for a in attrs.fields(cls)}
        return cls(**{alias[n]: v for n, v in values.items()})
    return cls(**values)


def view(ty, v, kind, lm):
    """canonical JSON-able view of an in-memory value, field-wise for nested models"""
    t = ty["t"]
    if v is None:
        return None
    if t == "model":
        nlm = lm["nested"][ty["name"]]
        return {"__model__": {f["name"]: view(f["ty"], get_field(kind, v, f["name"]), kind, nlm) for f in nlm["fields"]}}
    if t == "opt":
        return view(ty["a"], v, kind, lm)
    if t == "list" and isinstance(v, list):
        return [view(ty["a"], x, kind, lm) for x in v]
    if t == "dict" and isinstance(v, dict):
        return {k: view(ty["v"], x, kind, lm) for k, x in v.items()}
    if type(v) in (bool, int, str, float):
        return v
    return {"__other__": repr(v)}


def get_field(kind, obj, name):
    if kind == "typeddict":
        return obj.get(name, ABSENT) if isinstance(obj, dict) else ABSENT
    return getattr(obj, name, ABSENT)


def object_view(kind, lm, obj):
    out = []
    for f in lm["fields"]:
        v = get_field(kind, obj, f["name"])
        out.append([f["name"], None if v is ABSENT else jtext(view(f["ty"], v, kind, lm))])
    return out


# ---------------------------------------------------------------------------
# name mappings
# ---------------------------------------------------------------------------

def trim(name):
    return name.rstrip("_") if name.endswith("_") and not name.endswith("__") else name


def gen_mapping(rng, lm):
    ids = [f["name"] for f in lm["fields"]]
    optional = [f["name"] for f in lm["fields"] if fdefault(f)["k"] != "none"]
    ms = {"map": {}, "style": None, "skip": [], "omit_default": False}
    r = rng.random()
    if r < 0.3:
        return ms
    if r < 0.55:
        for i in rng.sample(ids, rng.randint(1, len(ids))):
            ms["map"][i] = rng.choice(["K_" + i, i.upper() + "1", "key " + i, "-" + i])
        # two fields presented under ONE key (B and b -> "B1") is a layout the library refuses: not a twin case
        taken: dict = {}
        for i in ids:
            key = ms["map"].get(i, i)
            if key in taken:
                ms["map"].pop(i, None)
                if ms["map"].get(taken[key]) == key:
                    ms["map"].pop(taken[key], None)
            taken.setdefault(ms["map"].get(i, i), i)
    elif r < 0.7 and all(SNAKE_RE.match(i) for i in ids):
        ms["style"] = rng.choice(["UPPER_SNAKE", "CAMEL", "PASCAL", "LOWER_KEBAB", "UPPER_DOT"])
    elif r < 0.85:
        cand = optional if (optional and rng.random() < 0.8) else ids
        ms["skip"] = rng.sample(cand, 1)
    else:
        ms["omit_default"] = True
    if rng.random() < 0.25:
        ms["omit_default"] = True
    return ms


def style_key(ms, name):
    if ms["style"] is None:
        return trim(name)
    from adaptix import NameStyle
    from adaptix._internal.name_style import convert_snake_style
    return convert_snake_style(trim(name), NameStyle[ms["style"]])


def key_in(ms, name):
    if name in ms["skip"]:
        return None
    return ms["map"].get(name, style_key(ms, name))


def key_out(ms, name):
    if name in ms["skip"]:
        return None
    if name in ms["map"]:
        return ms["map"][name]
    if name.startswith("_"):
        return None            # SkipPrivateFieldsNameMappingProvider
    return style_key(ms, name)


def mapping_provider(cls, ms, as_list=False):
    from adaptix import NameStyle, name_mapping
    kw = {}
    if ms["map"]:
        kw["map"] = dict(ms["map"])
    if ms["style"]:
        kw["name_style"] = NameStyle[ms["style"]]
    if ms["skip"]:
        kw["skip"] = list(ms["skip"])
    if ms["omit_default"]:
        kw["omit_default"] = True
    if as_list:
        kw["as_list"] = True
    return name_mapping(cls, **kw)


DEFAULT_MS = {"map": {}, "style": None, "skip": [], "omit_default": False}


def gen_inputs(rng, lm, ms, n_extra):
    """(tag, datum) list: valid / missing / extra / wrong type / wrong container / not a mapping"""
    fields = lm["fields"]
    keyed = [(f, key_in(ms, f["name"])) for f in fields]

    def full():
        return {k: gen_value(rng, f["ty"], lm) for f, k in keyed if k is not None}

    out = [("valid-full", full())]
    minimal = {k: gen_value(rng, f["ty"], lm) for f, k in keyed if k is not None and fdefault(f)["k"] == "none"}
    out.append(("valid-minimal", minimal))
    for _ in range(n_extra):
        r = rng.random()
        d = full()
        if r < 0.22 and d:
            for k in rng.sample(list(d), rng.randint(1, min(2, len(d)))):
                del d[k]
            out.append(("missing", d))
        elif r < 0.34:
            d[rng.choice(["extra", "zzz", "a ", "A"])] = rng.choice([1, None, "x", [1]])
            out.append(("extra-key", d))
        elif r < 0.62 and d:
            f, k = rng.choice([(f, k) for f, k in keyed if k is not None])
            d[k] = corrupt_value(rng, f["ty"])
            out.append(("wrong-" + f["ty"]["t"], d))
        elif r < 0.72 and d:
            for f, k in keyed:
                if k is not None and rng.random() < 0.5:
                    d[k] = corrupt_value(rng, f["ty"])
            for k in list(d):
                if rng.random() < 0.3:
                    del d[k]
            out.append(("several-faults", d))
        elif r < 0.8:
            out.append(("not-mapping", rng.choice([None, 1, "s", [], [1, 2], True, 1.5])))
        elif r < 0.9:
            sub = {k: v for k, v in d.items() if rng.random() < 0.6}
            out.append(("subset", sub))
        else:
            # malformed stream: arbitrary JSON under arbitrary (string) keys
            junk = {rng.choice([k for _, k in keyed if k is not None] + ["q", ""]): rng.choice(
                [None, 0, -1, "", "x", [], {}, [[]], {"nu": 1}, True, 1e308, [None]]) for _ in range(rng.randint(0, 4))}
            out.append(("junk", junk))
    return out


# ---------------------------------------------------------------------------
# the real library on one class
# ---------------------------------------------------------------------------

class RealSide:
    def __init__(self):
        from adaptix import ProviderNotFoundError, Retort
        from adaptix.load_error import AggregateLoadError, LoadError, NoRequiredFieldsLoadError, TypeLoadError
        from adaptix.struct_trail import get_trail
        self.Retort, self.ProviderNotFoundError = Retort, ProviderNotFoundError
        self.AggregateLoadError, self.LoadError = AggregateLoadError, LoadError
        self.NoRequiredFieldsLoadError, self.TypeLoadError, self.get_trail = NoRequiredFieldsLoadError, TypeLoadError, get_trail
        self.plain = Retort()

    def canon_error(self, e):
        res = {"r": "err", "not_mapping": False, "missing": set(), "bad": set()}
        children = e.exceptions if isinstance(e, self.AggregateLoadError) else [e]
        for c in children:
            trail = list(self.get_trail(c))
            if isinstance(c, self.NoRequiredFieldsLoadError) and not trail:
                res["missing"] |= set(c.fields)
            elif not trail:
                if isinstance(c, self.TypeLoadError):
                    res["not_mapping"] = True
                else:
                    res["bad"].add("<model:" + type(c).__name__ + ">")
            else:
                res["bad"].add(trail[0] if isinstance(trail[0], str) else repr(trail[0]))
        res["missing"] = sorted(res["missing"])
        res["bad"] = sorted(res["bad"])
        return res

    def load(self, retort, kind, cls, lm, data):
        try:
            loader = retort.get_loader(cls)
        except self.ProviderNotFoundError:
            return {"r": "no_loader"}
        except Exception as e:
            return {"r": "exception", "cls": type(e).__name__, "msg": "get_loader: " + str(e)[:120]}
        try:
            obj = loader(data)
        except self.LoadError as e:
            return self.canon_error(e)
        except Exception as e:
            return {"r": "exception", "cls": type(e).__name__, "msg": str(e)[:120]}
        return {"r": "ok", "object": object_view(kind, lm, obj)}

    def leaf_load(self, retort, ty, tp, datum, kind, lm):
        try:
            v = retort.get_loader(tp)(datum)
        except self.LoadError:
            return None
        except Exception:
            return None
        return jtext(view(ty, v, kind, lm))

    def dump(self, retort, cls, obj):
        try:
            dumper = retort.get_dumper(cls)
        except self.ProviderNotFoundError:
            return {"r": "no_dumper"}
        except Exception as e:
            return {"r": "exception", "cls": type(e).__name__, "msg": "get_dumper: " + str(e)[:120]}
        try:
            data = dumper(obj)
        except Exception as e:
            return {"r": "exception", "cls": type(e).__name__, "msg": str(e)[:120]}
        return {"r": "ok", "data": data}


# ---------------------------------------------------------------------------
# per-kind limitations known to the oracle (Python, independent of Lean)
# ---------------------------------------------------------------------------

def is_numeric(ty):
    return ty["t"] in ("int", "float") or (ty["t"] == "opt" and ty["a"]["t"] in ("int", "float"))


def limitation_tags(kind, lm):
    """field name -> limitation of the kind that applies to it"""
    tags = {}
    for i, f in enumerate(lm["fields"]):
        d = fdefault(f)
        if kind == "typeddict" and d["k"] != "none":
            tags[f["name"]] = "td-no-default"
        if kind == "sqlalchemy":
            if d["k"] == "none":
                if f["ty"]["t"] == "opt":
                    tags[f["name"]] = "sa-nullable-optional"
                elif i == 0 and is_numeric(f["ty"]):
                    tags[f["name"]] = "sa-autoinc-optional"
            elif d["k"] == "value" and d["v"] is None:
                tags[f["name"]] = "sa-none-default"
            else:
                tags[f["name"]] = "sa-deferred-default"
    return tags


NEEDS_DOC = ("sa-autoinc-optional", "sa-nullable-optional", "td-sorted-order")


def license_tags(ctx, used, case, what):
    """a difference explained by limitations: fine when each is inherent or documented, else a failure"""
    for tag in sorted(used):
        if tag in NEEDS_DOC and not documented(tag):
            ctx.fail(f"undocumented-limitation:{tag}",
                     f"{what} — behaviour differs between kinds by a per-kind rule that {DOC_FILE} does not document ({tag})",
                     dict(case, tag=tag))


def compare_load(ctx, ref_kind, ref, kind, out, tags, ms, data, case):
    """oracle for one pair of kinds on one input; `tags`: limitations of `kind` (ref has none)"""
    present = set(data) if isinstance(data, dict) else set()
    absent_tagged = {n: t for n, t in tags.items() if key_in(ms, n) is None or key_in(ms, n) not in present}
    optional_in_kind = {key_in(ms, n): t for n, t in absent_tagged.items()
                        if t in ("sa-autoinc-optional", "sa-nullable-optional") and key_in(ms, n) is not None}
    sig = f"load:{ref_kind}-vs-{kind}"
    if ref["r"] == "no_loader" or out["r"] == "no_loader":
        if ref["r"] != out["r"]:
            # a skipped field that is required in one kind and optional in the other
            skipped = [n for n in tags if key_in(ms, n) is None and tags[n] in ("sa-autoinc-optional", "sa-nullable-optional")]
            if ref["r"] == "no_loader" and skipped:
                return license_tags(ctx, {tags[n] for n in skipped}, case, f"skipping {skipped} is accepted by {kind} only")
            ctx.fail(sig + ":loader-creation", f"{ref_kind}: {ref['r']}, {kind}: {out['r']} for the same name_mapping", case)
        return
    if ref["r"] == "exception" or out["r"] == "exception":
        bad = out if out["r"] == "exception" else ref
        ctx.fail(sig + ":exception", f"a non-LoadError escaped: {bad}", case)
        return
    if ref["r"] == "ok" and out["r"] == "ok":
        used = set()
        for (n, rv), (_, kv) in zip(ref["object"], out["object"]):
            if rv == kv:
                continue
            t = absent_tagged.get(n)
            if t == "td-no-default" and kv is None:
                used.add(t)
            elif t == "sa-deferred-default" and key_in(ms, n) is None and kv == "null":
                used.add(t)       # skipped: left to the constructor, SQLAlchemy fills the default at flush time
            elif t in ("sa-none-default",) and kv == "null" and rv == "null":
                pass
            else:
                ctx.fail(sig + ":field-value", f"field {n!r}: {ref_kind} holds {rv}, {kind} holds {kv} after loading the same input", case)
                return
        return license_tags(ctx, used, case, "loaded objects differ")
    if ref["r"] == "err" and out["r"] == "err":
        if ref["not_mapping"] != out["not_mapping"] or ref["bad"] != out["bad"]:
            ctx.fail(sig + ":error", f"{ref_kind} reports {ref}, {kind} reports {out}", case)
            return
        diff = set(ref["missing"]) ^ set(out["missing"])
        if not diff:
            return
        if diff <= set(optional_in_kind) and set(out["missing"]) <= set(ref["missing"]):
            return license_tags(ctx, {optional_in_kind[k] for k in diff}, case, "missing-field reports differ")
        ctx.fail(sig + ":missing-fields", f"{ref_kind} misses {ref['missing']}, {kind} misses {out['missing']}", case)
        return
    if ref["r"] == "err" and out["r"] == "ok":
        if not ref["bad"] and not ref["not_mapping"] and set(ref["missing"]) <= set(optional_in_kind):
            return license_tags(ctx, {optional_in_kind[k] for k in ref["missing"]}, case,
                                f"{kind} accepts an input {ref_kind} rejects")
    ctx.fail(sig + ":outcome", f"{ref_kind}: {ref}, {kind}: {out}", case)


def compare_dump(ctx, ref_kind, ref, kind, out, tags, ms, lm, case):
    sig = f"dump:{ref_kind}-vs-{kind}"
    if ref["r"] != "ok" or out["r"] != "ok":
        if ref != out:
            ctx.fail(sig + ":outcome", f"{ref_kind}: {ref}, {kind}: {out}", case)
        return
    a, b = ref["data"], out["data"]
    if a == b:
        return
    if not (isinstance(a, dict) and isinstance(b, dict)):
        ctx.fail(sig + ":data", f"{ref_kind} dumps {a!r}, {kind} dumps {b!r}", case)
        return
    used = set()
    for k in set(a) | set(b):
        if k in a and k in b and a[k] == b[k]:
            continue
        owners = [n for n in tags if key_out(ms, n) == k]
        if (ms["omit_default"] and k in b and k not in a and owners
                and tags[owners[0]] in ("td-no-default", "sa-none-default")):
            used.add(tags[owners[0]])     # the kind's shape carries no default to omit
            continue
        ctx.fail(sig + ":data", f"key {k!r}: {ref_kind} dumps {a.get(k, ABSENT)!r}, {kind} dumps {b.get(k, ABSENT)!r}", case)
        return
    license_tags(ctx, used, case, "dumps differ")


# ---------------------------------------------------------------------------
# suites
# ---------------------------------------------------------------------------

def norm_decl(decl):
    d = {"kind": decl["kind"], "opts": dict({"total": True, "extra": "unset", "populate_by_name": False}, **(decl.get("opts") or {})),
         "fields": []}
    if d["opts"]["extra"] != "forbid":
        d["opts"]["extra"] = "unset"
    for f in decl["fields"]:
        g = canonical_field("dataclass", 1, {"name": f["name"], "ty": f["ty"]})
        g.update({k: v for k, v in f.items() if v is not None or k == "alias"})
        g["default"] = fdefault(f)
        d["fields"].append(g)
    return d


def classify_real(kind, build):
    """real side of a shape comparison: projection | unsupported"""
    try:
        cls, names = build()
    except Undeclarable as e:
        return {"unsupported": "declaration"}, str(e)
    return real_shape_of_class(kind, cls, names), None


def strip_model_reply(rep):
    if rep is None or "ok" not in rep:
        return rep
    ok = rep["ok"]
    if "unsupported" in ok:
        return {"unsupported": ok["unsupported"]}
    return ok.get("shape", ok)


def suite_shapes_canonical(ctx: Ctx, drv, twins):
    requests, meta = [], []
    for tw in twins:
        for kind in KINDS:
            requests.append({"op": "shape_of_kind", "kind": kind, "model": lean_model(tw.lm)})
            meta.append((tw, kind))
    replies = drv.batch(requests) if drv else [None] * len(requests)
    n = d = 0
    for (tw, kind), rep in zip(meta, replies):
        if kind in tw.cls:
            real = real_shape_of_class(kind, tw.cls[kind], tw.nested_names(kind))
        else:
            real = {"unsupported": "declaration"}
        nfields = len(tw.lm["fields"])
        has_default = any(fdefault(f)["k"] != "none" for f in tw.lm["fields"])
        case = {"suite": "shape-canonical", "kind": kind, "model": tw.lm}
        ctx.note_case(case, nontrivial=kind in tw.cls and (nfields >= 2 or has_default), kind=f"shape-{kind}-" + (
            "declared" if kind in tw.cls else "undeclarable"))
        if "crash" in real:
            ctx.fail(f"introspector-crash:{kind}:{real['crash']}",
                     f"get_{kind}_shape raises {real['crash']} ({real['msg']}) on a class every other kind handles", case)
        if rep is None:
            continue
        n += 1
        model = strip_model_reply(rep)
        ok = model == real
        if ok and "ok" in rep and "decl" in rep["ok"]:
            ok = norm_decl(rep["ok"]["decl"]) == norm_decl(tw.decl[kind])     # `declOf` == the harness' canonical declaration
            if not ok:
                real, model = norm_decl(tw.decl[kind]), norm_decl(rep["ok"]["decl"])
        if not ok:
            d += 1
            ctx.disagree("shape-canonical", case, real, model if model is not None else rep)
        ctx.sample({"suite": "shape-canonical", "kind": kind, "model": tw.lm, "real": real}, every=397)
    if drv:
        ctx.suite("shape-canonical", n, d)


# ---- rich declarations --------------------------------------------------------------------------

def gen_rich_decl(rng, kind):
    n = rng.randint(1, 6)
    names = []
    while len(names) < n:
        nm = rng.choice(PLAIN_NAMES + (["_p", "_q", "__r", "_s"] if kind in ("attrs", "typeddict", "dataclass", "namedtuple") and rng.random() < 0.3 else []))
        if nm not in names:
            names.append(nm)
    opts = {}
    fields = []
    scalar_pool = [T_INT, T_STR, T_BOOL, T_FLOAT, T_OPT_INT, T_LIST_INT, T_DICT]
    for nm in names:
        ty = rng.choice(scalar_pool)
        f = {"name": nm, "ty": ty}
        if rng.random() < 0.4:
            f["default"] = gen_default(rng, ty)
        fields.append(f)
    if kind == "dataclass":
        for f in fields:
            r = rng.random()
            if r < 0.1:
                f["pseudo"] = "classvar"
                if fdefault(f)["k"] == "factory":
                    f.pop("default")
            elif r < 0.2:
                f["pseudo"] = "initvar"
                if fdefault(f)["k"] == "factory":
                    f.pop("default")
            elif r < 0.3:
                f["init"] = False
            if rng.random() < 0.25:
                f["kw_only"] = True
    elif kind == "typeddict":
        opts["total"] = rng.random() < 0.6
        for f in fields:
            f.pop("default", None)
            f["req"] = rng.choice(["plain", "plain", "required", "not_required"])
    elif kind == "namedtuple":
        if rng.random() < 0.8:
            fields.sort(key=lambda f: fdefault(f)["k"] != "none")
    elif kind == "attrs":
        for f in fields:
            r = rng.random()
            if r < 0.12:
                f["alias"] = rng.choice(["al_" + f["name"], "zz", "x-y", f["name"].lstrip("_") or "u"])
            if rng.random() < 0.25:
                f["kw_only"] = True
            if rng.random() < 0.1 and fdefault(f)["k"] != "none":
                f["init"] = False
            if rng.random() < 0.1 and f["ty"]["t"] == "int":
                f["default"] = {"k": "factory_self", "f": "self_zero"}
        if rng.random() < 0.7:
            fields.sort(key=lambda f: (bool(f.get("kw_only")), fdefault(f)["k"] != "none"))
    elif kind == "pydantic":
        opts["extra"] = rng.choice(["unset", "unset", "ignore", "forbid", "allow"])
        opts["populate_by_name"] = rng.random() < 0.3
        for f in fields:
            r = rng.random()
            if r < 0.12:
                f["cat"] = "computed"
                f["default"] = gen_default(rng, f["ty"]) if f["ty"]["t"] not in ("list", "dict") else D_value(None)
            elif r < 0.3:
                f["cat"] = "private"
                f["name"] = "_" + f["name"]
            elif r < 0.45:
                f["alias"] = rng.choice(["al_" + f["name"], "x-y " + f["name"], "1a" + f["name"], "ok_" + f["name"]])
    elif kind == "sqlalchemy":
        r = rng.random()
        pk_idx = [] if r < 0.03 else (rng.sample(range(n), 2) if (r < 0.12 and n >= 2) else [rng.randrange(n)])
        one_true = False
        for i, f in enumerate(fields):
            f["pk"] = i in pk_idx
            if f["pk"] and rng.random() < 0.35:
                f["autoinc"] = rng.choice(["true", "false", "false"])
                if f["autoinc"] == "true":
                    if one_true:
                        f["autoinc"] = "false"
                    one_true = True
            elif not f["pk"] and rng.random() < 0.05:
                f["autoinc"] = "false"
            if rng.random() < 0.2:
                f["nullable"] = rng.choice(["true", "false"])
            if rng.random() < 0.1:
                f["server_default"] = True
            if rng.random() < 0.08:
                f["ctx_default"] = True
        has_rel = rng.random() < 0.25
        if has_rel or rng.random() < 0.1:
            fields.append({"name": "target_id", "ty": rng.choice([T_INT, T_OPT_INT]), "fk": True, "pk": False})
        if has_rel:
            fields.append({"name": "rel_one" if rng.random() < 0.5 else "rel_many", "ty": T("model", name="Target"), "pk": False})
            fields[-1]["rel"] = "one" if fields[-1]["name"] == "rel_one" else "many"
            if rng.random() < 0.5:   # relationships are reported after all columns wherever they are declared
                fields.insert(rng.randrange(len(fields)), fields.pop())
    return {"kind": kind, "opts": opts, "fields": fields}


def suite_shapes_rich(ctx: Ctx, drv, n_per_kind):
    decls = [gen_rich_decl(ctx.rng, kind) for kind in KINDS for _ in range(n_per_kind)]
    replies = drv.batch([{"op": "shape_of_decl", "decl": d} for d in decls]) if drv else [None] * len(decls)
    n = dis = 0
    for decl, rep in zip(decls, replies):
        kind = decl["kind"]
        real, why = classify_real(kind, lambda: (build_class(decl), {}))
        case = {"suite": "shape-rich", "decl": decl}
        neutral = {"kw_only": False, "init": True, "pseudo": "none", "alias": None, "req": "plain", "cat": "regular",
                   "pk": False, "autoinc": "auto", "nullable": "unset", "fk": False, "server_default": False,
                   "ctx_default": False, "rel": "none"}
        extras = sorted({k for f in decl["fields"] for k, v in f.items() if k in neutral and v != neutral[k]})
        ctx.note_case(case, nontrivial="input" in real, kind=f"rich-{kind}-" + ("shape" if "input" in real else "refused"))
        for e in extras:
            ctx.dist[f"extra-{kind}-{e}"] += 1
        if "crash" in real:
            ctx.fail(f"introspector-crash:{kind}:{real['crash']}", f"get_{kind}_shape raises {real['crash']} ({real['msg']})", case)
        if rep is None:
            continue
        n += 1
        model = strip_model_reply(rep)
        if model != real:
            dis += 1
            ctx.disagree("shape-rich", dict(case, real_refusal=why), real, model if model is not None else rep)
        ctx.sample({"suite": "shape-rich", "decl": decl, "real": real}, every=499)
    if drv:
        ctx.suite("shape-rich", n, dis)


# ---- twins -----------------------------------------------------------------------------------------

def nm_rows(ms, lm, out):
    f = key_out if out else key_in
    return [[fl["name"], f(ms, fl["name"])] for fl in lm["fields"]]


def reference_kind(tw):
    for k in PLAIN_KINDS:
        if k in tw.cls:
            return k
    return None


def twin_load_cases(ctx: Ctx, real: RealSide, tw, n_mappings, n_inputs, requests, meta):
    lm = tw.lm
    ref_kind = reference_kind(tw)
    mappings = [DEFAULT_MS] + [gen_mapping(ctx.rng, lm) for _ in range(n_mappings)]
    for ms in mappings:
        inputs = gen_inputs(ctx.rng, lm, ms, n_inputs)
        retorts = {}
        for kind in tw.kinds():
            retorts[kind] = real.Retort(recipe=[mapping_provider(tw.cls[kind], ms)]) if ms is not DEFAULT_MS else real.plain
        for tag, data in inputs:
            outs = {}
            for kind in tw.kinds():
                outs[kind] = real.load(retorts[kind], kind, tw.cls[kind], lm, data)
                ctx.dist[f"load-{tag}-{outs[kind]['r']}"] += 1
            case = {"suite": "twins-load", "model": lm, "mapping": ms, "data": data}
            ctx.note_case(case, nontrivial=isinstance(data, dict) and len(tw.kinds()) >= 2, kind=f"load-{tag}")
            if ref_kind is not None:
                for kind in tw.kinds():
                    if kind != ref_kind:
                        compare_load(ctx, ref_kind, outs[ref_kind], kind, outs[kind], limitation_tags(kind, lm), ms, data,
                                     dict(case, kinds=[ref_kind, kind]))
            else:
                ctx.dist["load-no-reference-kind"] += 1
            if requests is None:
                continue
            for kind in tw.kinds():
                leaf = []
                if isinstance(data, dict):
                    seen = set()
                    for f in lm["fields"]:
                        k = key_in(ms, f["name"])
                        if k is not None and k in data:
                            dt = jtext(data[k])
                            if (jtext(f["ty"]), dt) in seen:
                                continue
                            seen.add((jtext(f["ty"]), dt))
                            leaf.append([f["ty"], dt, real.leaf_load(retorts[kind], f["ty"], py_type(f["ty"], tw.nested_cls[kind]),
                                                                     data[k], kind, lm)])
                requests.append({
                    "op": "load_model", "kind": kind, "model": lean_model(lm), "nm": nm_rows(ms, lm, out=False),
                    "input": [[k, jtext(v)] for k, v in data.items()] if isinstance(data, dict) else None, "leaf": leaf,
                })
                meta.append(("twins-load", dict(case, kind=kind), outs[kind]))
            ctx.sample({"suite": "twins-load", "model": lm, "mapping": ms, "data": data, "real": outs}, every=1201)


def twin_dump_cases(ctx: Ctx, real: RealSide, tw, n_mappings, n_objects, requests, meta):
    lm = tw.lm
    ref_kind = reference_kind(tw)
    mappings = [DEFAULT_MS] + [gen_mapping(ctx.rng, lm) for _ in range(n_mappings)]
    for ms in mappings:
        retorts = {}
        for kind in tw.kinds():
            retorts[kind] = real.Retort(recipe=[mapping_provider(tw.cls[kind], ms)]) if ms is not DEFAULT_MS else real.plain
        for _ in range(n_objects):
            # field-wise equal objects: the same values; defaults are hit on purpose so omit_default matters
            values = {}
            for f in lm["fields"]:
                d = fdefault(f)
                if d["k"] == "value" and ctx.rng.random() < 0.5:
                    values[f["name"]] = scalar_of_json(d["v"])
                elif d["k"] == "factory" and ctx.rng.random() < 0.5:
                    values[f["name"]] = FACTORIES[d["f"]]()
                else:
                    values[f["name"]] = gen_value(ctx.rng, f["ty"], lm)
            outs = {}
            objs = {}
            for kind in tw.kinds():
                objs[kind] = construct(kind, tw.cls[kind], lm, {f["name"]: to_py_value(f["ty"], values[f["name"]], kind, tw)
                                                                for f in lm["fields"]})
                outs[kind] = real.dump(retorts[kind], tw.cls[kind], objs[kind])
                ctx.dist[f"dump-{outs[kind]['r']}"] += 1
            case = {"suite": "twins-dump", "model": lm, "mapping": ms, "values": values}
            ctx.note_case(case, nontrivial=len(tw.kinds()) >= 2, kind="dump" + ("-omit" if ms["omit_default"] else ""))
            if ref_kind is not None:
                for kind in tw.kinds():
                    if kind != ref_kind:
                        compare_dump(ctx, ref_kind, outs[ref_kind], kind, outs[kind], limitation_tags(kind, lm), ms, lm,
                                     dict(case, kinds=[ref_kind, kind]))
            if requests is None:
                continue
            for kind in tw.kinds():
                leaf, obj_rows = [], []
                for f in lm["fields"]:
                    v = get_field(kind, objs[kind], f["name"])
                    vt = jtext(view(f["ty"], v, kind, lm))
                    obj_rows.append([f["name"], vt])
                    dumped = real.plain.get_dumper(py_type(f["ty"], tw.nested_cls[kind]))(v) if ms is DEFAULT_MS else \
                        retorts[kind].get_dumper(py_type(f["ty"], tw.nested_cls[kind]))(v)
                    leaf.append([f["ty"], vt, jtext(dumped)])
                requests.append({
                    "op": "dump_model", "kind": kind, "model": lean_model(lm), "nm": nm_rows(ms, lm, out=True),
                    "omit": [f["name"] for f in lm["fields"]] if ms["omit_default"] else [], "object": obj_rows, "leaf": leaf,
                })
                meta.append(("twins-dump", dict(case, kind=kind), outs[kind]))
            ctx.sample({"suite": "twins-dump", "model": lm, "mapping": ms, "values": values, "real": outs}, every=809)


def twin_aslist_cases(ctx: Ctx, real: RealSide, tw, requests, meta):
    """name_mapping(as_list=True): the one place where the order of the shape's fields is observable"""
    lm = tw.lm
    if any(fdefault(f)["k"] != "none" or f["name"].startswith("_") for f in lm["fields"]):
        return
    values = {f["name"]: gen_value(ctx.rng, f["ty"], lm) for f in lm["fields"]}
    outs = {}
    case = {"suite": "twins-aslist", "model": lm, "values": values}
    for kind in tw.kinds():
        retort = real.Retort(recipe=[mapping_provider(tw.cls[kind], DEFAULT_MS, as_list=True)])
        obj = construct(kind, tw.cls[kind], lm, {f["name"]: to_py_value(f["ty"], values[f["name"]], kind, tw) for f in lm["fields"]})
        outs[kind] = real.dump(retort, tw.cls[kind], obj)
        if requests is not None:
            leaf, obj_rows = [], []
            for f in lm["fields"]:
                v = get_field(kind, obj, f["name"])
                vt = jtext(view(f["ty"], v, kind, lm))
                obj_rows.append([f["name"], vt])
                leaf.append([f["ty"], vt, jtext(real.plain.get_dumper(py_type(f["ty"], tw.nested_cls[kind]))(v))])
            requests.append({"op": "dump_as_list", "kind": kind, "model": lean_model(lm), "object": obj_rows, "leaf": leaf})
            meta.append(("twins-aslist", dict(case, kind=kind), outs[kind]))
    ctx.note_case(case, nontrivial=len(lm["fields"]) >= 2, kind="aslist")
    ref_kind = reference_kind(tw)
    if ref_kind is None:
        return
    for kind in tw.kinds():
        if kind == ref_kind or kind == "sqlalchemy":     # documented: SQLAlchemy does not register the order of mapped fields
            if kind == "sqlalchemy" and not documented("sa-order"):
                ctx.fail("undocumented-limitation:sa-order", "SQLAlchemy field order is not documented as unspecified", dict(case, tag="sa-order"))
            continue
        a, b = outs[ref_kind], outs[kind]
        if a == b:
            continue
        names = [f["name"] for f in lm["fields"]]
        if (kind == "typeddict" and a["r"] == "ok" and b["r"] == "ok" and names != sorted(names)
                and b["data"] == [a["data"][names.index(n)] for n in sorted(names)]):
            license_tags(ctx, {"td-sorted-order"}, dict(case, kinds=[ref_kind, kind]), "as_list dumps differ: TypedDict fields come sorted by name")
            continue
        ctx.fail(f"aslist:{ref_kind}-vs-{kind}", f"as_list dump: {ref_kind} {a}, {kind} {b}", dict(case, kinds=[ref_kind, kind]))


def twin_convert_cases(ctx: Ctx, real: RealSide, tw, requests, meta, max_pairs=None):
    from adaptix.conversion import get_converter
    lm = tw.lm
    kinds = tw.kinds()
    pairs = [(s, d) for s in kinds for d in kinds if s != d]
    if max_pairs is not None and len(pairs) > max_pairs:
        pairs = ctx.rng.sample(pairs, max_pairs)
    runs = [{f["name"]: gen_value(ctx.rng, f["ty"], lm) for f in lm["fields"]} for _ in range(2)]
    for src, dst in pairs:
        case = {"suite": "link", "model": lm, "kinds": [src, dst], "values": runs}
        ctx.note_case(case, nontrivial=len(lm["fields"]) >= 2, kind="convert")
        try:
            conv = get_converter(tw.cls[src], tw.cls[dst])
        except Exception as e:
            ctx.dist["convert-refused"] += 1
            ctx.fail(f"convert:{src}->{dst}:no-converter", f"get_converter({src}, {dst}) of the same logical model fails: "
                     f"{type(e).__name__}: {str(e)[:200]}", case)
            continue
        copied = {f["name"]: True for f in lm["fields"]}
        failed = None
        for values in runs:
            obj = construct(src, tw.cls[src], lm, {f["name"]: to_py_value(f["ty"], values[f["name"]], src, tw) for f in lm["fields"]})
            try:
                res = conv(obj)
            except Exception as e:
                failed = f"{type(e).__name__}: {str(e)[:200]}"
                break
            sv, dv = dict(object_view(src, lm, obj)), dict(object_view(dst, lm, res))
            for n in copied:
                if sv[n] != dv[n]:
                    copied[n] = False
        if failed:
            ctx.fail(f"convert:{src}->{dst}:raises", f"converter {src}->{dst} raises {failed}", case)
            continue
        not_copied = [n for n, ok in copied.items() if not ok]
        ctx.dist["convert-ok" if not not_copied else "convert-partial"] += 1
        if not_copied:
            ctx.fail(f"convert:{src}->{dst}:not-copied", f"converter {src}->{dst} does not copy fields {not_copied}", case)
        if requests is not None:
            requests.append({"op": "link", "src": src, "dst": dst, "model": lean_model(lm)})
            meta.append(("link", case, sorted([n, n if ok else None] for n, ok in copied.items())))


# ---- conversion twins: the source lacks / adds fields ---------------------------------------------
#
# Property text: "Converters between any two kinds of the same logical model copy every field."  The
# destination kinds differ in exactly one thing the converter reads: the parameter list (positional-or-keyword
# for dataclass / NamedTuple / attrs — attrs under the init alias —, keyword-only for TypedDict / pydantic /
# SQLAlchemy).  It only matters when the generated constructor call leaves a parameter out, i.e. when the
# source lacks an optional destination field.  So the source here is a *sub-/super-model* of the destination.

SOURCE_ONLY_NAMES = ["s_only", "src_extra", "zz9"]
POSKW_KINDS = ("dataclass", "namedtuple", "attrs")


def source_model(lm, dropped, extras):
    """the destination's logical model without `dropped`, plus source-only fields (required ones first,
    defaulted ones last, so the positional kinds still accept the declaration)"""
    fields = [dict(f) for f in lm["fields"] if f["name"] not in dropped]
    front = [e for e in extras if fdefault(e)["k"] == "none"]
    back = [e for e in extras if fdefault(e)["k"] != "none"]
    src = {"fields": front + fields + back}
    if any(f["ty"]["t"] == "model" for f in src["fields"]) and lm.get("nested"):
        src["nested"] = lm["nested"]
    return src


def gen_source_variant(rng, lm):
    """(source model, policy) for the destination model `lm`"""
    optional = [f["name"] for f in lm["fields"] if fdefault(f)["k"] != "none"]
    required = [f["name"] for f in lm["fields"] if fdefault(f)["k"] == "none"]
    dropped = []
    r = rng.random()
    if optional and r < 0.72:
        dropped = [n for n in optional if rng.random() < 0.5] or [rng.choice(optional)]
    elif required and r < 0.82:
        dropped = [rng.choice(required)] + [n for n in optional if rng.random() < 0.3]
    extras = []
    if rng.random() < 0.3:
        taken = {f["name"] for f in lm["fields"]}
        for nm in rng.sample(SOURCE_ONLY_NAMES, rng.randint(1, 2)):
            if nm in taken:
                continue
            ty = rng.choice([T_INT, T_STR, T_OPT_INT, T_LIST_INT])
            e = {"name": nm, "ty": ty}
            if rng.random() < 0.5:
                e["default"] = gen_default(rng, ty)
            extras.append(e)
    dropped_optional = [n for n in dropped if n in optional]
    r = rng.random()
    if not dropped:
        allow = rng.choice([None, "any"])
    elif r < 0.5:
        allow = list(dropped_optional)
    elif r < 0.8:
        allow = "any"
    elif r < 0.9 and len(dropped_optional) >= 2:
        allow = rng.sample(dropped_optional, len(dropped_optional) - 1)      # one unlinked field stays forbidden
    else:
        allow = None                                                         # the retort's default: forbid
    return source_model(lm, dropped, extras), {"allow": allow}


def all_position_variants(lm):
    """every subset of the optional destination fields missing from the source (all positions), allowed by name"""
    optional = [f["name"] for f in lm["fields"] if fdefault(f)["k"] != "none"]
    out = []
    for mask in range(1, 2 ** len(optional)):
        dropped = [n for i, n in enumerate(optional) if mask >> i & 1]
        out.append((source_model(lm, dropped, []), {"allow": dropped if mask % 2 else "any"}))
    return out


def conversion_corner_models():
    """deterministic destinations whose optional fields are dropped in *every* combination on every run"""
    return [
        {"fields": [{"name": "x", "ty": T_INT}, {"name": "p", "ty": T_STR, "default": D_value("dflt")},
                    {"name": "q", "ty": T_OPT_INT, "default": D_value(None)}, {"name": "r", "ty": T_FLOAT, "default": D_value(1.5)}]},
        {"fields": [{"name": "x", "ty": T_STR}, {"name": "tags", "ty": T_LIST_INT, "default": D_factory("fn_list")},
                    {"name": "_p", "ty": T_STR, "default": D_value("x"), "kw_only": True},
                    {"name": "from_", "ty": T_INT, "default": D_value(42)}]},
        {"fields": [{"name": "m", "ty": T_INT, "default": D_value(1)}, {"name": "n", "ty": T_INT, "default": D_value(-5)},
                    {"name": "k", "ty": T_BOOL, "kw_only": True}]},
    ]


def policy_recipe(policy):
    from adaptix import P
    from adaptix.conversion import allow_unlinked_optional
    allow = policy["allow"]
    if allow is None:
        return []
    if allow == "any":
        return [allow_unlinked_optional(P.ANY)]
    return [allow_unlinked_optional(*allow)] if allow else []


def policy_allows(policy, name):
    allow = policy["allow"]
    return allow == "any" or (isinstance(allow, list) and name in allow)


def default_view(f, kind, lm):
    d = fdefault(f)
    v = scalar_of_json(d["v"]) if d["k"] == "value" else FACTORIES[d["f"]]()
    return jtext(view(f["ty"], v, kind, lm))


def expected_convert(dst_kind, dst_lm, src_names, policy, src_views):
    """The field-wise specification of a converter, per destination kind (Python only, no Lean):
    a destination field the source has receives the source's value; one it lacks must be optional and allowed
    (else: no converter) and is then left to the kind's constructor — the declared default (dataclass /
    NamedTuple / attrs / pydantic), an absent key (TypedDict), None until flush (SQLAlchemy).
    Returns (expected outcome, limitation tags the expectation relies on)."""
    tags = limitation_tags(dst_kind, dst_lm)
    used = set()
    refused = False
    for f in dst_lm["fields"]:
        n = f["name"]
        if n in src_names:
            continue
        optional = fdefault(f)["k"] != "none"
        if not optional and tags.get(n) in ("sa-nullable-optional", "sa-autoinc-optional") and policy_allows(policy, n):
            optional = True
            used.add(tags[n])
        if not optional or not policy_allows(policy, n):
            refused = True
    if refused:
        return {"r": "no_converter"}, set()
    objects = []
    for sv in src_views:
        row = []
        for f in dst_lm["fields"]:
            n = f["name"]
            if n in src_names:
                row.append([n, sv[n]])
            elif dst_kind == "typeddict":
                row.append([n, None])                  # td-no-default: the key is simply absent
            elif dst_kind == "sqlalchemy":
                row.append([n, "null"])                # sa-deferred-default / optional column: None until flush
            else:
                row.append([n, default_view(f, dst_kind, dst_lm)])
        objects.append(row)
    return {"r": "ok", "objects": objects}, used


def real_convert(real: RealSide, src_cls, dst_kind, dst_cls, dst_lm, policy, objs):
    from adaptix.conversion import get_converter
    try:
        conv = get_converter(src_cls, dst_cls, recipe=policy_recipe(policy))
    except real.ProviderNotFoundError:
        return {"r": "no_converter"}
    except Exception as e:
        return {"r": "exception", "cls": type(e).__name__, "msg": "get_converter: " + str(e)[:160]}
    outs = []
    for obj in objs:
        try:
            res = conv(obj)
        except Exception as e:
            return {"r": "call_error", "cls": type(e).__name__, "msg": str(e)[:160]}
        outs.append(object_view(dst_kind, dst_lm, res))
    return {"r": "ok", "objects": outs}


def gap_class(dst_lm, src_names):
    """where the unlinked destination fields sit relative to the linked ones (declaration order)"""
    linked = [f["name"] in src_names for f in dst_lm["fields"]]
    if all(linked):
        return "all-linked"
    first_gap = linked.index(False)
    return "gap-before-linked" if any(linked[first_gap + 1:]) else "gap-at-tail"


def compare_convert(ctx: Ctx, src_kind, dst_kind, out, expected, used, case, agreeing=None):
    sig = f"convert-sub:{src_kind}->{dst_kind}"
    if out["r"] in ("exception", "call_error"):
        ctx.fail(sig + ":raises", f"converter {src_kind}->{dst_kind} into a destination with fields the source lacks: "
                 f"{out['r']} {out['cls']}: {out['msg']}", case)
        return
    if out["r"] != expected["r"]:
        ctx.fail(sig + ":refusal", f"get_converter({src_kind} source, {dst_kind} destination): real {out['r']}, the field-wise "
                 f"specification (unlinked fields must be optional and allowed) gives {expected['r']}", case)
        return
    if out["r"] == "ok":
        for run, (got, exp) in enumerate(zip(out["objects"], expected["objects"])):
            for (n, gv), (_, ev) in zip(got, exp):
                if gv != ev:
                    ctx.fail(sig + ":field-value",
                             f"converter {src_kind}->{dst_kind}: destination field {n!r} holds {gv}, the field-wise specification "
                             f"(the source's value for a field the source has, else what the kind's constructor does with an "
                             f"argument that is not passed) gives {ev}; whole object {got}"
                             + (f"; destination kinds that follow the specification on this case: {agreeing}" if agreeing else ""),
                             dict(case, run=run))
                    return
    license_tags(ctx, used, case, f"converter {src_kind}->{dst_kind} exists although the source lacks a logically required field")


def convert_sub_cases(ctx: Ctx, real: RealSide, tw, variants, n_src_kinds, requests, meta, only_pair=None):
    lm = tw.lm
    for src_lm, policy in variants:
        stw = Twin(src_lm)
        if not stw.kinds() or not tw.kinds():
            continue
        src_names = {f["name"] for f in src_lm["fields"]}
        gap = gap_class(lm, src_names)
        runs = [{f["name"]: gen_value(ctx.rng, f["ty"], src_lm) for f in src_lm["fields"]} for _ in range(2)]
        if only_pair is not None:
            src_kinds = [only_pair[0]] if only_pair[0] in stw.cls else []
        else:
            src_kinds = ctx.rng.sample(stw.kinds(), min(n_src_kinds, len(stw.kinds())))
        ptag = "forbid" if policy["allow"] is None else ("any" if policy["allow"] == "any" else "named")
        for src_kind in src_kinds:
            objs = [construct(src_kind, stw.cls[src_kind], src_lm,
                              {f["name"]: to_py_value(f["ty"], values[f["name"]], src_kind, stw) for f in src_lm["fields"]})
                    for values in runs]
            src_views = [dict(object_view(src_kind, src_lm, o)) for o in objs]
            dst_kinds = [k for k in tw.kinds() if only_pair is None or k == only_pair[1]]
            results = {}
            for dst_kind in dst_kinds:
                out = real_convert(real, stw.cls[src_kind], dst_kind, tw.cls[dst_kind], lm, policy, objs)
                expected, used = expected_convert(dst_kind, lm, src_names, policy, src_views)
                results[dst_kind] = (out, expected, used)
            agreeing = [k for k, (out, expected, _) in results.items() if out == expected]
            for dst_kind, (out, expected, used) in results.items():
                case = {"suite": "convert-sub", "model": lm, "src_model": src_lm, "policy": policy,
                        "kinds": [src_kind, dst_kind], "values": runs}
                region = gap + ("-poskw" if dst_kind in POSKW_KINDS else "-kwonly") + (
                    "-converted" if out["r"] == "ok" else "-refused" if out["r"] == "no_converter" else "-raises")
                ctx.note_case(case, nontrivial=gap != "all-linked" or len(src_lm["fields"]) != len(lm["fields"]),
                              kind=f"convert-sub-{region}")
                ctx.dist[f"convsub-policy-{ptag}-{out['r']}"] += 1
                ctx.dist[f"convsub-dst-{dst_kind}-{out['r']}"] += 1
                compare_convert(ctx, src_kind, dst_kind, out, expected, used, case, agreeing)
                if requests is not None:
                    for run, sv in enumerate(src_views):
                        requests.append({"op": "convert_model", "src_kind": src_kind, "src_model": lean_model(src_lm),
                                         "dst_kind": dst_kind, "dst_model": lean_model(lm), "allow": policy["allow"],
                                         "object": [[n, sv[n]] for n in sv]})
                        meta.append(("convert-sub", dict(case, run=run),
                                     {"r": "ok", "object": out["objects"][run]} if out["r"] == "ok" else out))
                ctx.sample({"suite": "convert-sub", "model": lm, "src_model": src_lm, "policy": policy,
                            "kinds": [src_kind, dst_kind], "real": out}, every=211)


def run_convert_sub(ctx: Ctx, real: RealSide, drv, twins, n_variants, n_src_kinds):
    requests = [] if drv else None
    meta = []
    for lm in conversion_corner_models():
        convert_sub_cases(ctx, real, Twin(lm), all_position_variants(lm), n_src_kinds, requests, meta)
    for tw in twins:
        if not tw.kinds():
            continue
        has_optional = any(fdefault(f)["k"] != "none" for f in tw.lm["fields"])
        variants = [gen_source_variant(ctx.rng, tw.lm) for _ in range(n_variants if has_optional else 1)]
        convert_sub_cases(ctx, real, tw, variants, n_src_kinds, requests, meta)
    if drv:
        compare_replies(ctx, meta, drv.batch(requests))


def compare_replies(ctx: Ctx, meta, replies):
    counts = {}
    for (suite, case, real_out), rep in zip(meta, replies):
        c = counts.setdefault(suite, [0, 0])
        c[0] += 1
        ok = rep.get("ok") if isinstance(rep, dict) else None
        agree = False
        if ok is not None:
            if suite == "twins-load":
                if real_out["r"] == "ok":
                    agree = ok.get("r") == "ok" and ok.get("object") == real_out["object"]
                elif real_out["r"] == "err":
                    agree = (ok.get("r") == "err" and ok["not_mapping"] == real_out["not_mapping"]
                             and ok["missing"] == real_out["missing"] and ok["bad"] == real_out["bad"])
                else:
                    agree = ok.get("r") == real_out["r"]
            elif suite == "twins-dump":
                if real_out["r"] == "ok" and ok.get("r") == "ok" and isinstance(real_out["data"], dict):
                    items = ok["items"]
                    agree = (len({k for k, _ in items}) == len(items)
                             and {k: v for k, v in items} == {k: jtext(v) for k, v in real_out["data"].items()})
            elif suite == "twins-aslist":
                if real_out["r"] == "ok" and ok.get("r") == "ok" and isinstance(real_out["data"], list):
                    agree = ok["items"] == [jtext(v) for v in real_out["data"]]
            elif suite == "link":
                agree = ok.get("r") == "ok" and sorted(ok["links"]) == real_out
            elif suite == "convert-sub":
                if real_out["r"] == "ok":
                    agree = ok.get("r") == "ok" and ok.get("object") == real_out["object"]
                else:
                    agree = ok.get("r") == real_out["r"]
        if not agree:
            c[1] += 1
            ctx.disagree(suite, case, real_out, rep)
    for suite, (n, d) in counts.items():
        ctx.suite(suite, n, d)


def run_twins(ctx: Ctx, real: RealSide, drv, twins, n_mappings, n_inputs, n_objects, max_pairs):
    requests = [] if drv else None
    meta = []
    for tw in twins:
        if not tw.kinds():
            continue
        twin_load_cases(ctx, real, tw, n_mappings, n_inputs, requests, meta)
        twin_dump_cases(ctx, real, tw, n_mappings, n_objects, requests, meta)
        twin_aslist_cases(ctx, real, tw, requests, meta)
        twin_convert_cases(ctx, real, tw, requests, meta, max_pairs=max_pairs)
    if drv:
        compare_replies(ctx, meta, drv.batch(requests))


def corner_models():
    """deterministic models every run sees (the witnesses of the theorems' side conditions)"""
    lst = [
        {"fields": [{"name": "b", "ty": T_STR}, {"name": "a", "ty": T_INT}]},                                  # TypedDict order
        {"fields": [{"name": "a", "ty": T_INT}, {"name": "b", "ty": T_OPT_INT}]},                              # SA autoincrement + nullable
        {"fields": [{"name": "a", "ty": T_STR}, {"name": "c", "ty": T_DICT, "default": D_factory("dict")},
                    {"name": "l", "ty": T_LIST_INT, "default": D_factory("list")}]},                            # builtin factories
        {"fields": [{"name": "a", "ty": T_STR}, {"name": "d", "ty": T_OPT_INT, "default": D_value(None)},
                    {"name": "z", "ty": T_INT, "default": D_value(0)}, {"name": "s", "ty": T_STR, "default": D_value("")}]},
        {"fields": [{"name": "_p", "ty": T_INT}, {"name": "q_", "ty": T_STR, "default": D_value("x")}]},        # private + trailing underscore
        {"fields": [{"name": "a", "ty": T_INT, "default": D_value(1)}, {"name": "k", "ty": T_STR, "kw_only": True}]},
        {"fields": [{"name": "n", "ty": T("model", name="N")}, {"name": "f", "ty": T_FLOAT, "default": D_value(1.5)}],
         "nested": {"N": {"fields": [{"name": "nu", "ty": T_INT}, {"name": "nv", "ty": T_STR}]}}},
    ]
    return lst


def run(ctx: Ctx):
    real = RealSide()
    drv = None
    if ctx.driver_ok:
        try:
            drv = Driver("drv_c17")
        except InfraError:
            drv = None
    n_models = ctx.budget(130, 1500)
    lms = corner_models() + [gen_logical(ctx.rng) for _ in range(n_models)]
    twins = [Twin(lm) for lm in lms]
    for tw in twins:
        for kind in KINDS:
            ctx.dist[f"twin-{kind}-" + ("declared" if kind in tw.cls else "undeclarable")] += 1
    suite_shapes_canonical(ctx, drv, twins)
    suite_shapes_rich(ctx, drv, ctx.budget(150, 2500))
    run_twins(ctx, real, drv, twins, n_mappings=ctx.budget(2, 3), n_inputs=ctx.budget(5, 8), n_objects=2,
              max_pairs=ctx.budget(8, 30))
    # ~4.5 ms per generated converter: quick ≈ 2 600 converters, thorough ≈ 10 000
    run_convert_sub(ctx, real, drv, twins[:ctx.budget(len(twins), 600)], n_variants=2, n_src_kinds=2)
    # container-valued defaults in every spelling a kind offers (value / factory), real code only
    c17_defaults.value_default_suite(ctx, ctx.budget(72, 1440))
    ctx.extra["documented_limitations"] = {tag: documented(tag) for tag in DOC_ANCHORS}
    ctx.extra["exhaustive"] = False


def search(ctx: Ctx):
    """Directed search after a broken tie: the oracle on the disagreeing models first, then a larger budget."""
    real = RealSide()
    seen = []
    for d in ctx.disagreements[:100]:
        lm = d["case"].get("model")
        if lm is not None and lm not in seen:
            seen.append(lm)
    twins = [Twin(lm) for lm in seen]
    for tw in twins:
        for kind in tw.kinds():
            rs = real_shape_of_class(kind, tw.cls[kind], tw.nested_names(kind))
            if "crash" in rs:
                ctx.fail(f"introspector-crash:{kind}:{rs['crash']}", f"get_{kind}_shape raises {rs['crash']} ({rs['msg']})",
                         {"suite": "shape-canonical", "kind": kind, "model": tw.lm})
    run_twins(ctx, real, None, twins, 4, 10, 3, None)
    if not ctx.failures:
        for d in ctx.disagreements[:100]:
            c = d["case"]
            if c.get("suite") == "convert-sub":
                convert_sub_cases(ctx, real, Twin(c["model"]), [(c["src_model"], c["policy"])], 6, None, [])
        if not ctx.failures:
            run_convert_sub(ctx, real, None, twins, 4, 6)
    if not ctx.failures:
        more = [Twin(gen_logical(ctx.rng)) for _ in range(600)]
        run_twins(ctx, real, None, more, 2, 6, 2, 10)
        if not ctx.failures:
            run_convert_sub(ctx, real, None, more, 2, 2)
    if not ctx.failures:
        c17_defaults.value_default_suite(ctx, 1440, stop_on_failure=True)
    if not ctx.failures:
        # rich declarations: a shape the model does not predict is not a violation by itself; look for an
        # observable difference by loading/dumping a dataclass twin of the same field list
        for d in ctx.disagreements[:50]:
            decl = d["case"].get("decl")
            if decl is None:
                continue
            try:
                rs = real_shape_of_class(decl["kind"], build_class(decl))
            except Undeclarable:
                continue
            if "crash" in rs:
                ctx.fail(f"introspector-crash:{decl['kind']}:{rs['crash']}", f"get_{decl['kind']}_shape raises {rs['crash']}", d["case"])


def replay(ctx: Ctx, case) -> bool:
    real = RealSide()
    before = len(ctx.failures)
    suite = case.get("suite")
    if suite == "value-defaults":
        return c17_defaults.replay(ctx, case)
    if suite == "shape-canonical":
        tw = Twin(case["model"])
        kind = case["kind"]
        if kind in tw.cls:
            rs = real_shape_of_class(kind, tw.cls[kind], tw.nested_names(kind))
            if "crash" in rs:
                ctx.fail("introspector-crash", str(rs), case)
    elif suite == "shape-rich":
        try:
            rs = real_shape_of_class(case["decl"]["kind"], build_class(case["decl"]))
            if "crash" in rs:
                ctx.fail("introspector-crash", str(rs), case)
        except Undeclarable:
            pass
    elif suite == "convert-sub":
        tw = Twin(case["model"])
        stw = Twin(case["src_model"])
        src_kind, dst_kind = case["kinds"]
        if src_kind in stw.cls and dst_kind in tw.cls:
            src_lm, lm = case["src_model"], case["model"]
            objs = [construct(src_kind, stw.cls[src_kind], src_lm,
                              {f["name"]: to_py_value(f["ty"], values[f["name"]], src_kind, stw) for f in src_lm["fields"]})
                    for values in case["values"]]
            src_views = [dict(object_view(src_kind, src_lm, o)) for o in objs]
            out = real_convert(real, stw.cls[src_kind], dst_kind, tw.cls[dst_kind], lm, case["policy"], objs)
            expected, used = expected_convert(dst_kind, lm, {f["name"] for f in src_lm["fields"]}, case["policy"], src_views)
            compare_convert(ctx, src_kind, dst_kind, out, expected, used, case)
    elif suite in ("twins-load", "twins-dump", "twins-aslist", "link"):
        tw = Twin(case["model"])
        lm = tw.lm
        kinds = [k for k in case.get("kinds", tw.kinds()) if k in tw.cls]
        if suite == "twins-load" and len(kinds) == 2:
            ms = case["mapping"]
            outs = {}
            for kind in kinds:
                retort = real.Retort(recipe=[mapping_provider(tw.cls[kind], ms)])
                outs[kind] = real.load(retort, kind, tw.cls[kind], lm, case["data"])
            compare_load(ctx, kinds[0], outs[kinds[0]], kinds[1], outs[kinds[1]], limitation_tags(kinds[1], lm), ms,
                         case["data"], case)
        elif suite == "twins-dump" and len(kinds) == 2:
            ms = case["mapping"]
            outs = {}
            for kind in kinds:
                retort = real.Retort(recipe=[mapping_provider(tw.cls[kind], ms)])
                obj = construct(kind, tw.cls[kind], lm, {f["name"]: to_py_value(f["ty"], case["values"][f["name"]], kind, tw)
                                                         for f in lm["fields"]})
                outs[kind] = real.dump(retort, tw.cls[kind], obj)
            compare_dump(ctx, kinds[0], outs[kinds[0]], kinds[1], outs[kinds[1]], limitation_tags(kinds[1], lm), ms, lm, case)
        elif suite == "twins-aslist":
            state = ctx.rng.getstate()
            twin_aslist_cases(ctx, real, tw, None, [])
            ctx.rng.setstate(state)
        elif suite == "link":
            twin_convert_cases(ctx, real, tw, None, [])
    return len(ctx.failures) > before
