"""C03 — nested models x location-pattern predicates in skip / only / omit_default.

The programs of c03.py request the layout of a TOP-LEVEL model: the location stack the skip / only /
omit_default predicates are evaluated on is always [model, field].  Here the layout of a model is requested
where the library really requests it for nested data: the model is the type of a field of another model
(directly, or as the element of a List / Optional / Dict field, possibly two levels deep), and the three
filters are given as location patterns `P[...]....` of every length, rooted at the outermost model, at an
intermediate owner, at the model itself, at a field, or at a model that does not own it at all.

Oracle (real code only, no Lean): the documented meaning of a pattern ("P[Foo].name[Bar].age matches field age
located at model Bar, situated at field name, placed at model Foo"; a pattern describes the END of the
location stack) is evaluated in Python on the FULL documented location stack of every field of every
occurrence of every model; the truth tables are then handed to the unchanged machinery of c03.py
(`py_effective`, `py_path_of`, `py_crown_from_paths`, `oracle_crown_load`, `py_expected_dump`): a field is
presented iff the documented filter (skip > only) says so, omit_default removes exactly the fields the filter
selects whose value equals the default.
"""

import copy
import dataclasses
from typing import Any, Dict, List, Optional

from harness.core import Ctx, InfraError
from harness.props import c03 as B

LINKS = ["creds", "items", "sub", "child_", "backup"]
OUTER_SCALARS = [("name", "str", {"v": ""}), ("count", "int", {"v": 0}), ("note_", "str", {"v": "s"}),
                 ("flag", "any", {"v": None}), ("size", "int", None), ("label", "str", None)]
WRAPS = ["direct", "direct", "direct", "list", "opt", "dict"]
GARG_POS = {"list": 0, "opt": 0, "dict": 1}


class NoPrescription(Exception):
    """the documented rules give no valid layout for some occurrence (e.g. a required field is filtered out)"""


# ---------------------------------------------------------------------------
# documented location stacks and pattern semantics (oracle side)
# ---------------------------------------------------------------------------

def is_ref(f) -> bool:
    return isinstance(f["type"], dict)


def type_key(tp):
    if isinstance(tp, dict):
        return ["model", tp["ref"]] if tp["wrap"] == "direct" else [tp["wrap"], tp["ref"]]
    return tp


def field_loc(f):
    return {"k": "field", "id": f["id"], "type": type_key(f["type"])}


def below(stack, f):
    """location stack of the model held by the reference field `f` of a model located at `stack`"""
    st = [*stack, field_loc(f)]
    wrap = f["type"]["wrap"]
    if wrap != "direct":
        st.append({"k": "garg", "pos": GARG_POS[wrap], "type": ["model", f["type"]["ref"]]})
    return st


def occurrences(nprog, root):
    """(model name, documented location stack) of every place a model layout is requested when `root` is
    loaded / dumped"""
    out = []

    def walk(model, stack):
        out.append((model, stack))
        for f in nprog["models"][model]["fields"]:
            if is_ref(f):
                walk(f["type"]["ref"], below(stack, f))
    walk(root, [{"k": "type", "type": ["model", root]}])
    return out


def el_holds(el, loc) -> bool:
    if "garg" in el:
        return loc["k"] == "garg" and loc["pos"] == el["garg"] and loc["type"] == ["model", el["model"]]
    if "model" in el:
        return loc["type"] == ["model", el["model"]]
    if "name" in el:
        return loc["k"] == "field" and loc["id"] == el["name"]
    if "names" in el:
        return loc["k"] == "field" and loc["id"] in el["names"]
    if "type" in el:
        return loc["type"] == el["type"]
    if "any" in el:
        return True
    raise KeyError(el)


def lp_holds(lp, stack) -> bool:
    """does the predicate match the location stack?  A pattern of k elements matches the stacks whose last k
    locations satisfy the elements in order; a plain predicate is a pattern of one element."""
    if "pat" in lp:
        els = lp["pat"]
        if len(stack) < len(els):
            return False
        return all(el_holds(e, l) for e, l in zip(els, stack[len(stack) - len(els):]))
    if "not" in lp:
        return not lp_holds(lp["not"], stack)
    if "or" in lp:
        return any(lp_holds(x, stack) for x in lp["or"])
    last = stack[-1]
    if "type" in lp:
        return last["type"] == lp["type"]
    if last["k"] != "field":
        return False
    return B.pred_holds(lp, {"id": last["id"], "type": None})


def lp_max_len(lp) -> int:
    if "pat" in lp:
        return len(lp["pat"])
    if "not" in lp:
        return lp_max_len(lp["not"])
    if "or" in lp:
        return max(lp_max_len(x) for x in lp["or"])
    return 1


def resolve(nprog, model, stack):
    """the occurrence of `model` at `stack` as a program of c03.py: predicates replaced by their truth tables
    on the full location stack of every field"""
    fields = []
    for f in nprog["models"][model]["fields"]:
        g = {"id": f["id"], "type": "any" if is_ref(f) else f["type"], "required": f["required"],
             "default": copy.deepcopy(f["default"]), "out_required": True}
        fields.append(g)
    src = nprog["models"][model]["fields"]

    def table(lps):
        return [{"ids": [f["id"] for f in src if any(lp_holds(lp, [*stack, field_loc(f)]) for lp in lps)]}]

    provs = []
    for p in nprog["providers"]:
        if p["pred"] == "any":
            q = {"pred": "any", "chain": "first"}
        elif p["pred"]["model"] == model:
            q = {"pred": "own", "chain": "first"}
        else:
            continue
        for k in ("skip", "only"):
            if k in p:
                q[k] = table(p[k])
        if "omit_default" in p:
            q["omit_default"] = p["omit_default"] if isinstance(p["omit_default"], bool) else table(p["omit_default"])
        if "extra_in" in p:
            q["extra_in"] = p["extra_in"]
        provs.append(q)
    return {"kind": "dataclass", "fields": fields, "has_parent": False, "providers": provs}


def doc_layout(nprog, model, stack, direction):
    rp = resolve(nprog, model, stack)
    eff = B.py_effective(rp)
    py = B.py_crown_from_paths(rp, eff, direction) if eff is not None else None
    if py is None:
        raise NoPrescription(f"{model}@{len(stack)}:{direction}")
    crown = py[0]
    if crown["t"] != "dict" or any(c["t"] != "field" for _, c in crown["map"]):
        raise NoPrescription("layout is not flat")
    return rp, B.oracle_prog(rp, direction, py[0], py[1])


def decisive(nprog, model, stack) -> int:
    """number of (field, predicate) pairs of the occurrence whose truth on the full stack differs from the truth on
    the stack cut down to [owner, field]: the region where the enclosing locations decide"""
    n = 0
    for f in nprog["models"][model]["fields"]:
        full = [*stack, field_loc(f)]
        for p in nprog["providers"]:
            if p["pred"] != "any" and p["pred"]["model"] != model:
                continue
            for k in ("skip", "only", "omit_default"):
                v = p.get(k)
                if not isinstance(v, list):
                    continue
                for lp in v:
                    if lp_holds(lp, full) != lp_holds(lp, full[-2:]):
                        n += 1
    return n


# ---------------------------------------------------------------------------
# generator
# ---------------------------------------------------------------------------

def order_fields(fields):
    return [f for f in fields if f["default"] is None] + [f for f in fields if f["default"] is not None]


def gen_ref(rng, fid, target, wrap=None):
    wrap = wrap or rng.choice(WRAPS)
    f = {"id": fid, "type": {"ref": target, "wrap": wrap}, "required": True, "default": None}
    if wrap == "opt" and rng.random() < 0.5:
        f["required"], f["default"] = False, {"v": None}
    return f


def gen_scalars(rng, k, taken):
    out = []
    for name, tp, dflt in rng.sample(OUTER_SCALARS, k):
        if name in taken:
            continue
        out.append({"id": name, "type": tp, "required": dflt is None, "default": copy.deepcopy(dflt)})
    return out


def gen_models(rng):
    inner = B.gen_fields(rng, "dataclass", n=rng.choice([2, 3, 3, 4]), p_default=0.65)
    for f in inner:
        if f["default"] is not None and "factory" in f["default"]:
            f["default"] = {"v": rng.choice([None, 0, "d"])}
    models = {"Inner": {"fields": order_fields(inner)}}
    links = rng.sample(LINKS, 3)
    outer = [gen_ref(rng, links[0], "Inner")]
    if rng.random() < 0.4:
        outer.append(gen_ref(rng, links[1], "Inner"))          # the same model behind two fields of one owner
    outer += gen_scalars(rng, rng.choice([0, 1, 2]), set(links))
    models["Outer"] = {"fields": order_fields(outer)}
    other_link = links[0] if rng.random() < 0.6 else links[2]  # a second owner, same or different field name
    models["Other"] = {"fields": order_fields([gen_ref(rng, other_link, "Inner")] + gen_scalars(rng, rng.choice([0, 1]), set(links)))}
    roots = ["Outer", "Other"]
    if rng.random() < 0.45:
        models["Top"] = {"fields": order_fields([gen_ref(rng, "mid", "Outer")] + gen_scalars(rng, rng.choice([0, 1]), set(links)))}
        roots.append("Top")
    # never loaded or dumped: only a root of patterns
    models["Unrel"] = {"fields": [gen_ref(rng, links[0], "Inner", "direct")]}
    return models, roots


def loc_element(rng, loc, prev_field=None):
    """a pattern element satisfied by the location (one of the documented spellings)"""
    if loc["k"] == "type":
        return {"model": loc["type"][1]}
    if loc["k"] == "garg":
        r = rng.random()
        if r < 0.45:
            return {"garg": loc["pos"], "model": loc["type"][1]}
        if r < 0.85:
            return {"model": loc["type"][1]}
        return {"any": True}
    if loc["type"][0] == "model" and rng.random() < 0.3:
        return {"model": loc["type"][1]}                       # P[Owner][Inner].x : the field is named by its type
    return {"name": loc["id"], "attr": rng.random() < 0.6}


def gen_target(rng, fields):
    r = rng.random()
    scal = [f for f in fields if not is_ref(f)] or fields
    if r < 0.55:
        return {"name": rng.choice(scal)["id"], "attr": rng.random() < 0.6}
    if r < 0.85:
        return {"names": sorted({f["id"] for f in rng.sample(scal, min(len(scal), rng.choice([1, 2, 2])))})}
    return {"type": rng.choice(["int", "str"])}


def gen_pattern(rng, nprog, occs, info):
    """a location pattern: a suffix of the full element chain of one occurrence, possibly re-rooted at a model
    that does not own it / sent through a field that does not lead to it"""
    nested = [o for o in occs if len(o[1]) >= 2]
    model, stack = rng.choice(nested if nested and rng.random() < 0.85 else occs)
    fields = nprog["models"][model]["fields"]
    els = [loc_element(rng, loc) for loc in stack] + [gen_target(rng, fields)]
    k = rng.choice([1, 2, 2, 3, 3, 3, 4, 4, 5, 6])
    k = min(k, len(els))
    pat = els[len(els) - k:]
    root_kind = "own-chain"
    r = rng.random()
    model_pos = [i for i, e in enumerate(pat) if "model" in e and "garg" not in e]
    name_pos = [i for i, e in enumerate(pat[:-1]) if "name" in e]
    if r < 0.22 and model_pos:
        i = rng.choice(model_pos)
        wrong = rng.choice([m for m in nprog["models"] if m != pat[i]["model"]])
        pat[i] = {"model": wrong}
        root_kind = "foreign-model"
    elif r < 0.32 and name_pos:
        i = rng.choice(name_pos)
        pat[i] = {"name": rng.choice([x for x in LINKS + ["mid"] if x != pat[i]["name"]]), "attr": True}
        root_kind = "foreign-field"
    elif r < 0.42 and "model" not in pat[0]:
        pat.insert(0, {"model": rng.choice(list(nprog["models"]))})
        root_kind = "re-rooted"
    first = pat[0]
    info[f"nested-pattern-len-{min(len(pat), 6)}"] += 1
    info[f"nested-pattern-root-{'model' if 'model' in first else 'field' if ('name' in first or 'names' in first) else 'other'}"] += 1
    info[f"nested-pattern-{root_kind}"] += 1
    return {"pat": pat}


def gen_lp(rng, nprog, occs, info, negate=0.1):
    r = rng.random()
    if r < 0.12:
        fields = nprog["models"]["Inner"]["fields"]
        lp = rng.choice([{"name": rng.choice(fields)["id"]}, {"type": rng.choice(["int", "str"])}])
    elif r < 0.2:
        lp = {"or": [gen_pattern(rng, nprog, occs, info), gen_pattern(rng, nprog, occs, info)]}
    else:
        lp = gen_pattern(rng, nprog, occs, info)
    if rng.random() < negate:
        lp = {"not": lp}
    return lp


def gen_nested_program(rng, info):
    models, roots = gen_models(rng)
    nprog = {"models": models, "roots": roots, "providers": []}
    occs = [o for r in roots for o in occurrences(nprog, r)]
    n_prov = rng.choice([1, 1, 2, 2, 3])
    for _ in range(n_prov):
        r = rng.random()
        pred = "any" if r < 0.45 else {"model": "Inner"} if r < 0.88 else {"model": "Outer"}
        p = {"pred": pred, "chain": "first"}
        bound_inner = pred != "any"
        for k in rng.sample(["skip", "only", "omit_default"], rng.choice([1, 1, 2, 3])):
            if k == "skip":
                p["skip"] = [gen_lp(rng, nprog, occs, info, negate=0.06) for _ in range(rng.choice([1, 1, 2]))]
            elif k == "only":
                # an unrestricted positive `only` on an unbound provider would hide every field of the owners
                p["only"] = [gen_lp(rng, nprog, occs, info, negate=(0.5 if bound_inner else 0.9))]
                if rng.random() < 0.3:
                    p["only"].append(gen_lp(rng, nprog, occs, info, negate=0.0))
            else:
                p["omit_default"] = rng.choice([True, False]) if rng.random() < 0.25 else \
                    [gen_lp(rng, nprog, occs, info, negate=0.1) for _ in range(rng.choice([1, 1, 2]))]
        if rng.random() < 0.25:
            p["extra_in"] = rng.choice(["forbid", "forbid", "skip"])
        nprog["providers"].append(p)
    return nprog


# ---------------------------------------------------------------------------
# real side
# ---------------------------------------------------------------------------

def build_classes(real: "B.Real", nprog):
    classes = {}

    def py_type(tp):
        if not isinstance(tp, dict):
            return real.py_type[tp]
        cls = classes[tp["ref"]]
        return {"direct": cls, "list": List[cls], "opt": Optional[cls], "dict": Dict[str, cls]}[tp["wrap"]]

    def build(name):
        if name in classes:
            return
        fields = nprog["models"][name]["fields"]
        for f in fields:
            if is_ref(f):
                build(f["type"]["ref"])
        specs = []
        for f in fields:
            kw = {}
            if f["default"] is not None:
                kw["default"] = f["default"]["v"]
            specs.append((f["id"], py_type(f["type"]), dataclasses.field(**kw)))
        classes[name] = dataclasses.make_dataclass(name, specs)
    for name in nprog["models"]:
        build(name)
    return classes


def real_lp(real: "B.Real", classes, lp):
    """the predicate as the user writes it: always a LocStackPattern (so that `~` and `|` are available)"""
    P = real.P
    if "pat" in lp:
        p = P
        for el in lp["pat"]:
            if "garg" in el:
                p = p.generic_arg(el["garg"], classes[el["model"]])
            elif "model" in el:
                p = p[classes[el["model"]]]
            elif "name" in el:
                p = getattr(p, el["name"]) if el.get("attr") else p[el["name"]]
            elif "names" in el:
                p = p[tuple(el["names"])]
            elif "type" in el:
                p = p[{"int": int, "str": str}[el["type"]]]
            else:
                p = p[P.ANY]
        return p
    if "not" in lp:
        return ~real_lp(real, classes, lp["not"])
    if "or" in lp:
        a, b = (real_lp(real, classes, x) for x in lp["or"])
        return a | b
    return P[real.real_pred(lp)]


def real_recipe(real: "B.Real", classes, nprog):
    out = []
    for p in nprog["providers"]:
        kw = {}
        for k in ("skip", "only"):
            if k in p:
                kw[k] = [real_lp(real, classes, lp) for lp in p[k]]
                if len(kw[k]) == 1:
                    kw[k] = kw[k][0]
        if "omit_default" in p:
            od = p["omit_default"]
            kw["omit_default"] = od if isinstance(od, bool) else [real_lp(real, classes, lp) for lp in od]
        if "extra_in" in p:
            kw["extra_in"] = real.real_extra_in(p["extra_in"])
        if p["pred"] == "any":
            out.append(real.name_mapping(**kw))
        else:
            out.append(real.name_mapping(classes[p["pred"]["model"]], **kw))
    return out


def make_retort(real: "B.Real", classes, nprog, mode, strict=True):
    dt = {"disable": real.DebugTrail.DISABLE, "first": real.DebugTrail.FIRST, "all": real.DebugTrail.ALL}[mode]
    return real.Retort(recipe=[*real_recipe(real, classes, nprog), *real.codec_recipe], debug_trail=dt, strict_coercion=strict)


# ---------------------------------------------------------------------------
# objects and data
# ---------------------------------------------------------------------------

def map_wrap(f, value, stack, fn):
    """apply fn(sub value, stack of the held model) through the container of a reference field"""
    st = below(stack, f)
    wrap = f["type"]["wrap"]
    if wrap == "direct":
        return fn(value, st)
    if wrap == "list":
        return [fn(x, st) for x in value]
    if wrap == "opt":
        return None if value is None else fn(value, st)
    return {k: fn(x, st) for k, x in value.items()}


def wrap_values(rng, f, make):
    wrap = f["type"]["wrap"]
    if wrap == "direct":
        return make()
    if wrap == "list":
        return [make() for _ in range(rng.choice([1, 2, 2]))]
    if wrap == "opt":
        return None if (f["default"] is not None and rng.random() < 0.3) else make()
    return {k: make() for k in rng.sample(["k1", "K2", "z"], rng.choice([1, 2]))}


def gen_obj(rng, nprog, model, variant):
    """an object description {field id: value | nested description (through the container)}"""
    obj = {}
    for f in nprog["models"][model]["fields"]:
        if is_ref(f):
            obj[f["id"]] = wrap_values(rng, f, lambda f=f: gen_obj(rng, nprog, f["type"]["ref"], variant))
            continue
        pool = B.DUMP_GOOD[f["type"]]
        d = f["default"]
        v = variant if variant != "mixed" else rng.choice(["distinct", "default"])
        if d is not None and v == "default":
            obj[f["id"]] = d["v"]
        else:
            cands = [x for x in pool if d is None or not (x == d["v"] or x is d["v"])]
            obj[f["id"]] = rng.choice(cands)
    return obj


def build_instance(classes, nprog, model, obj):
    kw = {}
    for f in nprog["models"][model]["fields"]:
        v = obj[f["id"]]
        if is_ref(f):
            v = map_wrap(f, v, [], lambda sub, _st, f=f: build_instance(classes, nprog, f["type"]["ref"], sub))
        kw[f["id"]] = v
    return classes[model](**kw)


def expected_dump(nprog, model, stack, obj):
    _, oprog = doc_layout(nprog, model, stack, "out")
    flat = {}
    for f in nprog["models"][model]["fields"]:
        v = obj[f["id"]]
        if is_ref(f):
            v = map_wrap(f, v, stack, lambda sub, st, f=f: expected_dump(nprog, f["type"]["ref"], st, sub))
        flat[f["id"]] = v
    return B.py_expected_dump(oprog, flat, None)


def gen_datum(rng, nprog, model, stack, variant):
    """a datum built from the documented layout only.  variants: valid | optional-absent | hidden-key (the key a
    filtered-out field would have is present with a non-default value) | unknown-key"""
    _, oprog = doc_layout(nprog, model, stack, "inp")
    by_id = {f["id"]: f for f in nprog["models"][model]["fields"]}
    out = {}
    for key, c in oprog["crown"]["map"]:
        f = by_id[c["id"]]
        if is_ref(f):
            out[key] = wrap_values(rng, f, lambda f=f: gen_datum(rng, nprog, f["type"]["ref"], below(stack, f), variant))
            continue
        if variant == "optional-absent" and not f["required"]:
            continue
        d = f["default"]
        cands = [x for x in B.GOOD[f["type"]] if d is None or not (x == d["v"] or x is d["v"])]
        out[key] = rng.choice(cands)
    presented = {c["id"] for _, c in oprog["crown"]["map"]}
    if variant == "hidden-key":
        for f in nprog["models"][model]["fields"]:
            if f["id"] not in presented and not is_ref(f):
                d = f["default"]
                cands = [x for x in B.GOOD[f["type"]] if d is None or not (x == d["v"] or x is d["v"])]
                for key in {f["id"], B.py_trim(f["id"])}:
                    if key not in out:
                        out[key] = rng.choice(cands)
    if variant == "unknown-key":
        out["zz_Unknown"] = 1
    return out


# ---------------------------------------------------------------------------
# oracle
# ---------------------------------------------------------------------------

def shape_ok(classes, f, value, sub) -> bool:
    """the loaded value of a reference field has the container shape of the datum it was loaded from"""
    cls = classes[f["type"]["ref"]]
    wrap = f["type"]["wrap"]
    if wrap == "direct":
        return isinstance(value, cls)
    if wrap == "list":
        return type(sub) is list and isinstance(value, (list, tuple)) and len(value) == len(sub) and all(isinstance(x, cls) for x in value)
    if wrap == "opt":
        return value is None if sub is None else isinstance(value, cls)
    return type(sub) is dict and isinstance(value, dict) and list(value) == list(sub) and all(isinstance(x, cls) for x in value.values())


def sub_pairs(f, value, sub):
    wrap = f["type"]["wrap"]
    if wrap == "direct":
        return [(value, sub)]
    if wrap == "list":
        return list(zip(value, sub))
    if wrap == "opt":
        return [] if sub is None else [(value, sub)]
    return [(value[k], sub[k]) for k in sub]


def check_loaded(ctx, classes, nprog, model, stack, datum, obj, mode, strict, label, case):
    """the c03 oracle on one occurrence, then on the occurrences below it"""
    _, oprog = doc_layout(nprog, model, stack, "inp")
    by_id = {f["id"]: f for f in nprog["models"][model]["fields"]}
    key_of = {c["id"]: k for k, c in oprog["crown"]["map"]}
    args = {}
    for fid, f in by_id.items():
        v = getattr(obj, fid)
        if is_ref(f) and fid in key_of and key_of[fid] in datum:
            sub = datum[key_of[fid]]
            args[fid] = B.safe_enc(sub) if shape_ok(classes, f, v, sub) else {"repr": repr(v)[:80]}
        elif is_ref(f):
            args[fid] = None if v is None else {"repr": repr(v)[:80]}
        else:
            args[fid] = B.safe_enc(v)
    before = len(ctx.failures)
    B.oracle_crown_load(ctx, oprog, label, datum, mode, strict, {"r": "ok", "args": args}, suite="nested-load", case=case)
    if len(ctx.failures) > before:
        ctx.failures[-1]["what"] = f"{model} at {show_stack(stack)}: " + ctx.failures[-1]["what"]
        return
    for fid, f in by_id.items():
        if is_ref(f) and fid in key_of and key_of[fid] in datum:
            sub = datum[key_of[fid]]
            v = getattr(obj, fid)
            if not shape_ok(classes, f, v, sub):
                continue
            for o, d in sub_pairs(f, v, sub):
                check_loaded(ctx, classes, nprog, f["type"]["ref"], below(stack, f), d, o, mode, strict, label, case)
                if len(ctx.failures) > before:
                    return


def datum_valid(nprog, model, stack, datum, strict) -> bool:
    _, oprog = doc_layout(nprog, model, stack, "inp")
    if not B.py_datum_valid(oprog, datum, strict):
        return False
    by_id = {f["id"]: f for f in nprog["models"][model]["fields"]}
    for key, c in oprog["crown"]["map"]:
        f = by_id[c["id"]]
        if is_ref(f) and key in datum:
            wrap = f["type"]["wrap"]
            sub = datum[key]
            subs = [sub] if wrap == "direct" else sub if wrap == "list" else ([] if sub is None else [sub]) if wrap == "opt" \
                else list(sub.values())
            if not all(datum_valid(nprog, f["type"]["ref"], below(stack, f), s, strict) for s in subs):
                return False
    return True


def show_stack(stack):
    out = []
    for loc in stack:
        if loc["k"] == "type":
            out.append(loc["type"][1])
        elif loc["k"] == "field":
            out.append("." + loc["id"])
        else:
            out.append(f"<arg {loc['pos']}: {loc['type'][1]}>")
    return "".join(out)


def show_lp(lp):
    if "pat" in lp:
        s = "P"
        for el in lp["pat"]:
            if "garg" in el:
                s += f".generic_arg({el['garg']}, {el['model']})"
            elif "model" in el:
                s += f"[{el['model']}]"
            elif "name" in el:
                s += f".{el['name']}" if el.get("attr") else f"[{el['name']!r}]"
            elif "names" in el:
                s += "[" + ", ".join(map(repr, el["names"])) + "]"
            elif "type" in el:
                s += f"[{el['type']}]"
            else:
                s += "[P.ANY]"
        return s
    if "not" in lp:
        return "~" + show_lp(lp["not"])
    if "or" in lp:
        return "(" + " | ".join(show_lp(x) for x in lp["or"]) + ")"
    return repr(lp.get("name") or lp.get("type") or lp.get("regex"))


def show_recipe(nprog):
    out = []
    for p in nprog["providers"]:
        args = [] if p["pred"] == "any" else [p["pred"]["model"]]
        for k in ("skip", "only", "omit_default"):
            if k in p:
                v = p[k]
                args.append(f"{k}={v if isinstance(v, bool) else '[' + ', '.join(show_lp(x) for x in v) + ']'}")
        if "extra_in" in p:
            args.append(f"extra_in={p['extra_in']}")
        out.append("name_mapping(" + ", ".join(args) + ")")
    return "; ".join(out)


def oracle_dump(ctx, real, classes, nprog, root, dumper_fn, mode, label, obj):
    case = {"suite": "nested-dump", "nprog": nprog, "root": root, "mode": mode, "label": label, "obj": obj}
    try:
        want = expected_dump(nprog, root, [{"k": "type", "type": ["model", root]}], obj)
    except NoPrescription:
        ctx.dist["nested-dump-unprescribed"] += 1
        return None
    inst = build_instance(classes, nprog, root, obj)
    real_o = B.run_real_dumper(dumper_fn, inst, mode)
    if real_o["r"] != "ok":
        ctx.fail("nested-dump:valid-object-rejected", f"{mode}: {show_recipe(nprog)}: dumping {root} {obj} raised {real_o}", case)
        return real_o
    if real_o["v"] != B.safe_enc(want):
        where = B.first_difference(real_o["v"], B.safe_enc(want))
        ctx.fail("nested-dump:wrong-output", f"{mode}: {show_recipe(nprog)}: dumping {root} {obj} gives {B.dec_val(real_o['v'])}, "
                 f"the filters evaluated on the full location stack prescribe {want} (first difference at {where})", case)
    return real_o


def oracle_load(ctx, real, classes, nprog, root, loader_fn, mode, strict, label, datum):
    from adaptix.load_error import LoadError
    case = {"suite": "nested-load", "nprog": nprog, "root": root, "mode": mode, "strict": strict, "label": label,
            "data": B.safe_enc(datum)}
    stack = [{"k": "type", "type": ["model", root]}]
    try:
        valid = datum_valid(nprog, root, stack, datum, strict)
    except NoPrescription:
        ctx.dist["nested-load-unprescribed"] += 1
        return None
    try:
        obj = loader_fn(datum)
    except LoadError as e:
        if valid:
            ctx.fail("nested-load:valid-datum-rejected", f"{mode}/{strict}: {show_recipe(nprog)}: the datum {datum} is valid for "
                     f"the layout the filters prescribe on the full location stacks but loading {root} raised {e!r}", case)
        return "error"
    except Exception as e:  # noqa: BLE001
        ctx.fail("nested-load:escape", f"{mode}/{strict}: {type(e).__name__} escaped: {str(e)[:120]}", case)
        return "escape"
    check_loaded(ctx, classes, nprog, root, stack, datum, obj, mode, strict, label, case)
    return "ok"


# ---------------------------------------------------------------------------
# suite
# ---------------------------------------------------------------------------

LOAD_MODES = (("disable", True), ("first", True), ("all", True), ("first", False))
DATA_VARIANTS = ("valid", "optional-absent", "hidden-key", "unknown-key")
OBJ_VARIANTS = ("distinct", "default", "mixed", "mixed")


def note_program(ctx, nprog):
    depth = 0
    deciding = 0
    for root in nprog["roots"]:
        for model, stack in occurrences(nprog, root):
            depth = max(depth, len(stack))
            if len(stack) >= 2:
                deciding += decisive(nprog, model, stack)
                ctx.dist["nested-occurrence"] += 1
                for loc in stack:
                    if loc["k"] == "garg":
                        ctx.dist["nested-occurrence-in-container"] += 1
                        break
    ctx.dist[f"nested-max-stack-{depth + 1}"] += 1
    for m in nprog["models"].values():
        for f in m["fields"]:
            if is_ref(f):
                ctx.dist[f"nested-wrap-{f['type']['wrap']}"] += 1
    for p in nprog["providers"]:
        ctx.dist[f"nested-provider-{'unbound' if p['pred'] == 'any' else 'bound-' + p['pred']['model']}"] += 1
        for k in ("skip", "only", "omit_default"):
            if isinstance(p.get(k), list):
                ctx.dist[f"nested-filter-{k}"] += 1
                if max(lp_max_len(lp) for lp in p[k]) >= 3:
                    ctx.dist[f"nested-filter-{k}-pattern-ge3"] += 1
    if deciding:
        ctx.dist["nested-program-enclosing-locations-decide"] += 1
    return deciding


def run_program(ctx: Ctx, real, nprog, rng):
    classes = build_classes(real, nprog)
    deciding = note_program(ctx, nprog)
    for root in nprog["roots"]:
        # ---- dumping
        objs = [(v, gen_obj(rng, nprog, root, v)) for v in OBJ_VARIANTS]
        for mode in B.MODES:
            try:
                dumper_fn = make_retort(real, classes, nprog, mode).get_dumper(classes[root])
            except Exception as e:  # noqa: BLE001
                try:
                    expected_dump(nprog, root, [{"k": "type", "type": ["model", root]}], objs[0][1])
                except NoPrescription:
                    ctx.dist["nested-dump-unprescribed"] += 1
                    continue
                ctx.fail("nested-dump:no-dumper-for-valid-layout", f"{mode}: {show_recipe(nprog)}: no dumper for {root}: {e!r}",
                         {"suite": "nested-dump", "nprog": nprog, "root": root, "mode": mode, "label": "creation", "obj": objs[0][1]})
                continue
            for label, obj in objs:
                out = oracle_dump(ctx, real, classes, nprog, root, dumper_fn, mode, label, obj)
                if out is not None:
                    ctx.note_case({"nprog": nprog, "root": root, "mode": mode, "obj": obj}, nontrivial=True,
                                  kind=f"nested-dump-{label}")
                    if deciding:
                        ctx.dist["nested-dump-case-enclosing-locations-decide"] += 1
        # ---- loading
        stack = [{"k": "type", "type": ["model", root]}]
        try:
            # the library creates the loader of every field of a shape, presented or not: every occurrence below the
            # root needs a valid layout, also the ones behind a filtered-out field
            for model, st in occurrences(nprog, root):
                doc_layout(nprog, model, st, "inp")
            data = [(v, gen_datum(rng, nprog, root, stack, v)) for v in DATA_VARIANTS]
        except NoPrescription:
            ctx.dist["nested-load-unprescribed"] += 1
            continue
        for mode, strict in LOAD_MODES:
            try:
                loader_fn = make_retort(real, classes, nprog, mode, strict).get_loader(classes[root])
            except Exception as e:  # noqa: BLE001
                ctx.fail("nested-load:no-loader-for-valid-layout", f"{mode}/{strict}: {show_recipe(nprog)}: the filters give a "
                         f"valid layout for every model below {root} but no loader can be created: {e!r}",
                         {"suite": "nested-load", "nprog": nprog, "root": root, "mode": mode, "strict": strict,
                          "label": "creation", "data": B.safe_enc(data[0][1])})
                continue
            for label, datum in data:
                out = oracle_load(ctx, real, classes, nprog, root, loader_fn, mode, strict, label, datum)
                if out is not None:
                    ctx.note_case({"nprog": nprog, "root": root, "mode": mode, "strict": strict, "data": B.safe_enc(datum)},
                                  nontrivial=True, kind=f"nested-load-{label}")
                    ctx.dist[f"nested-load-outcome-{out}"] += 1
                    if deciding:
                        ctx.dist["nested-load-case-enclosing-locations-decide"] += 1


def suite_nested(ctx: Ctx, real, n_programs: int, drv=None):
    nprogs = []
    for i in range(n_programs):
        nprog = gen_nested_program(ctx.rng, ctx.dist)
        nprogs.append(nprog)
        try:
            run_program(ctx, real, nprog, ctx.rng)
        except InfraError:
            raise
        except NoPrescription:
            ctx.dist["nested-program-unprescribed"] += 1
        ctx.sample({"suite": "nested", "recipe": show_recipe(nprog), "nprog": nprog}, every=997)
    if drv is not None:
        suite_nested_filters(ctx, real, drv, nprogs)


def replay(ctx: Ctx, real, case) -> bool:
    before = len(ctx.failures)
    nprog = copy.deepcopy(case["nprog"])
    classes = build_classes(real, nprog)
    root, mode = case["root"], case["mode"]
    try:
        if case["suite"] == "nested-dump":
            try:
                dumper_fn = make_retort(real, classes, nprog, mode).get_dumper(classes[root])
            except Exception as e:  # noqa: BLE001
                ctx.fail("nested-dump:no-dumper-for-valid-layout", f"no dumper: {e!r}", case)
                return True
            oracle_dump(ctx, real, classes, nprog, root, dumper_fn, mode, case["label"], case["obj"])
        else:
            try:
                loader_fn = make_retort(real, classes, nprog, mode, case["strict"]).get_loader(classes[root])
            except Exception as e:  # noqa: BLE001
                ctx.fail("nested-load:no-loader-for-valid-layout", f"no loader: {e!r}", case)
                return True
            oracle_load(ctx, real, classes, nprog, root, loader_fn, mode, case["strict"], case["label"], B.dec_val(case["data"]))
    except NoPrescription:
        return False
    return len(ctx.failures) > before


# ---------------------------------------------------------------------------
# correspondence: real name-layout provider on NESTED requests  vs  Lean `applyLsc` (Layout/LocPred.lean)
# ---------------------------------------------------------------------------

class MiniWorld:
    """the oracle table of the C10 model (Pred/World.lean) for the objects of one nested program, computed with
    the functions loc_stack_filtering.py itself calls"""

    def __init__(self, real: "B.Real"):
        from adaptix._internal.provider import loc_stack_filtering as lsf
        from adaptix._internal.type_tools import normalize_type
        self.lsf, self.normalize_type = lsf, normalize_type
        self.objs, self._ids, self.norms = [], {}, []

    def obj_id(self, o):
        try:
            hash(o)
            key = ("h", o)
        except TypeError:
            key = ("id", id(o))
        if key not in self._ids:
            self._ids[key] = len(self.objs)
            self.objs.append(o)
        return self._ids[key]

    def norm_id(self, n):
        for i, m in enumerate(self.norms):
            if m == n:
                return i
        self.norms.append(n)
        return len(self.norms) - 1

    def world(self):
        rows, i = [], 0
        while i < len(self.objs):
            try:
                n = self.normalize_type(self.objs[i])
            except ValueError:
                i += 1
                continue
            rows.append([i, self.norm_id(n), self.obj_id(n.origin), False])
            i += 1
        return {"norm": rows, "ns": [], "generic": [], "param": [], "protocol": [], "abstract": [], "subclass": [],
                "ident": [], "compiles": [], "fullmatch": [], "user": []}

    def json_checker(self, ch):
        F = self.lsf
        t = type(ch)
        if t is F.ExactFieldNameLSC:
            return {"k": "exact_field", "v": ch.field_id}
        if t is F.ExactOriginLSC:
            return {"k": "exact_origin", "v": self.obj_id(ch.origin)}
        if t is F.GenericParamLSC:
            return {"k": "generic_param", "v": ch.pos}
        if t is F.LocStackEndChecker:
            return {"k": "end", "cs": [self.json_checker(x) for x in ch.loc_stack_checkers]}
        if t is F.AnyLocStackChecker:
            return {"k": "any"}
        if t is F.InvertLSC:
            return {"k": "invert", "c": self.json_checker(ch._lsc)}
        for k, cls in (("or", F.OrLocStackChecker), ("and", F.AndLocStackChecker), ("xor", F.XorLocStackChecker)):
            if t is cls:
                return {"k": k, "cs": [self.json_checker(x) for x in ch._loc_stack_checkers]}
        raise InfraError(f"checker class {t.__name__} is outside the nested-filter correspondence")


def real_request_stack(real: "B.Real", classes, root, stack, world: MiniWorld):
    """the location stack of the request the library sends for the occurrence: (real LocStack, JSON locations)"""
    from adaptix._internal.model_tools.definitions import NoDefault, create_attr_accessor
    from adaptix._internal.provider.location import GenericParamLoc, OutputFieldLoc
    locs = [real.TypeHintLoc(type=classes[root])]
    js = [{"c": "TypeHintLoc", "t": world.obj_id(classes[root])}]
    current = root
    for loc in stack[1:]:
        if loc["k"] == "field":
            tp = classes[current].__dataclass_fields__[loc["id"]].type
            locs.append(OutputFieldLoc(type=tp, field_id=loc["id"], default=NoDefault(), metadata={},
                                       accessor=create_attr_accessor(loc["id"], is_required=True)))
            js.append({"c": "OutputFieldLoc", "t": world.obj_id(tp), "f": loc["id"]})
            if loc["type"][0] == "model":
                current = loc["type"][1]
        else:
            current = loc["type"][1]
            locs.append(GenericParamLoc(type=classes[current], generic_pos=loc["pos"]))
            js.append({"c": "GenericParamLoc", "t": world.obj_id(classes[current]), "g": loc["pos"]})
    return real.LocStack(*locs), js


def real_filter_table(real: "B.Real", kind, pred, loc_stack, shape):
    """truth table of one filter as the real name-layout provider applies it to the request: which fields the output
    crown presents (skip / only) or sieves (omit_default); '-' where the layout does not show the predicate's answer"""
    retort = real.Retort(recipe=[real.name_mapping(**{kind: pred})])
    layout = retort._facade_provide(real.cd.OutputNameLayoutRequest(loc_stack=loc_stack, shape=shape), error_message="layout")
    crown = layout.crown
    presented = {c.id: k for k, c in crown.map.items()}
    out = []
    for f in shape.fields:
        if f.id.startswith("_"):
            out.append("-")                  # hidden by the builtin skip-private entry whatever the filter says
        elif kind == "skip":
            out.append("F" if f.id in presented else "T")
        elif kind == "only":
            out.append("T" if f.id in presented else "F")
        elif f.default == real.NoDefault():
            out.append("-")
        else:
            out.append("T" if presented[f.id] in crown.sieves else "F")
    return "".join(out)


def suite_nested_filters(ctx: Ctx, real: "B.Real", drv, nprogs):
    from adaptix._internal.provider.loc_stack_filtering import create_loc_stack_checker
    requests, meta = [], []
    for nprog in nprogs:
        classes = build_classes(real, nprog)
        world = MiniWorld(real)
        shapes = {}
        items = []
        for root in nprog["roots"]:
            for model, stack in occurrences(nprog, root):
                if model not in shapes:
                    shapes[model] = real.Retort()._facade_provide(
                        real.OutputShapeRequest(loc_stack=real.LocStack(real.TypeHintLoc(type=classes[model]))), error_message="shape")
                loc_stack, js = real_request_stack(real, classes, root, stack, world)
                lps = [(k, lp) for p in nprog["providers"] for k in ("skip", "only", "omit_default")
                       if isinstance(p.get(k), list) for lp in p[k]]
                if not lps:
                    continue
                shape = shapes[model]
                fields = [{"id": f.id, "t": world.obj_id(f.type)} for f in shape.fields]
                checkers, reals, mine = [], [], []
                for kind, lp in lps:
                    pred = real_lp(real, classes, lp)
                    checkers.append(world.json_checker(create_loc_stack_checker(pred)))
                    reals.append(real_filter_table(real, kind, pred, loc_stack, shape))
                    src = {f["id"]: f for f in nprog["models"][model]["fields"]}
                    mine.append("".join("T" if lp_holds(lp, [*stack, field_loc(src[f.id])]) else "F" for f in shape.fields))
                items.append((root, model, stack, js, fields, checkers, reals, mine, lps))
        w = world.world()
        for root, model, stack, js, fields, checkers, reals, mine, lps in items:
            requests.append({"op": "lsc_filter", "world": w, "req": js, "dir": "out", "fields": fields, "checkers": checkers})
            meta.append((nprog, root, model, stack, reals, mine, lps))
    replies = drv.batch(requests) if drv else [None] * len(requests)
    n = bad = n_spec = bad_spec = 0
    for (nprog, root, model, stack, reals, mine, lps), rep in zip(meta, replies):
        for i, (kind, lp) in enumerate(lps):
            case = {"suite": "nested-filter", "nprog": nprog, "root": root, "model": model, "at": show_stack(stack),
                    "filter": kind, "pred": show_lp(lp)}
            ctx.note_case(case, nontrivial=len(stack) >= 2, kind=f"nested-filter-stack-{len(stack) + 1}")
            if rep is None:
                continue
            model_tbl = rep["ok"][i] if "ok" in rep else None
            n += 1
            masked = None if model_tbl is None else "".join(m if r != "-" else "-" for m, r in zip(model_tbl, reals[i]))
            if masked != reals[i]:
                bad += 1
                ctx.disagree("nested-filter", case, reals[i], rep if model_tbl is None else model_tbl)
            n_spec += 1
            if model_tbl != mine[i]:
                bad_spec += 1
                ctx.disagree("nested-filter-spec", case, mine[i], rep if model_tbl is None else model_tbl)
    if drv:
        ctx.suite("nested-filter", n, bad)
        ctx.suite("nested-filter-spec", n_spec, bad_spec)
