"""C09 — recipe resolution is first-match in recipe order; chaining composes exactly once.

Lean side: AdaptixModel/Retort/Router.lean (model), AdaptixProofs/Props/C09.lean (theorems).
Tie: correspondence of
  * router-items : create_router_for_located_request(...)._items      vs  `combine`
  * router-walk  : repeated LocatedRequestRouter.route_handler         vs  `visit`
  * bus-send     : OperatingRetort._provide_from_recipe with real ChainingProvider  vs  `send`
  * bus-log      : the recipe positions of the handlers invoked during that call, in order  vs  `sendLog`
  * facade       : public Retort(recipe=[loader(...)...]).load / extend / replace / nested retort vs `send`
  * facade-history : multi-step histories of new / extend / replace / nest (plain, bound) / use in every order
                     (harness/props/c09_histories.py)  vs  `serveTree` over the retort trees
Direct oracle (real code only, Python): outcome == documented first-match/chaining
meaning computed on the linear recipe; no handler invoked twice on a successful request.
"""

import itertools
from dataclasses import dataclass

from harness.core import Ctx, Driver, InfraError
from harness.props import c09_histories

ID = "C09"
CLAIM = {
    "technique": "Lean 4 proof (refinement of the optimised router/bus to linear first-match) + model/code correspondence",
    "text": (
        "Proved in Lean for every recipe length, checker arrangement and request: the handlers handed out by the "
        "ExactOriginCombiner/LocatedRequestRouter model are exactly the matching providers in recipe order, each once "
        "(combine_refines_linear, no_provider_twice); the bus with ChainingProvider equals the documented "
        "first-match / Chain.FIRST / Chain.LAST meaning (send_eq_spec, chain_first_once, chain_last_once); the "
        "handlers the bus itself invokes for a served request are the matching providers up to the first that "
        "neither declines nor delegates, each once (served_request_consults_prefix, no_provider_twice_send, "
        "later_consulted_only_after_delegation over the instrumented bus sendLog); a retort in a recipe answers "
        "from its own recipe (nested_retort_serves_own_recipe); extend prepends; a retort placed (plain or bound) at any "
        "depth serves from its own recipe and option, also when it was derived by extend / replace before being placed "
        "(nested_tree_serves_own_recipe, nested_extend_prepends, nested_replace_only_option, derived_direct). The model "
        "is tied to the code by six correspondences (router items, router walk, bus outcome with the real "
        "ChainingProvider, the bus's invocation log, public facade incl. extend/replace/nested retort, multi-step "
        "retort histories new/extend/replace/nest/use in every order vs serveTree)."
    ),
    "note": (
        "Trusted: Lean 4.33 kernel; axioms audited each run (subset of propext, Classical.choice, Quot.sound). The theorems "
        "are about the Lean model; the model is hand-written and tied to /repo on every run by differential correspondence "
        "(exhaustive over short recipes, random beyond). Request checkers are assumed pure; predicates themselves are C10."
    ),
    "design_ref": "DESIGN.md §4 C09",
}
PROPS_FILE = "AdaptixProofs/Props/C09.lean"
LEAN_TARGETS = ["AdaptixProofs.Props.C09", "drv_c09"]
RULE = ("recipes are lists of (checker, handler) over 3 origins + 2 non-exact checkers; quick: exhaustive up to "
        "length 4 for router items/walk, random up to length 12 for bus/facade; a case is non-trivial when at least "
        "two recipe entries match the request or a combo boundary (repeat / non-exact / single-element group) occurs")
ASSUMPTIONS = [
    "request checkers are pure during one request (modelled as a truth table)",
    "'consulted twice' is read per walk of the router: a chaining provider whose delegated search fails re-runs the "
    "remaining providers when the bus continues after it; both consultations are licensed by the statement "
    "('declines or explicitly delegates') and the outcome is the failure either way",
]
TRUSTED = ["dict.get(origin) == ExactOriginLSC equality on origins (validated by router-walk correspondence)"]

N_ORIGINS = 3
N_OTHER = 2


# ---------------------------------------------------------------------------
# abstract cases
# ---------------------------------------------------------------------------

def checker_space():
    return [{"k": "exact", "o": o} for o in range(N_ORIGINS)] + [{"k": "other", "id": i} for i in range(N_OTHER)]


def handler_space():
    return [
        {"h": "respond", "w": [100]},
        {"h": "decline"},
        {"h": "terminal"},
        {"h": "chain_first", "f": 0},
        {"h": "chain_last", "f": 0},
    ]


def py_check(c, req):
    return req["origin"] == c["o"] if c["k"] == "exact" else c["id"] in req["sat"]


def py_spec_send(handlers):
    """Documented meaning over the matching handlers in recipe order (independent of the Lean text)."""
    if not handlers:
        return {"r": "not_found"}
    h, rest = handlers[0], handlers[1:]
    k = h["h"]
    if k == "respond":
        return {"r": "ok", "w": list(h["w"])}
    if k == "decline":
        return py_spec_send(rest)
    if k == "terminal":
        return {"r": "terminal"}
    nxt = py_spec_send(rest)
    if nxt["r"] != "ok":
        return nxt
    if k == "chain_first":
        return {"r": "ok", "w": [h["f"]] + nxt["w"]}
    return {"r": "ok", "w": nxt["w"] + [h["f"]]}


# ---------------------------------------------------------------------------
# real side
# ---------------------------------------------------------------------------

class Real:
    def __init__(self):
        from adaptix import Chain, Retort, loader
        from adaptix._internal.morphing.request_cls import LoaderRequest
        from adaptix._internal.provider.essential import CannotProvide, Provider
        from adaptix._internal.provider.loc_stack_filtering import ExactOriginLSC, LocStack, LocStackChecker
        from adaptix._internal.provider.located_request import LocatedRequestChecker
        from adaptix._internal.provider.location import TypeHintLoc
        from adaptix._internal.provider.provider_wrapper import ChainingProvider
        from adaptix._internal.retort.operating_retort import OperatingRetort
        from adaptix._internal.retort.routers import create_router_for_located_request

        self.Chain, self.Retort, self.loader = Chain, Retort, loader
        self.LoaderRequest, self.CannotProvide, self.Provider = LoaderRequest, CannotProvide, Provider
        self.ExactOriginLSC, self.LocStack, self.LocStackChecker = ExactOriginLSC, LocStack, LocStackChecker
        self.LocatedRequestChecker, self.TypeHintLoc = LocatedRequestChecker, TypeHintLoc
        self.ChainingProvider, self.OperatingRetort = ChainingProvider, OperatingRetort
        self.create_router = create_router_for_located_request

        self.origins = [type(f"Origin{i}", (), {}) for i in range(N_ORIGINS + 1)]

        class TableLSC(LocStackChecker):
            """a non-exact checker: true on the origins listed in `true_on`"""
            def __init__(s, ident, owner):
                s.ident, s.owner = ident, owner

            def check_loc_stack(s, mediator, loc_stack):
                return s.ident in s.owner.current_sat

        self.TableLSC = TableLSC
        self.current_sat: set = set()

    def checker(self, c):
        if c["k"] == "exact":
            return self.LocatedRequestChecker(self.ExactOriginLSC(self.origins[c["o"]]))
        return self.LocatedRequestChecker(self.TableLSC(c["id"], self))

    def request(self, req):
        self.current_sat = set(req["sat"])
        return self.LoaderRequest(loc_stack=self.LocStack(self.TypeHintLoc(type=self.origins[req["origin"]])))

    # -- router items ------------------------------------------------------
    def items(self, checkers):
        cah = [(self.checker(c), i) for i, c in enumerate(checkers)]
        router = self.create_router(cah)
        out = []
        for it in router._items:
            if type(it) is tuple:
                ch, h = it
                lsc = ch.loc_stack_checker
                if isinstance(lsc, self.ExactOriginLSC):
                    cj = {"k": "exact", "o": self.origins.index(lsc.origin)}
                else:
                    cj = {"k": "other", "id": lsc.ident}
                out.append({"item": "single", "checker": cj, "handler": h})
            else:
                out.append({"item": "table", "entries": [[self.origins.index(o), h] for o, h in it.items()]})
        return router, out

    def walk(self, router, req):
        request = self.request(req)
        off, seen = 0, []
        for _ in range(router.get_max_offset() + 2):
            try:
                h, off = router.route_handler(None, request, off)
            except StopIteration:
                return seen
            seen.append(h)
        raise InfraError("router walk does not terminate")

    # -- bus ---------------------------------------------------------------
    def provider(self, idx, c, h, log):
        real = self
        checker = self.checker(c)

        class Plain(self.Provider):
            def get_request_handlers(s):
                def handler(mediator, request):
                    log.append(idx)
                    k = h["h"]
                    if k == "respond":
                        return lambda data: data + list(h["w"])
                    if k == "decline":
                        raise real.CannotProvide("declines")
                    if k == "terminal":
                        raise real.CannotProvide("terminal", is_terminal=True)
                    return lambda data: data + [h["f"]]
                return [(real.LoaderRequest, checker, handler)]

        p = Plain()
        if h["h"] == "chain_first":
            return self.ChainingProvider(self.Chain.FIRST, p)
        if h["h"] == "chain_last":
            return self.ChainingProvider(self.Chain.LAST, p)
        return p

    def send(self, checkers, handlers, req):
        log: list = []
        retort = self.OperatingRetort(recipe=[self.provider(i, c, h, log) for i, (c, h) in enumerate(zip(checkers, handlers))])
        request = self.request(req)
        try:
            resp = retort._provide_from_recipe(request)
        except self.CannotProvide as e:
            return ({"r": "terminal"} if e.is_terminal else {"r": "not_found"}), log
        return {"r": "ok", "w": resp([])}, log


# ---------------------------------------------------------------------------
# generators
# ---------------------------------------------------------------------------

def gen_checkers_exhaustive(max_len):
    space = checker_space()
    for n in range(0, max_len + 1):
        yield from (list(t) for t in itertools.product(space, repeat=n))


def gen_reqs():
    for o in range(N_ORIGINS):
        for sat in ([], [0], [1], [0, 1]):
            yield {"origin": o, "sat": sat}


def rand_recipe(rng, max_len):
    n = rng.randint(1, max_len)
    cs, hs = [], []
    # biased to produce combos, repeats and chain handlers
    for _ in range(n):
        if rng.random() < 0.7:
            cs.append({"k": "exact", "o": rng.randrange(N_ORIGINS if rng.random() < 0.5 else 2)})
        else:
            cs.append({"k": "other", "id": rng.randrange(N_OTHER)})
        r = rng.random()
        if r < 0.25:
            hs.append({"h": "respond", "w": [100 + rng.randrange(3)]})
        elif r < 0.5:
            hs.append({"h": "decline"})
        elif r < 0.55:
            hs.append({"h": "terminal"})
        elif r < 0.8:
            hs.append({"h": "chain_first", "f": rng.randrange(50)})
        else:
            hs.append({"h": "chain_last", "f": rng.randrange(50)})
    return cs, hs


def boundary_kind(checkers):
    kinds = []
    seen = set()
    group = 0
    for c in checkers:
        if c["k"] == "other":
            kinds.append(f"nonexact-after-group{min(group, 2)}")
            seen, group = set(), 0
        elif c["o"] in seen:
            kinds.append(f"repeat-after-group{min(group, 2)}")
            seen, group = set(), 0
        else:
            seen.add(c["o"])
            group += 1
    kinds.append(f"final-group{min(group, 2)}")
    return kinds


# ---------------------------------------------------------------------------
# suites
# ---------------------------------------------------------------------------

def suite_items_and_walk(ctx: Ctx, real: Real, drv, max_len: int, extra_random: int):
    cases = list(gen_checkers_exhaustive(max_len))
    for _ in range(extra_random):
        cases.append(rand_recipe(ctx.rng, 14)[0])
    reqs = list(gen_reqs())
    requests, meta = [], []
    for cs in cases:
        requests.append({"op": "combine", "checkers": cs})
        meta.append(("items", cs, None))
        # a deterministic subset of requests per recipe keeps the batch small
        for rq in (reqs if len(cs) <= 3 else ctx.rng.sample(reqs, 3)):
            requests.append({"op": "visit", "checkers": cs, "req": rq})
            meta.append(("walk", cs, rq))
    replies = drv.batch(requests) if drv else [None] * len(requests)
    n_items = n_walk = d_items = d_walk = 0
    router_cache = {}
    for (kind, cs, rq), rep in zip(meta, replies):
        key = id(cs)
        if key not in router_cache:
            router_cache = {key: real.items(cs)}
        router, real_items = router_cache[key]
        if kind == "items":
            for b in boundary_kind(cs):
                ctx.dist[b] += 1
            ctx.note_case({"checkers": cs}, nontrivial=len(cs) >= 2, kind="router-items")
            ctx.sample({"suite": "router-items", "checkers": cs, "real_items": real_items}, every=997)
            if rep is not None:
                n_items += 1
                if "ok" not in rep or rep["ok"] != real_items:
                    d_items += 1
                    ctx.disagree("router-items", {"checkers": cs}, real_items, rep)
        else:
            seen = real.walk(router, rq)
            expect = [i for i, c in enumerate(cs) if py_check(c, rq)]
            ctx.note_case({"checkers": cs, "req": rq}, nontrivial=len(expect) >= 2, kind="router-walk")
            if seen != expect:
                what = ("a provider is consulted twice" if len(set(seen)) < len(seen)
                        else "providers are not consulted in first-match recipe order")
                ctx.fail(f"walk:{what}", f"{what}: recipe checkers {cs} request {rq}: consulted {seen}, "
                         f"first-match order is {expect}", {"suite": "router-walk", "checkers": cs, "req": rq})
            if rep is not None:
                n_walk += 1
                if "ok" not in rep or rep["ok"] != seen:
                    d_walk += 1
                    ctx.disagree("router-walk", {"checkers": cs, "req": rq}, seen, rep)
    if drv:
        ctx.suite("router-items", n_items, d_items)
        ctx.suite("router-walk", n_walk, d_walk)


def check_send_case(ctx: Ctx, real: Real, cs, hs, rq, suite="bus-send", log_out=None):
    real_res, log = real.send(cs, hs, rq)
    if log_out is not None:
        log_out.extend(log)
    matching = [h for c, h in zip(cs, hs) if py_check(c, rq)]
    spec = py_spec_send(matching)
    ctx.note_case({"checkers": cs, "handlers": hs, "req": rq}, nontrivial=len(matching) >= 2, kind=suite)
    ctx.dist["outcome-" + real_res["r"]] += 1
    case = {"suite": suite, "checkers": cs, "handlers": hs, "req": rq}
    if real_res != spec:
        ctx.fail("send:outcome", f"recipe {list(zip(cs, hs))} request {rq}: real outcome {real_res}, "
                 f"first-match/chaining meaning is {spec}", case)
    elif real_res["r"] == "ok" and len(set(log)) < len(log):
        ctx.fail("send:consulted-twice", f"recipe {list(zip(cs, hs))} request {rq}: handlers invoked {log}", case)
    return real_res


def suite_send(ctx: Ctx, real: Real, drv, n_random: int, exhaustive_len: int):
    cases = []
    hspace = handler_space()
    cspace = [{"k": "exact", "o": 0}, {"k": "exact", "o": 1}, {"k": "other", "id": 0}]
    for n in range(1, exhaustive_len + 1):
        for cs in itertools.product(cspace, repeat=n):
            for hs in itertools.product(hspace, repeat=n):
                cases.append((list(cs), [dict(h, f=i) if "f" in h else h for i, h in enumerate(hs)],
                              {"origin": 0, "sat": [0]}))
    for _ in range(n_random):
        cs, hs = rand_recipe(ctx.rng, 10)
        rq = {"origin": ctx.rng.randrange(N_ORIGINS), "sat": ctx.rng.sample(range(N_OTHER), ctx.rng.randint(0, N_OTHER))}
        cases.append((cs, hs, rq))
    replies = drv.batch([{"op": "send", "checkers": cs, "handlers": hs, "req": rq} for cs, hs, rq in cases]) if drv \
        else [None] * len(cases)
    # the ghost-instrumented bus of the model (`sendLog`): which recipe positions are invoked, in which order -
    # also for requests that fail (where a chaining provider makes the bus re-walk the remainder)
    log_replies = drv.batch([{"op": "send_log", "checkers": cs, "handlers": hs, "req": rq} for cs, hs, rq in cases]) \
        if drv else [None] * len(cases)
    n = d = nl = dl = 0
    for (cs, hs, rq), rep, lrep in zip(cases, replies, log_replies):
        real_log: list = []
        real_res = check_send_case(ctx, real, cs, hs, rq, log_out=real_log)
        ctx.sample({"suite": "bus-send", "checkers": cs, "handlers": hs, "req": rq, "real": real_res}, every=1499)
        if rep is not None:
            n += 1
            if rep.get("ok") != real_res:
                d += 1
                ctx.disagree("bus-send", {"checkers": cs, "handlers": hs, "req": rq}, real_res, rep)
        if lrep is not None:
            nl += 1
            want = {"result": real_res, "log": real_log}
            if lrep.get("ok") != want:
                dl += 1
                ctx.disagree("bus-log", {"checkers": cs, "handlers": hs, "req": rq}, want, lrep)
    if drv:
        ctx.suite("bus-send", n, d)
        ctx.suite("bus-log", nl, dl)


# ---- facade: only public API ----------------------------------------------------

def facade_case(ctx: Ctx, real: Real, rng):
    """A recipe of public providers over a small class universe, observed through Retort.load."""
    from abc import ABC, abstractmethod

    from adaptix import P, Retort, loader

    class Base(ABC):
        @abstractmethod
        def tag(self):
            ...

    class A(Base):
        def tag(self):
            return "a"

    class B(Base):
        def tag(self):
            return "b"

    @dataclass
    class M:
        a: A
        b: B

    concrete = {"A": A, "B": B}
    preds = {
        "A": ("exact", A), "B": ("exact", B), "Base": ("other", Base), "ANY": ("other", P.ANY),
        "M.a": ("other", P[M].a), "notA": ("other", ~P[A]), "name_b": ("other", "b"),
    }

    def sat(pname, origin, field):
        if pname == "Base":
            return True
        if pname == "ANY":
            return True
        if pname == "M.a":
            return field == "a"
        if pname == "notA":
            return origin != "A"
        if pname == "name_b":
            return field == "b"
        raise KeyError(pname)

    n = rng.randint(1, 7)
    entries = []
    for i in range(n):
        pname = rng.choice(list(preds))
        r = rng.random()
        chain = None if r < 0.45 else ("first" if r < 0.75 else "last")
        entries.append((pname, chain, i))
    log = []

    def mk(i):
        def f(data):
            log.append(i)
            return data + [i]
        return f

    def build(entries_):
        rec = []
        for pname, chain, i in entries_:
            ch = {None: None, "first": real.Chain.FIRST, "last": real.Chain.LAST}[chain]
            rec.append(loader(preds[pname][1], mk(i), ch))
        return rec

    split = rng.randint(0, n)
    mode = rng.choice(["plain", "extend", "nested", "replace"])
    if mode == "extend":
        retort = Retort(recipe=build(entries[split:])).extend(recipe=build(entries[:split]))
    elif mode == "nested":
        # an inner retort placed first serves what it can from its own recipe; the outer recipe follows
        retort = Retort(recipe=[Retort(recipe=build(entries[:split])), *build(entries[split:])])
    elif mode == "replace":
        retort = Retort(recipe=build(entries)).replace(strict_coercion=False)
    else:
        retort = Retort(recipe=build(entries))

    def model_outcome(origin, field):
        cs, hs = [], []
        for pname, chain, i in entries:
            kind, _ = preds[pname]
            cs.append((pname, kind))
            hs.append({"h": "respond", "w": [i]} if chain is None else {"h": f"chain_{chain}", "f": i})
        matching = []
        for (pname, kind), h in zip(cs, hs):
            ok = (origin == pname) if kind == "exact" else sat(pname, origin, field)
            if ok:
                matching.append(h)
        if mode == "nested":
            # inner retort = one provider answering with the outcome of its own recipe (declines when it finds nothing)
            inner = py_spec_send([h for (idx, h), ((pn, kd)) in zip(enumerate(hs[:split]), cs[:split])
                                  if ((origin == pn) if kd == "exact" else sat(pn, origin, field))])
            outer = [h for h, (pn, kd) in zip(hs[split:], cs[split:])
                     if ((origin == pn) if kd == "exact" else sat(pn, origin, field))]
            head = {"h": "respond", "w": inner["w"]} if inner["r"] == "ok" else {"h": "decline"}
            return py_spec_send([head] + outer)
        return py_spec_send(matching)

    from adaptix import ProviderNotFoundError
    results = {}
    for origin, cls in concrete.items():
        log.clear()
        try:
            real_res = {"r": "ok", "w": retort.load([], cls)}
        except ProviderNotFoundError:
            real_res = {"r": "not_found"}
        spec = model_outcome(origin, None)
        results[origin] = real_res
        case = {"suite": "facade", "mode": mode, "split": split, "entries": entries, "load": origin}
        ctx.note_case(case, nontrivial=len(entries) >= 2, kind=f"facade-{mode}")
        if real_res != spec:
            ctx.fail("facade:outcome", f"Retort ({mode}, split {split}) recipe {entries} load {origin}: "
                     f"real {real_res}, documented {spec}", case)
        elif real_res["r"] == "ok" and len(set(log)) < len(log):
            ctx.fail("facade:applied-twice", f"recipe {entries} load {origin}: user functions applied {log}", case)
    # model fields: requests located at M.a / M.b (predicates that also match M itself are left to the other cases)
    # and a nested retort serves a model request *and its field requests* from its own recipe (covered by the
    # top-level loads above), so the field-located case is run for the flat modes only
    if mode == "nested" or any(p in ("ANY", "notA") for p, _, _ in entries):
        return
    log.clear()
    try:
        m = retort.load({"a": [], "b": []}, M)
        real_m = {"a": {"r": "ok", "w": m.a}, "b": {"r": "ok", "w": m.b}}
    except ProviderNotFoundError:
        real_m = None
    spec_m = {"a": model_outcome("A", "a"), "b": model_outcome("B", "b")}
    case = {"suite": "facade", "mode": mode, "split": split, "entries": entries, "load": "M"}
    ctx.note_case(case, nontrivial=True, kind=f"facade-{mode}-model")
    if real_m is None:
        if all(v["r"] == "ok" for v in spec_m.values()):
            ctx.fail("facade:outcome", f"Retort ({mode}, split {split}) recipe {entries}: loader for M not produced, documented {spec_m}", case)
    elif real_m != spec_m:
        if True:
            ctx.fail("facade:outcome", f"Retort ({mode}, split {split}) recipe {entries} load M: real {real_m}, documented {spec_m}", case)
    ctx.sample({"suite": "facade", "mode": mode, "entries": entries, "real": results}, every=211)


@dataclass
class RTree:
    value: int
    children: "list[RTree]"


@dataclass
class RNode:
    value: int
    next: "Optional[RNode]" = None


from typing import List, Optional  # noqa: E402  (names used by the forward references above)


def recursive_chain_case(ctx: Ctx, real: Real, rng, entries=None, direction=None):
    """Chaining providers on locations INSIDE self-referential models (the recursion goes through the retort's recursion
    stubs). Every entry is a chained (FIRST / LAST) identity function that logs its call; whatever the arrangement, a chained
    provider matching a location must be composed into the served loader/dumper exactly once at EVERY occurrence of the
    location, at every nesting depth: its function runs exactly (number of occurrences in the datum) times."""
    from adaptix import P, Retort, dumper, loader
    preds = {
        "Tree.children": (P[RTree].children, "tree", lambda n, ln: n), "list[Tree]": (List[RTree], "tree", lambda n, ln: n),
        "Tree": (RTree, "tree", lambda n, ln: n), "Tree.value": (P[RTree].value, "tree", lambda n, ln: n),
        "Node.next": (P[RNode].next, "node", lambda n, ln: ln), "Optional[Node]": (Optional[RNode], "node", lambda n, ln: ln),
        "Node": (RNode, "node", lambda n, ln: ln), "name:next": ("next", "node", lambda n, ln: ln),
        "name:children": ("children", "tree", lambda n, ln: n),
    }
    if entries is None:
        entries = [(rng.choice(list(preds)), rng.choice(["first", "last"]), i) for i in range(rng.randint(1, 4))]
        direction = rng.choice(["load", "dump"])
    log = []

    def mk(i):
        def f(data):
            log.append(i)
            return data
        return f
    make = loader if direction == "load" else dumper
    recipe = [make(preds[p][0], mk(i), {"first": real.Chain.FIRST, "last": real.Chain.LAST}[ch]) for p, ch, i in entries]

    def tree(depth, budget):
        kids = [] if depth == 0 else [tree(depth - 1, budget) for _ in range(rng.choice([0, 1, 2]))]
        return RTree(value=depth, children=kids)

    def count(t):
        return 1 + sum(count(c) for c in t.children)
    t = tree(rng.choice([1, 2, 3]), None)
    ln = rng.randint(1, 4)
    node = None
    for k in range(ln):
        node = RNode(value=k, next=node)
    n_tree = count(t)
    plain = Retort()
    retort = Retort(recipe=recipe)
    case = {"suite": "recursive-chain", "entries": [list(e) for e in entries], "direction": direction, "tree_nodes": n_tree,
            "chain_len": ln}
    ctx.note_case(case, nontrivial=n_tree > 1 or ln > 1, kind=f"recursive-chain:{direction}:{min(len(entries), 3)}-entries")
    for family, value, hint in (("tree", t, RTree), ("node", node, RNode)):
        log.clear()
        try:
            if direction == "load":
                datum = plain.dump(value, hint)
                if family == "node":
                    datum = _explicit_next(datum)
                out = retort.load(datum, hint)
                ok = out == value
            else:
                out = retort.dump(value, hint)
                ok = out == plain.dump(value, hint)
        except Exception as e:  # noqa: BLE001
            ctx.fail("recursive-chain:raises", f"{direction} of a recursive model with chained identity providers {entries} raises "
                     f"{type(e).__name__}: {e}", dict(case, family=family))
            continue
        if not ok:
            ctx.fail("recursive-chain:result", f"{direction} with chained identity providers {entries} changes the result", dict(case, family=family))
        for p, ch, i in entries:
            _, fam, occ = preds[p]
            want = occ(n_tree, ln) if fam == family else 0
            got = log.count(i)
            if got != want:
                ctx.fail(f"recursive-chain:composed-{'less' if got < want else 'more'}-than-once",
                         f"{direction} {hint.__name__} ({n_tree if family == 'tree' else ln} occurrences of every location): the "
                         f"chained provider #{i} on {p} ({ch}) ran {got} times, exactly {want} expected; recipe {entries}",
                         dict(case, family=family))
                break


def _explicit_next(d):
    """the dumped chain with the final `next: None` spelled out, so the field loader runs at every node"""
    if d is None:
        return None
    return {"value": d["value"], "next": _explicit_next(d.get("next"))}


def multi_predicate_case(ctx: Ctx, rng):
    """provider factories bound to SEVERAL predicates at once (enum_by_name(A, B, C), flag_by_member_names(F, G)) in front of the
    builtin recipe: every request for any of the listed types - in any order, loader and dumper, after unrelated and failing
    requests, through extend() / replace() clones sharing the provider objects - is served by that first matching provider"""
    import enum
    from dataclasses import dataclass as dc
    from typing import Callable

    from adaptix import Retort, enum_by_name, flag_by_member_names

    class E1(enum.Enum):
        X = 1
        Y = 2

    class E2(enum.Enum):
        X = 10

    class E3(enum.IntEnum):
        X = 5

    class F1(enum.Flag):
        P = 1
        Q = 2

    class F2(enum.Flag):
        P = 4

    @dc
    class Holder:
        n: int
        a: E1
        b: E2
    listed = rng.sample([E1, E2, E3], rng.randint(2, 3))
    flags = [F1, F2]
    retort = Retort(recipe=[enum_by_name(*listed), flag_by_member_names(*flags)])
    views = [retort]
    ops = []
    for _ in range(rng.randint(3, 9)):
        kind = rng.choice(["load", "dump", "dump", "load", "int", "fail", "holder", "clone"])
        if kind == "clone":
            views.append(rng.choice(views).extend(recipe=[]) if rng.random() < 0.5 else rng.choice(views).replace(strict_coercion=True))
            ops.append(["clone"])
            continue
        ops.append([kind, rng.choice(listed + flags).__name__, rng.randrange(len(views))])
    case = {"suite": "multi-predicate", "listed": [c.__name__ for c in listed], "ops": ops}
    ctx.note_case(case, nontrivial=True, kind=f"multi-predicate:{len(listed)}-enums")
    by_name = {c.__name__: c for c in [E1, E2, E3, F1, F2]}
    vi = 0
    views2 = [retort]
    for k, op in enumerate(ops):
        if op[0] == "clone":
            vi += 1
            continue
        kind, cname, v = op
        r = views[min(v, len(views) - 1)]
        cls = by_name[cname]
        try:
            if kind == "int":
                r.load(5, int)
                continue
            if kind == "fail":
                try:
                    r.get_loader(Callable[[int], int])
                except Exception:  # noqa: BLE001
                    pass
                continue
            if kind == "holder":
                if E1 in listed and E2 in listed:
                    got = r.dump(Holder(n=1, a=E1.Y, b=E2.X))
                    want = {"n": 1, "a": "Y", "b": "X"}
                    if got != want:
                        ctx.fail("multi-predicate:first-match", f"op #{k} dump(Holder) gives {got}, the first matching provider "
                                 f"(enum_by_name) gives {want}; ops {ops[:k + 1]}", case)
                        return
                continue
            member = list(cls)[0]
            if issubclass(cls, enum.Flag):
                want_dump, want_load = [member.name], member
            else:
                want_dump, want_load = member.name, member
            if kind == "dump":
                got = r.dump(member, cls)
                ok = got == want_dump
            else:
                got = r.load(want_dump, cls)
                ok = got is want_load
            if not ok:
                ctx.fail("multi-predicate:first-match", f"op #{k} {kind} {cname} is not served by the first matching provider "
                         f"(by name): got {got!r}; ops {ops[:k + 1]}", case)
                return
        except Exception as e:  # noqa: BLE001
            ctx.fail("multi-predicate:first-match", f"op #{k} {kind} {cname} raised {type(e).__name__} although the first matching "
                     f"provider (by name) serves it; ops {ops[:k + 1]}", case)
            return


def two_location_case(ctx: Ctx, real: Real, rng):
    """ONE model class at several locations of one retort, with providers whose predicates look ABOVE the model (P[Outer].a.x,
    P.b.x, ~P.a.x & P.x, chained or not): every field request is served by the first provider matching ITS location, whichever
    location was built first - the loader of the model at one location is not the loader of the model at another"""
    import dataclasses

    from adaptix import P, Retort, dumper, loader

    @dataclasses.dataclass
    class TInner:
        x: int

    order = rng.choice([("a", "b"), ("b", "a")])
    TOuter = dataclasses.make_dataclass("TOuter", [(nm, TInner) for nm in order])
    preds = {
        "P[Outer].a.x": (lambda: P[TOuter].a.x, {"a"}), "P.b.x": (lambda: P.b.x, {"b"}), "P.a.x": (lambda: P.a.x, {"a"}),
        "~P.a.x & P.x": (lambda: ~P.a.x & P.x, {"b", "top"}), "P[Inner].x": (lambda: P[TInner].x, {"a", "b", "top"}),
        "P[Outer].b": (lambda: P[TOuter].b.x | P[TOuter].b.x, {"b"}),
    }
    direction = rng.choice(["load", "dump"])
    make = loader if direction == "load" else dumper
    entries = []
    for i in range(rng.randint(1, 3)):
        pname = rng.choice(list(preds))
        chain = rng.choice([None, None, "first", "last"])
        entries.append((pname, chain, i))

    def fn(i):
        return lambda v, i=i: (v * 10 + i) if isinstance(v, int) else v
    recipe = [make(preds[p][0](), fn(i), {None: None, "first": real.Chain.FIRST, "last": real.Chain.LAST}[ch]) for p, ch, i in entries]
    warm = rng.choice(["none", "inner-first"])
    retort = Retort(recipe=recipe)

    def expect(loc):
        v = 1
        matching = [(p, ch, i) for p, ch, i in entries if loc in preds[p][1]]
        # first non-chain provider answers; chained ones before it wrap what follows
        out = v
        stack = []
        for p, ch, i in matching:
            if ch is None:
                stack.append(("final", i))
                break
            stack.append((ch, i))
        else:
            stack.append(("builtin", None))
        # evaluate: FIRST = user function then the rest; LAST = the rest then user function
        def run_from(k, val):
            kind, i = stack[k]
            if kind == "final":
                return fn(i)(val)
            if kind == "builtin":
                return val
            if kind == "first":
                return run_from(k + 1, fn(i)(val))
            return fn(i)(run_from(k + 1, val))
        return run_from(0, out)
    case = {"suite": "two-location", "entries": entries, "order": list(order), "direction": direction, "warm": warm}
    ctx.note_case(case, nontrivial=True, kind=f"two-location:{direction}:{warm}")
    try:
        if warm == "inner-first":
            top = retort.load({"x": 1}, TInner).x if direction == "load" else retort.dump(TInner(1))["x"]
            if top != expect("top"):
                ctx.fail("two-location:first-match", f"top-level Inner.x is {top}, first match gives {expect('top')}; recipe {entries}", case)
                return
        if direction == "load":
            o = retort.load({nm: {"x": 1} for nm in order}, TOuter)
            got = {nm: getattr(o, nm).x for nm in order}
        else:
            d = retort.dump(TOuter(**{nm: TInner(1) for nm in order}))
            got = {nm: d[nm]["x"] for nm in order}
    except Exception as e:  # noqa: BLE001
        ctx.fail("two-location:raises", f"{direction} raises {type(e).__name__}: {e}"[:200], case)
        return
    want = {nm: expect(nm) for nm in order}
    if got != want:
        ctx.fail("two-location:first-match", f"{direction} of Outer{order} with recipe {entries} (first use: {warm}): field values {got}, "
                 f"first match per location gives {want}", case)


def conversion_facade_case(ctx: Ctx, rng):
    """first-match order through the conversion facade: recipe of the retort, `extend(recipe=...)` (prepends) and the per-call
    `recipe=` of get_converter / convert (prepends to everything), requested in any order on one retort"""
    from dataclasses import dataclass

    from adaptix.conversion import ConversionRetort, coercer

    @dataclass
    class CS:
        v: int

    @dataclass
    class CD:
        v: int

    def entry(i):
        return coercer(int, int, lambda x, i=i: i)
    base = list(range(rng.randint(0, 3)))
    ext = [10 + i for i in range(rng.randint(0, 2))]
    per_call = [[], [20], [21, 22]]
    retort = ConversionRetort(recipe=[entry(i) for i in base])
    if ext or rng.random() < 0.5:
        retort = retort.extend(recipe=[entry(i) for i in ext])
    calls = [rng.choice(per_call) for _ in range(rng.randint(1, 4))]
    case = {"suite": "conversion-facade", "base": base, "extend": ext, "calls": calls}
    ctx.note_case(case, nontrivial=len(calls) > 1, kind=f"conversion-facade:{min(len(calls), 3)}-calls")
    for k, pc in enumerate(calls):
        order = pc + ext + base
        want = order[0] if order else 5          # nothing matches: int -> int is copied as is
        kw = {"recipe": [entry(i) for i in pc]} if pc else {}
        try:
            got = (retort.get_converter(CS, CD, **kw)(CS(5)) if rng.random() < 0.5 else retort.convert(CS(5), CD, **kw)).v
        except Exception as e:  # noqa: BLE001
            ctx.fail("conversion-facade:raises", f"call #{k} with recipe {pc} raised {type(e).__name__}: {e}"[:200], case)
            return
        if got != want:
            ctx.fail("conversion-facade:first-match", f"call #{k} with per-call recipe {pc} after calls {calls[:k]} (extend {ext}, base "
                     f"{base}) is served by entry {got}; first match in recipe order is {want}", case)
            return


def facade_options(ctx: Ctx, real: Real):
    """replace() changes only scalar options; a nested retort keeps its own options."""
    from adaptix import Retort
    from adaptix.load_error import LoadError
    r = Retort(recipe=[real.loader(str, lambda d: "outer:" + d)])
    lax = r.replace(strict_coercion=False)
    case = {"suite": "facade", "mode": "replace-options"}
    ctx.note_case(case, nontrivial=True, kind="facade-options")
    try:
        r.load("1", int)
        ctx.fail("facade:replace", "strict retort accepted '1' for int", case)
    except LoadError:
        pass
    if lax.load("1", int) != 1 or lax.load("x", str) != "outer:x" or r.load("x", str) != "outer:x":
        ctx.fail("facade:replace", "replace(strict_coercion=False) changed more than the option", case)
    inner = Retort(strict_coercion=False)
    outer = Retort(recipe=[inner], strict_coercion=True)
    ctx.note_case({"suite": "facade", "mode": "nested-options"}, nontrivial=True, kind="facade-options")
    if outer.load("1", int) != 1:
        ctx.fail("facade:nested-options", "a retort in a recipe did not serve the request with its own options",
                 {"suite": "facade", "mode": "nested-options"})


def suite_histories(ctx: Ctx, drv, n_random: int):
    """multi-step retort histories (c09_histories): direct oracle from the recipes alone + correspondence with `serveTree`"""
    uni = c09_histories.Universe()
    histories = c09_histories.directed_histories() + [c09_histories.gen_history(ctx.rng) for _ in range(n_random)]
    observations = []
    for ops in histories:
        observations += c09_histories.run_history(ctx, uni, ops, py_spec_send)
    if not drv:
        return
    requests, index, cache = [], [], {}
    for case, what, got, queries in observations:
        slots = {}
        for k, (tree, req) in queries.items():
            key = core_canon((tree, req))
            if key not in cache:
                cache[key] = len(requests)
                requests.append({"op": "serve_tree", "recipe": tree["recipe"], "opt": tree["opt"], "depth": _depth(tree) + 1,
                                 "req": req})
            slots[k] = cache[key]
        index.append(slots)
    replies = drv.batch(requests)
    n = d = 0
    for (case, what, got, queries), slots in zip(observations, index):
        results = {k: replies[i].get("ok") for k, i in slots.items()}
        n += 1
        if any(not isinstance(r, dict) or "r" not in r for r in results.values()):
            d += 1
            ctx.disagree("facade-history", case, list(got), {k: replies[i] for k, i in slots.items()})
            continue
        ok, want = c09_histories.judge(what, got, results)
        if ok is False:
            d += 1
            ctx.disagree("facade-history", case, list(got), {"model_outcomes": results, "shown_as": want})
    ctx.suite("facade-history", n, d)


def core_canon(obj):
    from harness.core import canon
    return canon(obj)


def _depth(tree):
    return 1 + max([_depth(e) for e in tree["recipe"] if e["p"] == "nested"], default=0)


def run(ctx: Ctx):
    real = Real()
    drv = None
    if ctx.driver_ok:
        try:
            drv = Driver("drv_c09")
        except InfraError:
            drv = None
    thorough = ctx.tier == "thorough"
    suite_items_and_walk(ctx, real, drv, max_len=5 if thorough else 4, extra_random=20000 if thorough else 1500)
    suite_send(ctx, real, drv, n_random=60000 if thorough else 4000, exhaustive_len=3 if thorough else 2)
    for _ in range(ctx.budget(400, 6000)):
        facade_case(ctx, real, ctx.rng)
    facade_options(ctx, real)
    suite_histories(ctx, drv, ctx.budget(140, 3000))
    for _ in range(ctx.budget(150, 3000)):
        recursive_chain_case(ctx, real, ctx.rng)
    for _ in range(ctx.budget(200, 3000)):
        conversion_facade_case(ctx, ctx.rng)
    for _ in range(ctx.budget(120, 2000)):
        multi_predicate_case(ctx, ctx.rng)
    for _ in range(ctx.budget(200, 3000)):
        two_location_case(ctx, real, ctx.rng)
    ctx.extra["exhaustive"] = False
    ctx.extra["exhaustive_part"] = f"router items/walk: all checker lists of length <= {5 if thorough else 4} over 5 checkers x 12 requests"


def search(ctx: Ctx):
    """Directed search after a broken tie: the disagreeing cases first, then a larger random budget."""
    real = Real()
    for d in ctx.disagreements[:200]:
        c = d["case"]
        if "handlers" in c:
            check_send_case(ctx, real, c["checkers"], c["handlers"], c["req"], suite="search")
    if not ctx.failures:
        suite_send(ctx, real, None, n_random=20000, exhaustive_len=3)
        suite_items_and_walk(ctx, real, None, max_len=4, extra_random=5000)
    if not ctx.failures:
        suite_histories(ctx, None, 1500)
    if not ctx.failures:
        for _ in range(1500):
            recursive_chain_case(ctx, real, ctx.rng)
    if not ctx.failures:
        for _ in range(1500):
            conversion_facade_case(ctx, ctx.rng)
    if not ctx.failures:
        for _ in range(1000):
            multi_predicate_case(ctx, ctx.rng)
    if not ctx.failures:
        for _ in range(1500):
            two_location_case(ctx, real, ctx.rng)


def replay(ctx: Ctx, case) -> bool:
    real = Real()
    before = len(ctx.failures)
    if case.get("suite") in ("bus-send", "search"):
        check_send_case(ctx, real, case["checkers"], case["handlers"], case["req"])
    elif case.get("suite") == "router-walk":
        router, _ = real.items(case["checkers"])
        seen = real.walk(router, case["req"])
        expect = [i for i, c in enumerate(case["checkers"]) if py_check(c, case["req"])]
        if seen != expect:
            ctx.fail("walk", f"consulted {seen}, first-match order {expect}", case)
    elif case.get("suite") == "facade-history":
        c09_histories.run_history(ctx, c09_histories.Universe(), case["ops"], py_spec_send)
    elif case.get("suite") == "recursive-chain":
        import random
        for k in range(40):
            recursive_chain_case(ctx, real, random.Random(k), entries=[tuple(e) for e in case["entries"]], direction=case["direction"])
    else:
        return False
    return len(ctx.failures) > before
