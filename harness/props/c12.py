"""C12 — a shared retort is safe under concurrent first use.

Lean side: AdaptixModel/Retort/Threads.lean (labelled transition system of the retort's lookup / creation /
caching code at GIL-atomic granularity), AdaptixProofs/Props/C12.lean (theorems over any number of threads and
any schedule).
Tie: no source hook.  `harness/scheduler.py` drives *real* threads deterministically through `sys.settrace` line
events (yield points located by function name + AST statement shape).  Correspondence `schedule-run`: for every
explored schedule the real sequence of abstract actions (loader-cache hit/miss/store, call-cache
contains/get/store with the identities of the closures and stubs in the key, stub new/reuse/bind, call outcome)
must equal the trace of the Lean model run on the same schedule.
Direct oracle (real code only): every call completes (no exception, no deadlock), returns what a fresh
single-threaded retort returns, loaders obtained concurrently work afterwards on deeper data, generated file names
are unique.
Requests that legitimately FAIL are part of the input space (generated family `mix:...`, see FAILING_REQUESTS): a
thread asking for a type nobody can load gets ProviderNotFoundError exactly as single-threaded - and must not disturb
the valid first requests racing with it (they sit inside `cached_call` between `key in cache` and `cache[key]`).
Leaf failures are modelled (`stepRaise`, `specRes`; theorems `cached_call_read_never_misses`,
`call_cache_insert_only`, `failing_request_gets_not_found`); requests failing half-way are oracle-only.
Threads that DERIVE a retort from the shared one are part of the input space too (generated family `drv:...`, see
DERIVATIONS): `retort.replace(...)` / `retort.extend(...)` is a call on the shared retort like any other - it must
complete and the retort it returns must behave exactly as one derived single-threaded - while other threads make
first requests on the origin, which may have been used before (`warm`).  For this family the scheduler also yields at
every statement that touches the contents of a shared cache (scheduler.py, `shared` points) and, at statement
granularity, at every line the cloning code executes.
Statement-level preemption everywhere (generated family `wid:...`, see WIDE_*): on a retort that has been used for
OTHER types before, one thread is preempted in front of every line of every function of every module that can hold
state shared by the threads of one retort (the `retort` package + the modules of everything reachable from a used
retort; discovered, not listed) while another runs a complete first request / a call through an obtained loader.
These points have no counterpart in the model: direct oracle only, counted in the evidence.
"""

import linecache
import time
from dataclasses import dataclass, fields, is_dataclass
from pathlib import Path
from typing import Callable, List, Optional, get_args, get_origin, Union

from harness import core
from harness import scheduler as S
from harness.core import Ctx, Driver, InfraError

ID = "C12"
CLAIM = {
    "technique": "Lean 4 proof (inductive invariant over an interleaving transition system, induction on the "
                 "schedule) + model/code correspondence under a deterministic scheduler for real threads",
    "text": (
        "Proved in Lean for ANY number of threads and ANY interleaving of their GIL-atomic actions (unbounded: "
        "induction on the schedule), any type graph (self-/mutually recursive, shared sub-types): with recursion "
        "stubs compared by identity (the repaired FuncWrapper) an inductive invariant (safe_inv) shows that no "
        "loader is ever called while a stub reachable from it is unbound (no_unbound_call), that whatever is in "
        "the loader cache stays callable later (cached_loaders_stay_callable) and - under `typed` - computes the "
        "unfolding of its type on data of any depth (cached_loaders_compute_the_unfolding), that a value a "
        "loader returned is returned after every continuation of the schedule (returned_value_is_stable), that every thread finishes within "
        "3*len+6 of its own actions whatever the others do (every_thread_finishes: no deadlock; the only lock "
        "guards a straight-line section), and - for request programs passing the schedule-independent static "
        "check `typed`, evaluated by the driver for every explored graph - that every call returns the unfolding "
        "of its type, hence exactly what the sequential run returns (all_schedules_safe). A thread may also issue a "
        "request nobody can satisfy (a type no shape provider recognises): it ends with ProviderNotFoundError under "
        "every interleaving (failing_request_gets_not_found), its failure touches nothing shared, both caches are "
        "insert-only along every schedule (call_cache_insert_only, loader_cache_insert_only) and therefore the "
        "read `self._call_cache[key]` after `key in self._call_cache` finds its entry whatever other threads did "
        "in between (cached_call_read_never_misses). Deriving a retort from the shared one (Retort.replace / "
        "Retort.extend) while other threads store into its caches has its own small model "
        "(AdaptixModel/Retort/Derive.lean: a Python dict with the size check of its iterator, a schedule of clone "
        "steps and arbitrary stores): the code as it is - the clone starts from an empty cache and never reads the "
        "origin's - cannot fail, takes one atomic step and yields an empty cache under every interleaving "
        "(fresh_clone_is_safe, fresh_clone_completes), an atomic copy is safe too (snapshot_clone_is_safe), whereas "
        "iterating over the live dict raises as soon as ANY store of a new key falls inside the iteration "
        "(store_inside_the_iteration_is_fatal, iterate_has_a_bad_schedule: one preemption suffices for every "
        "origin). For the unrepaired "
        "FuncWrapper (stubs equal by location) the faithful model has a 2-thread schedule with ONE preemption "
        "that calls an unbound stub (exists_bad_schedule, kernel evaluation); the harness replays it on the real "
        "retort. The model is tied to the code by replaying every explored schedule on real threads under a "
        "deterministic scheduler and comparing the full action trace (cache hit/miss/store with object "
        "identities, stub new/reuse/bind, call outcomes)."
    ),
    "note": (
        "Trusted: Lean 4.33 kernel; axioms audited each run. The theorems are about the Lean model; the model is "
        "hand-written and tied to /repo by the schedule-run correspondence (quick: all schedules with <= 1 "
        "preemption over 9 two-thread type graphs, <= 2 sampled, random and statement-granularity schedules; "
        "thorough: <= 2 exhaustive, <= 4 sampled; plus the generated family 'a failing request races with a valid "
        "one': 6 failing x 9 valid requests, all schedules with <= 1 preemption for a seed-drawn subset (quick: 3-5 "
        "pairs, thorough: about 20 of the 54 pairs); and the generated family 'a thread derives a retort with "
        "replace / extend (5 derivations) from the shared, possibly already used retort and works with it while the "
        "others make first requests on the origin': all schedules with <= 1 preemption for 2-4 seed-drawn members "
        "(thorough: about 20), every derivation compared with the Derive model run on the same interleaving (suite "
        "derive-run: completes, one step touching a shared cache, empty caches), the results of the derived and of "
        "the shared retort compared with single-threaded runs). Derived retorts are not part of the big transition "
        "system (it has ONE retort); what ties the two models is only that the code hands the clone fresh dicts. "
        "Assumed: CPython with the GIL makes a single dict lookup / "
        "dict store / attribute store atomic; preemption inside C-level operations cannot be exhibited by line "
        "tracing; of the failing requests only those for an unloadable ROOT type are modelled (a request failing "
        "half-way, below a model, is checked by the direct oracle only); `typed` is checked per graph, "
        "not proved for all graphs. Needs fixes/C12-stub-identity.patch in /repo: on the unpatched tree the "
        "check reports the violation with the failing schedule."
    ),
    "design_ref": "DESIGN.md §4 C12",
}
PROPS_FILE = "AdaptixProofs/Props/C12.lean"
EXTRA_PROPS_FILES = ["AdaptixProofs/Props/C12Derive.lean"]
LEAN_TARGETS = ["AdaptixProofs.Props.C12", "AdaptixProofs.Props.C12Derive", "drv_c12"]
RULE = ("a case is one schedule of 2-3 real threads racing on the first get_loader/get_dumper + call of one "
        "retort over 11 type-graph scenarios; quick: ALL schedules with <= 1 preemption for the 9 two-thread "
        "scenarios (sampled for the 2 expensive ones), <= 2 preemptions exhaustive for the plain model and sampled "
        "in randomised order elsewhere, plus random, malformed and facade-form schedules at yield-point "
        "granularity and random schedules at statement granularity (oracle only); thorough: <= 2 exhaustive for 7 "
        "scenarios, <= 3 / <= 4 sampled. Generated family: one thread issues a request that legitimately fails "
        "(unloadable leaf for load / dump, model with an unloadable field, recursive model with an unloadable field, "
        "Optional of such a model), the other(s) a valid first request (9 kinds: call-cache hits inside one request, "
        "recursion stubs, dumpers); quick: ALL schedules with <= 1 preemption for one seed-drawn victim per failing "
        "request within 6 s, thorough: the pairs in seed order within 45 s + <= 2 sampled with 2-3 threads; members of the family also in the "
        "random / facade / malformed / statement-granularity stages (3 in 10). Generated family 2: one thread derives "
        "a retort from the shared one (replace(strict_coercion=False) with ints spelled as strings, "
        "replace(debug_trail=DISABLE), replace(hide_traceback=False), extend(recipe=[]), extend(recipe=[loader(int, "
        "v+1)])) and issues a request on it, the other(s) make a first request (valid or failing) on the origin, which "
        "has been used before for 0-3 other types; scheduling points = the located yield points + every statement of "
        "the traced files that touches the contents of a shared cache (AST shape, one point per line event: a loop "
        "over a cache yields per iteration); quick: ALL schedules with <= 1 preemption for the members in seed order "
        "within 4.5 s + 1.5 s of random schedules at statement granularity in which every line executed by the cloning "
        "code is a preemption point; thorough: 25 s + 9 s of <= 2 sampled with 2-3 threads + 11 s; members also in the "
        "random / facade / malformed / statement-granularity stages (3 in 20). Generated family 3 (oracle only, no model "
        "counterpart): on a retort used single-threaded for other types before (0-2 requests; root types int, str, "
        "List[int], Optional[int] and the models), one thread is preempted in front of every line event of every "
        "function of the discovered modules that can hold shared state (retort package: first 3 executions of a line; "
        "modules of every object reachable from a used retort: first execution), the other runs its complete first "
        "request + call, or only a call through a loader obtained before, in one piece; races on the same type, on a "
        "type the other requests below its root, on unrelated types; quick: ALL schedules with <= 1 preemption for the "
        "same-scalar member (~220), 2 s slices in seed order for the members with ~1000 points, 2.6 s of <= 2 sampled "
        "on random members; thorough: 70 s. A case is non-trivial when at least two threads were inside the creation "
        "code at the same time (their actions interleave before the first loader-cache store)")
ASSUMPTIONS = [
    "GIL atomicity of a single dict lookup, dict store and attribute store (CPython 3.12 with the GIL; "
    "free-threaded builds are out of scope)",
    "preemption inside C-level operations (dict.__contains__ calling __eq__ of a key, compile()) cannot be "
    "exhibited by line tracing; the model treats them as atomic",
    "thread-local work between two shared accesses is merged into one action (it commutes with the actions of "
    "other threads)",
    "of the requests that fail only those for an unloadable ROOT type are modelled (all shape probes raise, "
    "nothing is stored, `_facade_provide` raises); a request that fails half-way (an unloadable type below a model) "
    "is run under the direct oracle only",
    "a derivation (replace / extend) is modelled on its own (Derive.lean: cloning strategy x arbitrary concurrent "
    "stores), not inside the transition system of the requests; `copy(self)` of the retort object is one C-level "
    "operation; statements that touch a shared cache are recognised syntactically (attribute name, local alias, "
    "string constant naming the attribute) - an access through a helper that receives the dict as a parameter is "
    "only met at statement granularity (wide tracing of the cloning code)",
    "statement-level preemption of the family `wid:` is bounded: the first 3 executions of a line in the retort "
    "package, the first in provider-level modules; <= 1 preemption exhaustively only for scalar requests in the quick "
    "tier; these preemption points are outside the Lean model (direct oracle only)",
    "ConcurrentCounter's critical section is one atomic action of the model (it touches only the counter and "
    "cannot block); the harness still preempts inside it and treats the lock as a lock",
]
TRUSTED = [
    "harness/scheduler.py: sys.settrace line events are delivered before the statement runs; exactly one "
    "controlled thread runs between two yield points",
]


# ---------------------------------------------------------------------------
# type universe (module level: forward references must resolve)
# ---------------------------------------------------------------------------

@dataclass
class Node:
    v: int
    next: Optional["Node"] = None


@dataclass
class Chain:
    next: Optional["Chain"] = None


@dataclass
class MA:
    b: "MB"


@dataclass
class MB:
    a: Optional[MA] = None


@dataclass
class Tree:
    kids: List["Tree"]


@dataclass
class Sub:
    x: int


@dataclass
class Pair:
    l: Sub
    r: Sub


@dataclass
class Single:
    s: Sub


@dataclass
class Holder:
    node: Node


@dataclass
class Tri:
    a: Optional["Tri"] = None
    b: Optional["Tri"] = None
    c: Optional["Tri"] = None


@dataclass
class Twin:
    a: int
    b: int          # the second field of one type: its loader is a call-cache HIT inside one request


# --- requests that legitimately FAIL (single-threaded outcome: ProviderNotFoundError) --------------------------------
# leaves nobody can load or dump: every shape provider is probed through `cached_call` and raises, nothing is stored
Unloadable = Callable[[int], int]


class Opaque:
    """a plain class without fields: no shape provider recognises it"""


@dataclass
class Half:
    """fails half-way: the int loader and the shape are already in the shared call cache when `bad` fails"""
    a: int
    bad: Unloadable
    c: int


@dataclass
class RecBad:
    """fails inside a recursion: the request dies while one of its stubs is still unbound"""
    next: Optional["RecBad"]
    bad: Unloadable


@dataclass
class OptBad:
    inner: Optional[Half] = None


UNLOADABLE_LEAVES = {"Unloadable": Unloadable, "Opaque": Opaque}

_NS = {c.__name__: c for c in (Node, Chain, MA, MB, Tree, Sub, Pair, Single, Holder, Tri, Twin, Half, RecBad, OptBad,
                                Opaque)}
ROOT_TYPES = {**_NS, "Unloadable": Unloadable}       # root types of generated scenarios by `type_name` (replay)
# scalars and containers of scalars as ROOT types (family `wid:`; oracle only: the transition system of Threads.lean
# has no program for an `int` dumper or a `str` loader - `Universe.ty` refuses them, the scenario is then not modelled)
ROOT_TYPES.update({"int": int, "str": str, "List[int]": List[int], "Optional[int]": Optional[int]})


def is_unloadable_leaf(tp) -> bool:
    return any(tp is u or tp == u for u in UNLOADABLE_LEAVES.values())


def _resolve(tp):
    """evaluate forward references the way adaptix sees the field types"""
    import typing
    if isinstance(tp, str):
        return _NS[tp]
    if isinstance(tp, typing.ForwardRef):
        return _NS[tp.__forward_arg__]
    origin = get_origin(tp)
    if origin is Union:
        return Optional[_resolve([a for a in get_args(tp) if a is not type(None)][0])]
    if origin in (list, List):
        return List[_resolve(get_args(tp)[0])]
    return tp


def field_types(cls):
    import typing
    hints = typing.get_type_hints(cls, globalns=dict(_NS), localns=dict(_NS))
    return [(f.name, hints[f.name]) for f in fields(cls)]


def type_name(tp) -> str:
    if is_dataclass(tp):
        return tp.__name__
    for name, u in UNLOADABLE_LEAVES.items():
        if tp is u or tp == u:
            return name
    if tp is int:
        return "int"
    if tp is str:
        return "str"
    origin = get_origin(tp)
    if origin is Union:
        return f"Optional[{type_name(_resolve(tp).__args__[0])}]"
    if origin in (list, List):
        return f"List[{type_name(get_args(tp)[0])}]"
    return repr(tp)


SITES = {
    # name -> id ; display name is what the real trace shows (qualname of the function given to cached_call)
    "shape_nt": (1, "ShapeProvider._get_shape"),
    "shape_td": (2, "ShapeProvider._get_shape"),
    "shape_dc": (3, "ShapeProvider._get_shape"),
    "model_loader": (10, "ModelLoaderProvider._make_loader"),
    "model_dumper": (11, "ModelDumperProvider._make_dumper"),
    "opt_loader": (12, "UnionProvider._single_optional_dt_loader"),
    "opt_dumper": (13, "UnionProvider._get_single_optional_dumper"),
    "list_loader": (14, "IterableProvider._make_loader"),
    "list_dumper": (15, "IterableProvider._make_dumper"),
    "int_loader": (16, "ScalarProvider._make_loader"),
    # the other shape providers of BUILTIN_SHAPE_PROVIDER, in order (only a request for a type that is no model at
    # all gets this far: all seven raise CannotProvide)
    "shape_attrs": (4, "ShapeProvider._get_shape"),
    "shape_sa": (5, "ShapeProvider._get_shape"),
    "shape_pyd": (6, "ShapeProvider._get_shape"),
    "shape_init": (7, "ShapeProvider._get_shape"),
}
SHAPE_PROBES = ["shape_nt", "shape_td", "shape_dc", "shape_attrs", "shape_sa", "shape_pyd", "shape_init"]
SITE_DISPLAY = {i: d for i, d in SITES.values()}


class Universe:
    """Type graph of a set of root types in one direction-tagged id space, mirroring what the providers request."""

    def __init__(self):
        self.ty_ids: dict[tuple[str, str], int] = {}      # (direction, type name) -> ty id
        self.ty_names: dict[int, str] = {}
        self.cls_ids: dict[str, int] = {}
        self.loc_ids: dict[tuple, int] = {}
        self.loc_ty: dict[int, int] = {}
        self.nodes: dict[int, dict] = {}
        self.tops: dict[int, int] = {}
        self.loc_desc: dict[int, str] = {}

    def loc(self, direction: str, key: tuple, ty: int) -> int:
        """loc ids are per direction (loader and dumper requests never share a resolver); the description is not"""
        if (direction, key) not in self.loc_ids:
            i = len(self.loc_ids) + 1
            self.loc_ids[(direction, key)] = i
            self.loc_ty[i] = ty
            self.loc_desc[i] = ":".join(str(k) for k in key)
        return self.loc_ids[(direction, key)]

    def ty(self, direction: str, tp, root: bool = True) -> int:
        tp = _resolve(tp)
        name = type_name(tp)
        if is_unloadable_leaf(tp) and not root:
            raise InfraError("a request that fails half-way (an unloadable type below a model) is outside the model")
        k = (direction, name)
        if k in self.ty_ids:
            return self.ty_ids[k]
        i = len(self.ty_ids) + 1
        self.ty_ids[k] = i
        self.ty_names[i] = f"{direction}:{name}"
        ld = direction == "load"
        if is_dataclass(tp):
            cid = self.cls_ids.setdefault(name, 1000 + len(self.cls_ids))
            children = []
            for fname, ftp in field_types(tp):
                ftp = _resolve(ftp)
                fty = self.ty(direction, ftp, False)
                children.append(self.loc(direction, ("InputFieldLoc" if ld else "OutputFieldLoc", fname, type_name(ftp)), fty))
            self.nodes[i] = {"ty": i, "site": SITES["model_loader" if ld else "model_dumper"][0], "kind": "fresh",
                             "pre": [[SITES["shape_nt"][0], cid, "fail"], [SITES["shape_td"][0], cid, "fail"],
                                     [SITES["shape_dc"][0], cid, "aux"]],
                             "children": children}
        elif tp is int:
            if not ld:
                raise InfraError("int dumpers make no cached_call; dumper scenarios use scalar-free models")
            self.nodes[i] = {"ty": i, "site": SITES["int_loader"][0], "kind": ["prim", 1], "pre": [], "children": []}
        elif get_origin(tp) is Union:
            arg = tp.__args__[0]
            aty = self.ty(direction, arg, False)
            self.nodes[i] = {"ty": i, "site": SITES["opt_loader" if ld else "opt_dumper"][0], "kind": "fresh_nullable",
                             "pre": [], "children": [self.loc(direction, ("GenericParamLoc", 0, type_name(arg)), aty)]}
        elif get_origin(tp) in (list, List):
            arg = get_args(tp)[0]
            aty = self.ty(direction, arg, False)
            self.nodes[i] = {"ty": i, "site": SITES["list_loader" if ld else "list_dumper"][0], "kind": "fresh_nullable",
                             "pre": [], "children": [self.loc(direction, ("GenericParamLoc", 0, type_name(arg)), aty)]}
        elif is_unloadable_leaf(tp):
            # ModelLoaderProvider / ModelDumperProvider ask every shape provider in turn (each through cached_call);
            # all raise CannotProvide, nothing is stored, the request ends with ProviderNotFoundError
            cid = self.cls_ids.setdefault(name, 1000 + len(self.cls_ids))
            self.nodes[i] = {"ty": i, "site": SITES[SHAPE_PROBES[-1]][0], "kind": "fail",
                             "pre": [[SITES[p][0], cid, "fail"] for p in SHAPE_PROBES[:-1]], "children": []}
        else:
            raise InfraError(f"type outside the C12 universe: {tp!r}")
        self.tops[i] = self.loc(direction, ("TypeHintLoc", type_name(tp)), i)
        return i

    def graph_json(self) -> dict:
        return {"nodes": [self.nodes[i] for i in sorted(self.nodes)],
                "locs": [[l, t] for l, t in sorted(self.loc_ty.items())],
                "tops": [[t, l] for t, l in sorted(self.tops.items())]}

    def fuel(self) -> int:
        return 2 * len(self.loc_ids) + 4


def gen_data(tp, depth: int, direction: str):
    """canonical datum of nesting depth `depth`: Optional is None / a list is empty at depth 0"""
    tp = _resolve(tp)
    if tp is int or is_unloadable_leaf(tp):
        return 7            # (an unloadable leaf never gets as far as looking at data)
    if tp is str:
        return "s" * (depth + 1)
    if is_dataclass(tp):
        vals = {n: gen_data(t, depth, direction) for n, t in field_types(tp)}
        return vals if direction == "load" else tp(**vals)
    if get_origin(tp) is Union:
        return None if depth == 0 else gen_data(tp.__args__[0], depth - 1, direction)
    if get_origin(tp) in (list, List):
        return [] if depth == 0 else [gen_data(get_args(tp)[0], depth - 1, direction)]
    raise InfraError(f"no data for {tp!r}")


# name -> list of threads (direction, root type, depth)
SCENARIOS = {
    "chain-self-recursive": [("load", Chain, 3), ("load", Chain, 3)],
    "node-self-recursive": [("load", Node, 3), ("load", Node, 3)],
    "mutual-recursive": [("load", MA, 3), ("load", MB, 3)],
    "mutual-recursive-same": [("load", MA, 3), ("load", MA, 3)],
    "list-recursive-dump": [("dump", Tree, 3), ("dump", Tree, 3)],
    "list-recursive-load-dump": [("load", Tree, 2), ("dump", Tree, 2)],
    "shared-submodel": [("load", Pair, 0), ("load", Single, 0)],
    "plain-model": [("load", Sub, 0), ("load", Sub, 0)],
    "holder-and-node": [("load", Holder, 3), ("load", Node, 3)],
    "three-threads-chain": [("load", Chain, 3), ("load", Chain, 3), ("load", Chain, 3)],
    "stub-reuse-tri": [("load", Tri, 2), ("load", Tri, 2)],
}
QUICK_FULL2 = ["plain-model"]                                   # exhaustive <= 2 preemptions also in the quick tier
QUICK_SLICED = ["three-threads-chain", "stub-reuse-tri"]        # <= 1 preemption only sampled in the quick tier
THOROUGH_SLICED = ["three-threads-chain", "stub-reuse-tri", "holder-and-node", "mutual-recursive-same"]
#                                                                 <= 2 preemptions only sampled in the thorough tier

# ---------------------------------------------------------------------------
# generated scenarios: a request that legitimately FAILS races with valid first requests
# ---------------------------------------------------------------------------
# The property quantifies over the threads that use the retort, not over threads whose requests succeed: the
# documented outcome of `get_loader(<type nobody can load>)` is ProviderNotFoundError with or without threads, and a
# thread that gets it must not disturb the others.  A scenario of this family is a multiset of requests drawn from
# the two pools below with at least one failing and one valid request; its name spells the requests out
# ("mix:load:Unloadable:0|load:Twin:0"), so a recorded case replays without a table.
FAILING_REQUESTS = [
    ("load", Unloadable, 0),    # leaf failure: seven probes through cached_call, nothing stored (modelled)
    ("dump", Unloadable, 0),
    ("load", Opaque, 0),
    ("load", Half, 0),          # fails half-way, after it has stored entries other requests hit (oracle only)
    ("load", RecBad, 1),        # fails with an unbound stub of its own (oracle only)
    ("load", OptBad, 1),
]
VALID_REQUESTS = [
    ("load", Twin, 0),          # two fields of one type: call-cache hit inside the request
    ("load", Pair, 0),          # two fields of one model type: hits on shape, model loader
    ("load", Chain, 3), ("load", Node, 3), ("load", MA, 3), ("load", Holder, 3), ("load", Tri, 2),   # recursion stubs
    ("dump", Tree, 2),
    ("load", Sub, 0),           # no hit at all
]


# victims whose <= 1-preemption exploration costs 1-2 s: the quick tier draws from these (the expensive ones - long
# traces of Tri / Holder / MA - are explored in the thorough tier and met in the random stages)
QUICK_VICTIMS = [r for r in VALID_REQUESTS if r[1] in (Twin, Pair, Chain, Node, Tree, Sub)]


# requests a deriving thread issues on the retort it derived (cheap: the point is the derivation, and the derived
# retort starts from empty caches), and requests that warm the origin up
DERIVED_REQUESTS = [("load", Sub, 0), ("load", Twin, 0), ("load", Pair, 0), ("load", Node, 1), ("dump", Tree, 1)]
WARM_REQUESTS = [("load", Twin, 0), ("load", Pair, 0), ("load", Sub, 0), ("load", Node, 3), ("load", Chain, 3),
                 ("dump", Tree, 2)]


def request_name(req) -> str:
    d, tp, depth = req
    return f"{d}:{type_name(tp)}:{depth}"


def mixed_name(threads) -> str:
    return "mix:" + "|".join(request_name(r) for r in threads)


def threads_from_name(name: str):
    """inverse of `mixed_name` (None when the name is not of that family or names an unknown type)"""
    if not name.startswith("mix:"):
        return None
    out = []
    for part in name[4:].split("|"):
        bits = part.split(":")
        if len(bits) != 3 or bits[0] not in ("load", "dump") or bits[1] not in ROOT_TYPES or not bits[2].isdigit():
            return None
        out.append((bits[0], ROOT_TYPES[bits[1]], int(bits[2])))
    return out


def mixed_pairs():
    """every (failing, valid) pair: the systematic part of the family.  One thread order is enough for the bounded
    exploration: the first scheduling decision is free, so the schedules with <= k preemptions of [v, f] and of
    [f, v] are the same interleavings."""
    return [[v, f] for f in FAILING_REQUESTS for v in VALID_REQUESTS]


def mixed_random(rng):
    """a random member of the family: 2-3 threads, at least one failing and one valid request"""
    n = rng.choice([2, 2, 3])
    threads = [rng.choice(FAILING_REQUESTS), rng.choice(VALID_REQUESTS)]
    while len(threads) < n:
        threads.append(rng.choice(FAILING_REQUESTS + VALID_REQUESTS))
    rng.shuffle(threads)
    return threads


def scenario_by_name(name: str, threads_hint=None):
    if name in SCENARIOS:
        return Scenario(name)
    drv = derive_from_name(name)
    if drv is not None:
        return derive_scenario(*drv)
    wid = wide_from_name(name)
    if wid is not None:
        return wide_scenario(*wid)
    threads = threads_from_name(name)
    if threads is None and threads_hint:
        try:
            threads = [(d, ROOT_TYPES[t], int(depth)) for d, t, depth in threads_hint]
        except (KeyError, ValueError, TypeError):
            threads = None
    return Scenario(name, threads) if threads else None


# ---------------------------------------------------------------------------
# generated scenarios: a thread DERIVES a retort from the shared one while others make first requests on it
# ---------------------------------------------------------------------------
# `retort.replace(...)` / `retort.extend(...)` are calls on the shared retort ("every call completes without error
# ... and returns what a single-threaded run returns"); the documented usage is a module-level retort from which
# variations are derived wherever they are needed.  A thread of this family derives a retort (`via`), then issues
# its request on the DERIVED retort; the other threads issue first requests on the origin.  `warm` = requests made
# on the origin before the threads start (a retort that has been in use: its caches are not empty).
# Every derivation is observable: the single-threaded expectation is computed through the same derivation.

def _plus_one(v):
    return v + 1


def derive(retort, via: str):
    from adaptix import DebugTrail, loader
    if via == "replace-lax":
        return retort.replace(strict_coercion=False)        # data of this thread: ints spelled as strings
    if via == "replace-trail":
        return retort.replace(debug_trail=DebugTrail.DISABLE)
    if via == "replace-tb":
        return retort.replace(hide_traceback=False)
    if via == "extend-empty":
        return retort.extend(recipe=[])
    if via == "extend-int":
        return retort.extend(recipe=[loader(int, _plus_one)])    # every int field of the DERIVED retort loads as v + 1
    raise InfraError(f"unknown derivation {via!r}")


DERIVE_KINDS = ["replace-lax", "replace-trail", "replace-tb", "extend-empty", "extend-int"]


def via_data(via, data, direction):
    """the datum a thread hands to the retort it derived"""
    if via == "replace-lax" and direction == "load":
        def lax(x):
            if isinstance(x, bool) or x is None:
                return x
            if isinstance(x, int):
                return str(x)
            if isinstance(x, dict):
                return {k: lax(v) for k, v in x.items()}
            if isinstance(x, list):
                return [lax(v) for v in x]
            return x
        return lax(data)
    return data


def derive_name(warm, threads, vias) -> str:
    return ("drv:warm(" + ",".join(request_name(r) for r in warm) + ")|"
            + "|".join((f"{v}@" if v else "") + request_name(r) for r, v in zip(threads, vias)))


def _request_from_name(part: str):
    bits = part.split(":")
    if len(bits) != 3 or bits[0] not in ("load", "dump") or bits[1] not in ROOT_TYPES or not bits[2].isdigit():
        return None
    return (bits[0], ROOT_TYPES[bits[1]], int(bits[2]))


def derive_from_name(name: str):
    """inverse of `derive_name`: (warm, threads, vias) or None"""
    if not name.startswith("drv:warm("):
        return None
    head, _, rest = name[len("drv:warm("):].partition(")|")
    warm = [_request_from_name(p) for p in head.split(",") if p]
    threads, vias = [], []
    for part in rest.split("|"):
        via, sep, req = part.rpartition("@")
        if sep and via not in DERIVE_KINDS:
            return None
        vias.append(via if sep else None)
        threads.append(_request_from_name(req))
    if not threads or None in warm or None in threads or not any(vias):
        return None
    return warm, threads, vias


def derive_cases(rng, quick: bool):
    """the systematic part of the family: [derived request, first request on the origin], every derivation in seed
    order, two of three on an origin that has been used before; the first request is for a type the origin has NOT
    seen (that is what makes it a first request)"""
    kinds = list(DERIVE_KINDS)
    rng.shuffle(kinds)
    firsts = QUICK_VICTIMS if quick else VALID_REQUESTS
    out = []
    for rnd in range(6):
        for i, via in enumerate(kinds):
            first = rng.choice(FAILING_REQUESTS) if rng.random() < 0.15 else rng.choice(firsts)
            warm = []
            if (rnd + i) % 3 != 2:
                pool = [r for r in WARM_REQUESTS if r[1] is not first[1]]
                warm = rng.sample(pool, rng.choice([1, 1, 2]))
            out.append((warm, [rng.choice(DERIVED_REQUESTS), first], [via, None]))
    return out


def derive_random(rng):
    """a random member: 2-3 threads, at least one deriving thread and one plain first request, any warm-up"""
    n = rng.choice([2, 2, 3])
    threads = [rng.choice(DERIVED_REQUESTS), rng.choice(VALID_REQUESTS + FAILING_REQUESTS[:3])]
    vias = [rng.choice(DERIVE_KINDS), None]
    while len(threads) < n:
        if rng.random() < 0.5:
            threads.append(rng.choice(DERIVED_REQUESTS))
            vias.append(rng.choice(DERIVE_KINDS))
        else:
            threads.append(rng.choice(VALID_REQUESTS))
            vias.append(None)
    order = list(range(n))
    rng.shuffle(order)
    threads, vias = [threads[i] for i in order], [vias[i] for i in order]
    warm = rng.sample(WARM_REQUESTS, rng.choice([0, 1, 1, 2, 3]))
    return warm, threads, vias


def chooser_inside_derive(rng, sc, p_inside: float, p_else: float):
    """random schedules that spend their preemptions where the family lives: a thread that is inside its deriving
    call (between its harness actions `derive` and `derived`) is preempted with probability `p_inside` per
    scheduling point, any other thread with `p_else`"""
    state = {"n": 0, "inside": set()}

    def choose(run, enabled, cur):
        for a in run.actions[state["n"]:]:
            if a[1] == "derive":
                state["inside"].add(a[0])
            elif a[1] == "derived":
                state["inside"].discard(a[0])
        state["n"] = len(run.actions)
        if cur is None:
            return rng.choice(enabled)
        if rng.random() < (p_inside if cur in state["inside"] else p_else):
            others = [t for t in enabled if t != cur]
            if others:
                return rng.choice(others)
        return cur
    return choose


def derive_scenario(warm, threads, vias) -> "Scenario":
    return Scenario(derive_name(warm, threads, vias), threads, vias=vias, warm=warm)


# ---------------------------------------------------------------------------
# generated scenarios: statement-level preemption EVERYWHERE in the code that holds state shared by the threads of one
# retort, on a retort that has been used for OTHER types before
# ---------------------------------------------------------------------------
# The yield points of the scenarios above are the statements of TODAY's lookup / caching code (function name + AST
# shape).  A new piece of shared mutable state - a memo in the router, in a provider, in the retort - that is read and
# written in more than one statement is invisible to them.  A member of this family is
#     wid:warm(<requests>)|*<request>|<request>|=<request>
# `*` = the thread is preempted at statement level: every line event of every function of every module that defines
# the class of an object reachable from a used retort, plus the whole `retort` package (`Real.wide_files`: found by
# walking the object graph and listing the directory, not by naming functions), is a preemption point (bounded
# unrolling per line); a thread without a mark runs its complete first request + call without being preempted inside
# the library; `=` = the thread obtained its loader before the race (single-threaded) and only CALLS it during the
# race.  `warm` = requests made single-threaded beforehand, so that whatever the retort remembers about "the last
# request" is about another type when the race starts.  These preemption points have no counterpart in Threads.lean:
# direct oracle only (sequential result of every call, of the later calls through the loaders obtained during the race,
# and of the types used before), counted in the evidence (`wide_preemption_sites`).
WIDE_SCALARS = [("load", int, 0), ("load", str, 0), ("dump", int, 0), ("dump", str, 0)]
WIDE_MODELS = [("load", Sub, 0), ("load", Twin, 0), ("load", Pair, 0), ("load", Node, 1), ("load", Chain, 1),
               ("dump", Tree, 1), ("load", List[int], 1), ("load", Optional[int], 1)]
# (request, a request for something the first one asks for below its root)
WIDE_NESTED = [(("load", Sub, 0), ("load", int, 0)), (("load", Pair, 0), ("load", Sub, 0)),
               (("load", List[int], 1), ("load", int, 0)), (("load", Node, 1), ("load", int, 0))]


def wide_name(warm, threads, roles) -> str:
    return ("wid:warm(" + ",".join(request_name(r) for r in warm) + ")|"
            + "|".join({"wide": "*", "call": "=", "plain": ""}[ro] + request_name(r) for r, ro in zip(threads, roles)))


def wide_from_name(name: str):
    """inverse of `wide_name`: (warm, threads, roles) or None"""
    if not name.startswith("wid:warm("):
        return None
    head, _, rest = name[len("wid:warm("):].partition(")|")
    warm = [_request_from_name(p) for p in head.split(",") if p]
    threads, roles = [], []
    for part in rest.split("|"):
        role = {"*": "wide", "=": "call"}.get(part[:1], "plain")
        threads.append(_request_from_name(part[1:] if role != "plain" else part))
        roles.append(role)
    if not threads or None in warm or None in threads:
        return None
    return warm, threads, roles


def wide_scenario(warm, threads, roles) -> "Scenario":
    return Scenario(wide_name(warm, threads, roles), threads, warm=warm, roles=roles)


def wide_cases(rng):
    """the systematic part of the family, in seed order; cheap members (scalars) first within every round.
    Every round has: a race on the SAME type on a retort last used for another one (scalar and model), a race on
    DIFFERENT types where the second is requested inside the first, unrelated types, and a call through a loader
    obtained before the race."""
    out = []
    for _rnd in range(8):
        a, b = rng.sample(WIDE_SCALARS[:2], 2)
        out.append(([b], [a, a], ["wide", "plain"]))                                  # same scalar, other scalar before
        m = rng.choice(WIDE_MODELS)
        w = rng.choice([r for r in WIDE_SCALARS + WIDE_MODELS if r[1] is not m[1]])
        out.append(([w], [m, m], ["wide", "plain"]))                                  # same model / container
        outer, inner = rng.choice(WIDE_NESTED)
        w = rng.choice([r for r in WIDE_SCALARS if r[1] is not inner[1]])
        out.append(([w], [outer, inner], ["wide", "plain"]))                          # the inner type of the other
        x, y = rng.sample(WIDE_SCALARS + WIDE_MODELS, 2)
        out.append(([rng.choice(WIDE_SCALARS)], [x, y], ["wide", "plain"]))           # any two
        m2 = rng.choice(WIDE_MODELS + WIDE_SCALARS)
        t = rng.choice([r for r in WIDE_SCALARS + WIDE_MODELS if r != m2])
        out.append(([m2], [t, m2], ["wide", "call"]))                                 # a call through an obtained loader
    return out


def wide_random(rng):
    """a random member: 2-3 threads, 1-2 of them preempted at statement level, 0-2 earlier requests"""
    pool = WIDE_SCALARS + WIDE_MODELS
    n = rng.choice([2, 2, 3])
    warm = rng.sample(pool, rng.choice([0, 1, 1, 2]))
    threads, roles = [], []
    first = rng.choice(pool)
    for i in range(n):
        r = rng.random()
        req = first if (i > 0 and r < 0.5) else rng.choice(pool)
        threads.append(req)
        roles.append("wide" if i == 0 or rng.random() < 0.4 else "plain")
    if warm and rng.random() < 0.3:
        threads[-1], roles[-1] = warm[0], "call"
    return warm, threads, roles


# ---------------------------------------------------------------------------
# real side
# ---------------------------------------------------------------------------

class Real:
    def __init__(self):
        from adaptix import Retort
        from adaptix._internal.retort.operating_retort import FuncWrapper
        self.Retort = Retort
        self.shared_attrs = sorted(S.SHARED_ATTRS | discover_shared_containers(Retort))
        self.table = S.PointTable(core.REPO / "src", shared_attrs=self.shared_attrs)
        self.mode = "byLoc" if FuncWrapper(("probe",)) == FuncWrapper(("probe",)) else "byId"
        self._expected: dict = {}
        # where a thread of the family `wid:` is preempted at every statement: the `retort` package + the facade (3
        # executions of a line), the modules of everything else a used retort holds on to (providers, request
        # checkers, ...: 1 execution of a line)
        core_files, reach_files = discover_shared_modules(Retort, core.REPO / "src")
        self.table.add_wide_files(reach_files, 1)
        self.table.add_wide_files([f for f in self.table.files if self.table.wide_ok(f)], S.WIDE_UNROLL)
        self.table.add_wide_files(core_files, S.WIDE_UNROLL)
        self.wide_files = {str(Path(f).relative_to((core.REPO / "src").resolve())): n
                           for f, n in sorted(self.table.wide_files.items())}

    def expected(self, direction, tp, depth, via=None):
        """what a fresh retort (or the retort derived from a fresh one by `via`) returns single-threaded (computed
        in a helper thread: a tree under test may hang)"""
        k = (direction, type_name(tp), depth, via)
        if k not in self._expected:
            import threading
            box: list = []

            def work():
                try:
                    r = self.Retort()
                    data = gen_data(tp, depth, direction)
                    if via is not None:
                        r = derive(r, via)
                        data = via_data(via, data, direction)
                    box.append(("value", r.load(data, tp) if direction == "load" else r.dump(data, tp)))
                except BaseException as e:  # noqa: BLE001
                    box.append(("raises", classify_exc(e)))
            th = threading.Thread(target=work, daemon=True)
            th.start()
            th.join(15)
            self._expected[k] = box[0] if box else ("hangs", None)
        return self._expected[k]


def discover_shared_containers(Retort) -> set:
    """names of the mutable containers of a retort that a request writes to (found by running one load and one dump
    on a scratch retort): the shared state the scheduler watches, whatever it is called"""
    def sizes(r):
        return {n: len(v) for n, v in vars(r).items() if isinstance(v, (dict, list, set))}
    try:
        r = Retort()
        before = sizes(r)
        r.load({"x": 1}, Sub)
        r.dump(Tree([]), Tree)
        after = sizes(r)
        return {n for n in after if after[n] != before.get(n)}
    except Exception:  # noqa: BLE001  (a tree under test may fail here; the oracle will say so)
        return set()


def discover_shared_modules(Retort, src_root):
    """(files of the package that defines the retort's own machinery, files that define the class of any object
    reachable from a retort that has been used) - the code that can hold state shared between the threads of one
    retort.  Found by listing the directory of the module of `SearchingRetort`'s base classes and by walking the object
    graph (attributes, slots, containers, closures, bound methods), never by naming a function."""
    import sys
    root = str((Path(src_root) / "adaptix").resolve())
    core_files, reach = set(), set()
    try:
        for cls in Retort.__mro__:
            f = getattr(sys.modules.get(cls.__module__), "__file__", None)
            if f and str(Path(f).resolve()).startswith(root):
                reach.add(str(Path(f).resolve()))
                if Path(f).parent.name == "retort":
                    core_files.update(str(p.resolve()) for p in Path(f).parent.glob("*.py") if p.name != "__init__.py")
        r = Retort()
        r.load({"x": 1}, Sub)
        r.dump(Tree([]), Tree)
        seen, stack, n = set(), [(r, 0)], 0
        while stack and n < 100000:
            o, d = stack.pop()
            if id(o) in seen or d > 8 or isinstance(o, (str, bytes, int, float, type, type(None))):
                continue
            seen.add(id(o))
            n += 1
            f = getattr(sys.modules.get(getattr(type(o), "__module__", None)), "__file__", None)
            if f and str(Path(f).resolve()).startswith(root):
                reach.add(str(Path(f).resolve()))
            kids: list = []
            if isinstance(o, dict):
                kids = list(o.keys()) + list(o.values())
            elif isinstance(o, (list, tuple, set, frozenset)):
                kids = list(o)
            else:
                try:
                    kids = list(vars(o).values())
                except TypeError:
                    pass
                for c in type(o).__mro__:
                    slots = getattr(c, "__slots__", ()) or ()
                    for sl in ([slots] if isinstance(slots, str) else slots):
                        try:
                            kids.append(getattr(o, sl))
                        except Exception:  # noqa: BLE001
                            pass
                for cell in getattr(o, "__closure__", None) or ():
                    try:
                        kids.append(cell.cell_contents)
                    except ValueError:
                        pass
                if hasattr(o, "__self__"):
                    kids.append(o.__self__)
                if type(o).__name__ == "partial":
                    kids += [o.func, *o.args, *o.keywords.values()]
            stack.extend((k, d + 1) for k in kids)
    except Exception:  # noqa: BLE001  (a tree under test may fail here; the oracle will say so)
        pass
    return core_files, reach - core_files


def real_fails(tp) -> bool:
    """the request for `tp` legitimately fails: `tp` is, or contains below models / Optional / list, an unloadable leaf"""
    seen = set()

    def go(t):
        t = _resolve(t)
        if is_unloadable_leaf(t):
            return True
        if is_dataclass(t):
            if t in seen:
                return False
            seen.add(t)
            return any(go(ft) for _, ft in field_types(t))
        if get_origin(t) is Union:
            return go(t.__args__[0])
        if get_origin(t) in (list, List):
            return go(get_args(t)[0])
        return False
    return go(tp)


NOT_FOUND = "exception:ProviderNotFoundError"


def _loc_key(loc) -> tuple:
    cls = type(loc).__name__
    if cls == "TypeHintLoc":
        return (cls, type_name(_resolve(loc.type)))
    if cls == "GenericParamLoc":
        return (cls, loc.generic_pos, type_name(_resolve(loc.type)))
    return (cls, loc.field_id, type_name(_resolve(loc.type)))


class Scenario:
    def __init__(self, name: str, threads=None, vias=None, warm=(), roles=None):
        self.name = name
        self.roles = list(roles) if roles else None                        # family `wid:` (see WIDE_*)
        self.wide = bool(roles)
        self.threads = threads if threads is not None else SCENARIOS[name]
        self.vias = list(vias) if vias else [None] * len(self.threads)     # derivation of the thread's own retort
        self.warm = list(warm)                                             # requests made on the origin beforehand
        self.derive = any(self.vias)
        self.uni = Universe()
        self.ty_by_name = {}
        self.failing = [real_fails(tp) for _, tp, _ in self.threads]       # which threads issue a failing request
        try:
            if self.derive:
                raise InfraError("the transition system has ONE retort: derived retorts are outside the model")
            if self.wide:
                raise InfraError("statement-level preemption points have no counterpart in the transition system")
            self.tys = [self.uni.ty(d, tp) for d, tp, _ in self.threads]
            self.modelled = True
        except InfraError:
            # outside the Lean model (a request failing half-way, an int dumper, a derived retort): direct oracle only
            self.tys = []
            self.modelled = False

    @property
    def family(self) -> str:
        """evidence bucket: the named scenarios are their own family, the generated ones are grouped by what fails"""
        if self.derive:
            return "derive"
        if self.wide:
            return "wide"
        if not any(self.failing):
            return self.name
        leaf = all(is_unloadable_leaf(tp) for (_, tp, _), f in zip(self.threads, self.failing) if f)
        return "mix-fail-leaf" if leaf else "mix-fail-halfway"

    def namer(self) -> S.Namer:
        uni = self.uni

        def site(func):
            return getattr(func, "__qualname__", repr(func))

        def loc(l):
            try:
                return ":".join(str(k) for k in _loc_key(l))
            except Exception as e:  # noqa: BLE001
                return f"?{type(l).__name__}:{e}"

        def tp(t):
            return type_name(_resolve(t))
        return S.Namer(site, loc, tp)

    def model_request(self, mode: str, schedule: list[int]) -> dict:
        return {"op": "schedule_run", "mode": mode, "graph": self.uni.graph_json(), "fuel": self.uni.fuel(),
                "eval_fuel": 48, "threads": [{"ty": ty, "depth": d} for ty, (_, _, d) in zip(self.tys, self.threads)],
                "schedule": schedule}


class Outcome:
    """result of one controlled execution, canonicalised"""

    def __init__(self, sc: Scenario, run: S.Run, real: Real, loaders: list, retort, clones=None, warm_exc=None):
        self.run = run
        self.trace = canon_real_trace(sc, run.actions)
        self.schedule_tids = [a[0] for a in self.trace]
        self.results = []
        self.problems: list[tuple[str, str]] = []
        clones = clones if clones is not None else [None] * len(sc.threads)
        if warm_exc is not None:
            self.problems.append(("warm-up:" + classify_exc(warm_exc),
                                  f"a request made single-threaded on the retort before the threads start raised "
                                  f"{type(warm_exc).__name__}: {str(warm_exc)[:160]}"))
        for ts, (direction, tp, depth), via in zip(run.threads, sc.threads, sc.vias):
            if run.deadlock is not None and ts.status != "done":
                self.results.append("deadlock")
                continue
            who = f"({direction} {type_name(tp)} depth {depth}" + (f" on retort.{via}" if via else "") + ")"
            if ts.exc is not None:
                cls = classify_exc(ts.exc)
                exp = real.expected(direction, tp, depth, via)
                if cls == NOT_FOUND and exp == ("raises", NOT_FOUND):
                    # the documented outcome of a request nobody can satisfy, with or without threads
                    self.results.append("not_found")
                    continue
                self.results.append(cls)
                where = ""
                if via and clones[ts.tid] is None:
                    where = f" inside the derivation `retort.{via}` itself"
                self.problems.append((cls, f"thread {ts.tid} {who} raised{where} "
                                           f"{type(ts.exc).__name__}: {str(ts.exc)[:160]}"
                                           + (f" (a single-threaded run raises {exp[1]})" if exp[0] == "raises" else "")))
            elif ("value", ts.result) != real.expected(direction, tp, depth, via):
                self.results.append("wrong-result")
                self.problems.append(("wrong-result", f"thread {ts.tid} {who} returned "
                                                      f"{ts.result!r}, single-threaded {real.expected(direction, tp, depth, via)!r}"))
            else:
                self.results.append("ok")
        if run.deadlock is not None:
            self.problems.append(("deadlock", f"deadlock / no progress: {run.deadlock}"))
        else:
            # loaders obtained concurrently must stay correct for later calls (deeper data, and through the facade)
            for tid, ((direction, tp, depth), ld) in enumerate(zip(sc.threads, loaders)):
                via = sc.vias[tid]
                target = clones[tid] if via else retort      # the retort the thread used: the shared one or its own
                if via and target is not None and self.results[tid] == "ok":
                    # the ORIGIN is still the origin for the type the derived retort was used for
                    exp0 = real.expected(direction, tp, depth)
                    try:
                        data0 = gen_data(tp, depth, direction)
                        got0 = ("value", retort.load(data0, tp) if direction == "load" else retort.dump(data0, tp))
                    except Exception as e:  # noqa: BLE001
                        got0 = ("raises", classify_exc(e))
                    if got0 != exp0:
                        self.problems.append(("later-call:origin-changed-by-derivation",
                                              f"after thread {tid} derived retort.{via} and used it, the shared retort "
                                              f"gives {got0!r} for {direction} {type_name(tp)}, single-threaded {exp0!r}"))
                if ld is None:
                    if sc.failing[tid] and self.results[tid] == "not_found" and target is not None:
                        # a failing request fails the same way when it is issued again on the used retort
                        try:
                            target.get_loader(tp) if direction == "load" else target.get_dumper(tp)
                            again = "a loader"
                        except Exception as e:  # noqa: BLE001
                            again = classify_exc(e)
                        if again != NOT_FOUND:
                            self.problems.append(("later-call:failing-request",
                                                  f"the failing request of thread {tid} ({direction} {type_name(tp)}) "
                                                  f"gives {again} when repeated, not ProviderNotFoundError"))
                    continue
                for dd in (depth + 2,):
                    data = via_data(via, gen_data(tp, dd, direction), direction)
                    exp = real.expected(direction, tp, dd, via)
                    try:
                        got1 = ld(data)
                        got2 = target.load(data, tp) if direction == "load" else target.dump(data, tp)
                    except Exception as e:  # noqa: BLE001
                        self.problems.append(("later-call:" + classify_exc(e),
                                              f"loader obtained by thread {tid} fails on a later call: "
                                              f"{type(e).__name__}: {str(e)[:160]}"))
                        continue
                    if ("value", got1) != exp or ("value", got2) != exp:
                        self.problems.append(("later-call:wrong-result",
                                              f"loader obtained by thread {tid} returns a wrong result later"))
            if sc.wide:
                # what the retort was used for BEFORE the race still gives the sequential result after it
                for d, tp, depth in sc.warm:
                    exp = real.expected(d, tp, depth)
                    try:
                        data = gen_data(tp, depth, d)
                        got = ("value", retort.load(data, tp) if d == "load" else retort.dump(data, tp))
                    except Exception as e:  # noqa: BLE001
                        got = ("raises", classify_exc(e))
                    if got != exp:
                        self.problems.append(("later-call:type-used-before-the-race",
                                              f"after the race the retort gives {got!r} for {d} {type_name(tp)} "
                                              f"(used before the race), single-threaded {exp!r}"))
            # generated file names are unique per generated closure (ConcurrentCounter)
            names: dict[str, int] = {}
            for obj in run.namer._keep:
                code = getattr(obj, "__code__", None)
                fn = getattr(code, "co_filename", "")
                if fn.startswith("<adaptix generated"):
                    names[fn] = names.get(fn, 0) + 1
            dup = [n for n, c in names.items() if c > 1]
            if dup:
                self.problems.append(("duplicate-generated-filename", f"two generated closures share the file name {dup[0]!r}"))


def classify_exc(e: BaseException) -> str:
    seen = set()
    stack = [e]
    while stack:
        x = stack.pop()
        if id(x) in seen or x is None:
            continue
        seen.add(id(x))
        if isinstance(x, TypeError) and "'NoneType' object is not callable" in str(x):
            return "unbound"
        stack.extend(getattr(x, "exceptions", ()) or ())
        stack.append(x.__cause__)
        stack.append(x.__context__)
    return "exception:" + type(e).__name__


def cache_sizes(retort, attrs) -> int:
    """total number of entries of the shared caches of `retort` (harness bookkeeping: did they grow meanwhile?)"""
    n = 0
    for a in attrs:
        try:
            n += len(getattr(retort, a))
        except Exception:  # noqa: BLE001
            pass
    return n


def thread_fn(real: Real, origin, direction, tp, depth, loaders: list, facade: bool, via=None, clones=None,
              role=None, preloaded=None):
    data = via_data(via, gen_data(tp, depth, direction), direction)

    def fn(run: S.Run, tid: int):
        retort = origin
        if role == "wide":
            run.wide(True)          # every line of the discovered modules is a preemption point of this thread
        elif role in ("plain", "call"):
            run.atomic()            # runs its request / call in one piece (parks only where it takes a lock)
        if role == "call":
            # the loader was obtained before the race; the thread only calls through it
            loaders[tid] = preloaded
            run.point("call", lambda: [type_name(tp), depth])
            return preloaded(data)
        if via is not None:
            # the thread derives its own retort from the shared one and works with that (two harness-level actions
            # around the call: what other threads do in between happens INSIDE `replace` / `extend`)
            if not facade:
                run.point("derive", lambda: [via, cache_sizes(origin, real.shared_attrs)])
            run.wide(True)
            try:
                retort = derive(origin, via)
            finally:
                run.wide(False)
            clones[tid] = retort
            if not facade:
                # recorded at once (not a scheduling point: the next one is the first cache access of the request)
                run.point("derived", lambda: [via, cache_sizes(origin, real.shared_attrs),
                                              cache_sizes(retort, real.shared_attrs)], scheduling=False)
        if facade:
            # the documented usage: retort.load(...) (get_loader + call in one statement)
            return retort.load(data, tp) if direction == "load" else retort.dump(data, tp)
        try:
            ld = retort.get_loader(tp) if direction == "load" else retort.get_dumper(tp)
        except Exception as e:  # noqa: BLE001
            if classify_exc(e) == NOT_FOUND:
                # the request has failed (thread-local: `_facade_provide` re-raises); one action of the trace, like `call`
                run.point("not_found", lambda: [type_name(tp)])
            raise
        loaders[tid] = ld
        run.point("call", lambda: [type_name(tp), depth])
        return ld(data)
    return fn


def chooser_from_action_tids(tids: list[int]):
    """Replay a *model* schedule (one thread id per abstract action) on the real retort: at every scheduling
    decision run the thread that performs the next action of the model's trace."""
    def choose(run: S.Run, enabled, cur):
        i = sum(1 for a in run.actions if a[1] != "create")
        if i < len(tids) and tids[i] in enabled:
            return tids[i]
        return S.default_choice(enabled, cur)
    return choose


# the schedule of `exists_bad_schedule` in AdaptixProofs/Props/C12.lean (scenario chain-self-recursive)
LEAN_BAD_SCHEDULE = [0] * 14 + [1] * 19 + [0] * 5


def execute(real: Real, sc: Scenario, chooser, mode="points", facade=False, sched_kinds=None) -> Outcome:
    retort = real.Retort()
    loaders = [None] * len(sc.threads)
    clones = [None] * len(sc.threads)
    warm_exc = None
    for d, tp, depth in sc.warm:
        # the shared retort has been in use before the threads start (single-threaded, not scheduled)
        try:
            data = gen_data(tp, depth, d)
            retort.load(data, tp) if d == "load" else retort.dump(data, tp)
        except Exception as e:  # noqa: BLE001
            warm_exc = e
    roles = sc.roles or [None] * len(sc.threads)
    pre = [None] * len(sc.threads)
    own_monitor = sc.wide and not S.WideMonitor.active and S.WideMonitor.start(real.table)
    for i, ((d, tp, depth), role) in enumerate(zip(sc.threads, roles)):
        if role == "call":
            try:
                pre[i] = retort.get_loader(tp) if d == "load" else retort.get_dumper(tp)
            except Exception as e:  # noqa: BLE001
                warm_exc = e
                pre[i] = _raiser(e)
    run = S.Run(real.table, sc.namer(), mode=mode, step_timeout=10.0, sched_kinds=sched_kinds,
                shared_points=sc.derive, wide_all=sc.wide)
    run.execute([thread_fn(real, retort, d, tp, depth, loaders, facade, via, clones, role, pre[i])
                 for i, ((d, tp, depth), via, role) in enumerate(zip(sc.threads, sc.vias, roles))], chooser)
    if own_monitor:
        S.WideMonitor.stop()
    return Outcome(sc, run, real, loaders, retort, clones, warm_exc)


def _raiser(e):
    def fn(_data):
        raise e
    return fn


# ---------------------------------------------------------------------------
# canonical traces
# ---------------------------------------------------------------------------

class Renamer:
    def __init__(self):
        self.m: dict[str, str] = {}
        self.n_obj = 0
        self.n_stub = 0

    def __call__(self, ref):
        if ref is None:
            return None
        got = self.m.get(ref)
        if got is None:
            if ref.startswith("s"):
                got = f"S{self.n_stub}"
                self.n_stub += 1
            else:
                got = f"O{self.n_obj}"
                self.n_obj += 1
            self.m[ref] = got
        return got


def canon_real_trace(sc: Scenario, actions: list) -> list:
    rn = Renamer()
    out = []
    for a in actions:
        tid, kind = a[0], a[1]
        if kind == "create":
            continue
        if any(isinstance(x, str) and x.startswith("<unreadable") for x in a[2:3]) or \
                len(a) < {"lc_get": 4, "cc_contains": 5, "cc_get": 4, "cc_store": 4, "lc_put": 4, "stub_new": 3,
                          "stub_reuse": 4, "stub_bind": 5, "call": 4}.get(kind, 2):
            out.append([tid, kind, "<unreadable>"])      # restructured code: never equal to a model action
            continue
        if kind == "lc_get":
            out.append([tid, kind, a[2], rn(a[3])])
        elif kind == "cc_contains":
            out.append([tid, kind, a[2], [rn(r) for r in a[3]], a[4]])
        elif kind in ("cc_get", "cc_store", "lc_put"):
            out.append([tid, kind, a[2], rn(a[3])])
        elif kind == "stub_new":
            out.append([tid, kind, a[2]])
        elif kind == "stub_reuse":
            out.append([tid, kind, a[2], rn(a[3])])
        elif kind == "stub_bind":
            out.append([tid, kind, a[2], rn(a[3]), rn(a[4])])
        elif kind == "call":
            out.append([tid, kind, a[2], a[3]])
        else:
            out.append([tid, kind, *a[2:]])
    return out


def canon_model_trace(sc: Scenario, labels: list) -> tuple[list, list]:
    """model labels in the vocabulary of the real trace; returns (trace, call results by tid)"""
    rn = Renamer()
    uni = sc.uni
    out = []
    for l in labels:
        tid, kind = l[0], l[1]
        if kind == "lc_get":
            out.append([tid, kind, uni.ty_names[l[2]].split(":", 1)[1], rn(l[3])])
        elif kind == "cc_contains":
            out.append([tid, kind, SITE_DISPLAY.get(l[2], f"?site{l[2]}"), [rn(r) for r in l[3]], l[4]])
        elif kind in ("cc_get", "cc_store"):
            out.append([tid, kind, SITE_DISPLAY.get(l[2], f"?site{l[2]}"), rn(l[3])])
        elif kind == "lc_put":
            out.append([tid, kind, uni.ty_names[l[2]].split(":", 1)[1], rn(l[3])])
        elif kind == "stub_new":
            out.append([tid, kind, uni.loc_desc.get(l[2], f"?loc{l[2]}")])
        elif kind == "stub_reuse":
            out.append([tid, kind, uni.loc_desc.get(l[2], f"?loc{l[2]}"), rn(l[3])])
        elif kind == "stub_bind":
            out.append([tid, kind, uni.loc_desc.get(l[2], f"?loc{l[2]}"), rn(l[3]), rn(l[4])])
        elif kind == "call":
            out.append([tid, kind, uni.ty_names[l[2]].split(":", 1)[1], l[3]])
        elif kind == "not_found":
            out.append([tid, kind, uni.ty_names[l[2]].split(":", 1)[1]])
        else:
            out.append([tid, kind, *l[2:]])
    return out


def real_trace_for_compare(trace: list) -> list:
    # `lc_get` of the real side names the type without direction, like the model side after canonicalisation
    return trace


# ---------------------------------------------------------------------------
# suites
# ---------------------------------------------------------------------------

def note(ctx: Ctx, sc: Scenario, oc: Outcome, how: str):
    tids_before_first_put = []
    for a in oc.trace:
        if a[1] == "lc_put":
            break
        tids_before_first_put.append(a[0])
    interleaved = len(set(tids_before_first_put)) >= 2
    case = {"scenario": sc.name, "schedule": oc.run.schedule}
    ctx.note_case(case, nontrivial=interleaved, kind=f"{sc.family}/{how}")
    for r in oc.results:
        ctx.dist[f"outcome-{r}"] += 1
    if sc.derive:
        for via in sc.vias:
            if via:
                ctx.dist[f"derive-via:{via}"] += 1
        for region in derive_regions(sc, oc):
            ctx.dist["region:derive:" + region] += 1
    if any(sc.failing):
        # how deep into the region "a request fails while another thread is inside cached_call" the case goes
        ctx.dist["region:runs-with-a-failing-request"] += 1
        w = fail_inside_hit_window(sc, oc)
        if w:
            ctx.dist["region:request-fails-between-`key in cache`-and-`cache[key]`-of-another-thread"] += 1
        if fail_while_other_in_flight(sc, oc):
            ctx.dist["region:request-fails-while-another-request-is-in-flight"] += 1


def derive_regions(sc: Scenario, oc: Outcome) -> list:
    """which parts of the region "a retort is derived from the shared one while it is in first use" a run reaches
    (read off the trace; `derive` / `derived` are the harness actions around the call, they carry the total size of
    the origin's caches)"""
    out = ["runs"]
    if sc.warm:
        out.append("origin-used-before")
    if not any(a[1] == "derive" for a in oc.trace):
        return out          # facade form: no harness actions, nothing to read off
    span: dict = {}         # plain thread -> (first action, end of its creation phase)
    for i, a in enumerate(oc.trace):
        if sc.vias[a[0]] is None:
            lo, hi = span.get(a[0], (i, None))
            if hi is None and a[1] in ("lc_put", "not_found", "call"):
                hi = i
            span[a[0]] = (lo, hi)
    in_flight = inside = grew = False
    for tid, via in enumerate(sc.vias):
        if not via:
            continue
        start = next((i for i, a in enumerate(oc.trace) if a[0] == tid and a[1] == "derive"), None)
        if start is None:
            continue
        end = next((i for i, a in enumerate(oc.trace) if a[0] == tid and a[1] == "derived"), len(oc.trace))
        for lo, hi in span.values():
            if lo < start and (hi is None or hi > start):
                in_flight = True        # another thread's first request has begun and is not finished
        if any(a[0] != tid for a in oc.trace[start + 1:end]):
            inside = True               # another thread ran while this one was inside `replace` / `extend`
        size0 = oc.trace[start][3] if len(oc.trace[start]) > 3 else None
        size1 = oc.trace[end][3] if end < len(oc.trace) and len(oc.trace[end]) > 3 else None
        if inside and size0 is not None and (size1 is None or size1 != size0):
            grew = True                 # ... and stored into a cache of the origin meanwhile
    if in_flight:
        out.append("while-a-first-request-is-in-flight")
    if inside:
        out.append("another-thread-runs-inside-the-deriving-call")
    if grew:
        out.append("origin-cache-store-inside-the-deriving-call")
    return out


def derive_observation(sc: Scenario, oc: Outcome, tid: int):
    """the derivation of thread `tid` as the model sees it: (size of the origin's caches when it starts, the
    interleaving of its own steps - the call itself and every further scheduling point at a statement touching a shared
    cache - with the stores of the other threads, the observed end: state / entries in the caches of the derived retort
    / number of steps).  None when the thread never got as far as deriving."""
    start = next((i for i, a in enumerate(oc.trace) if a[0] == tid and a[1] == "derive"), None)
    if start is None or len(oc.trace[start]) < 4:
        return None
    end = next((i for i, a in enumerate(oc.trace) if a[0] == tid and a[1] == "derived"), None)
    acts, key = [], int(oc.trace[start][3])
    origin = key
    for a in oc.trace[start:end if end is not None else len(oc.trace)]:
        if a[0] == tid and a[1] in ("derive", "shared"):
            acts.append(["clone"])
        elif a[0] != tid and a[1] in ("cc_store", "lc_put") and sc.vias[a[0]] is None:
            acts.append(["store", key])         # a store of a plain thread goes to the origin (a new key: it missed)
            key += 1
    steps = sum(1 for x in acts if x == ["clone"])
    if end is not None:
        size = oc.trace[end][4] if len(oc.trace[end]) > 4 else -1
        return origin, acts, {"state": "done", "size": size, "steps": steps}
    ts = oc.run.threads[tid]
    if ts.exc is not None:
        return origin, acts, {"state": "error", "size": 0, "steps": steps}
    return None


def _last_shared_action(sc: Scenario, oc: Outcome) -> dict:
    """index of the last action before the (thread-local) failure of every failing thread"""
    last = {}
    for i, a in enumerate(oc.trace):
        if sc.failing[a[0]] and a[1] != "not_found":
            last[a[0]] = i
    return last


def fail_inside_hit_window(sc: Scenario, oc: Outcome) -> bool:
    """some failing request ends (its last shared action) after another thread has seen `key in self._call_cache`
    and before that thread reads `self._call_cache[key]`"""
    last = _last_shared_action(sc, oc)
    pending: dict = {}
    for i, a in enumerate(oc.trace):
        tid, kind = a[0], a[1]
        if kind == "cc_contains" and len(a) > 4 and a[4] is True:
            pending[tid] = i
        elif tid in pending and kind == "cc_get":
            if any(pending[tid] < k < i for t, k in last.items() if t != tid):
                return True
            del pending[tid]
    # a victim that died in the window never performs the read: the window is still open at the end of the trace
    return any(pending[tid] < k for tid in pending for t, k in last.items() if t != tid)


def fail_while_other_in_flight(sc: Scenario, oc: Outcome) -> bool:
    last = _last_shared_action(sc, oc)
    span = {}
    for i, a in enumerate(oc.trace):
        if not sc.failing[a[0]]:
            lo, hi = span.get(a[0], (i, i))
            span[a[0]] = (lo, i if a[1] != "call" else hi)
    return any(lo < k < hi for k in last.values() for lo, hi in span.values())


def oracle(ctx: Ctx, sc: Scenario, oc: Outcome, mode: str, facade: bool):
    for cls, what in oc.problems:
        ctx.fail(f"{sc.family}:{cls}", f"[{sc.name}] {what} (schedule of {len(oc.run.schedule)} decisions, "
                 f"{mode} granularity)",
                 {"scenario": sc.name, "mode": mode, "facade": facade, "schedule": oc.run.schedule,
                  "threads": [[d, type_name(tp), depth] for d, tp, depth in sc.threads],
                  **({"vias": sc.vias, "warm": [[d, type_name(tp), depth] for d, tp, depth in sc.warm]}
                     if sc.derive else {}),
                  **({"roles": sc.roles, "warm": [[d, type_name(tp), depth] for d, tp, depth in sc.warm],
                      "preempted_at": preempted_at(oc)} if sc.wide else {})})


class Batch:
    """collects (scenario, outcome) pairs and compares them with the model in one driver call"""

    def __init__(self, ctx: Ctx, real: Real, drv):
        self.ctx, self.real, self.drv = ctx, real, drv
        self.items: list[tuple[Scenario, Outcome]] = []
        self.derive_items: list[tuple[Scenario, Outcome]] = []

    def add(self, sc, oc):
        if self.drv is not None and oc.run.deadlock is None and sc.modelled:
            self.items.append((sc, oc))
        elif self.drv is not None and oc.run.deadlock is None and sc.derive:
            self.derive_items.append((sc, oc))

    def flush_derive(self):
        """suite `derive-run`: every derivation of every compared run against the model of the cloning code AS IT IS
        (`Strategy.fresh`, AdaptixModel/Retort/Derive.lean) run on the same interleaving of clone steps and stores:
        the real derivation must complete, in as many steps that touch a shared cache as the model takes (one: the
        call itself), and hand over a retort whose caches hold as many entries as the model's (none)"""
        items, self.derive_items = self.derive_items, []
        if not items or self.drv is None:
            return
        reqs, obs, cases = [], [], []
        for sc, oc in items:
            for tid, via in enumerate(sc.vias):
                if not via:
                    continue
                got = derive_observation(sc, oc, tid)
                if got is None:
                    continue
                origin, acts, real_obs = got
                reqs.append({"op": "derive_run", "strategy": "fresh", "origin": origin, "acts": acts})
                obs.append(real_obs)
                cases.append({"scenario": sc.name, "schedule": oc.run.schedule, "thread": tid, "acts": acts})
        reps = self.drv.batch(reqs)
        d = 0
        for case, real_obs, rep in zip(cases, obs, reps):
            if rep.get("ok") != real_obs:
                d += 1
                self.ctx.disagree("derive-run", case, real_obs, rep)
        self.ctx.suite("derive-run", len(reqs), d)

    def flush(self):
        self.flush_derive()
        if not self.items or self.drv is None:
            self.items = []
            return
        reqs = [sc.model_request(self.real.mode, oc.schedule_tids) for sc, oc in self.items]
        reps = self.drv.batch(reqs)
        n = d = 0
        for (sc, oc), rep in zip(self.items, reps):
            n += 1
            case = {"scenario": sc.name, "schedule": oc.run.schedule, "mode": self.real.mode}
            if "ok" not in rep:
                d += 1
                self.ctx.disagree("schedule-run", case, "real run", rep)
                continue
            m = rep["ok"]
            mtrace = canon_model_trace(sc, m["trace"])
            mres = [("none" if r is None else r["r"]) for r in m["results"]]
            rres = [{"ok": "ok", "unbound": "unbound"}.get(r, r) for r in oc.results]
            if mtrace != oc.trace or mres != rres or not m["done"]:
                d += 1
                i = next((i for i, (x, y) in enumerate(zip(mtrace, oc.trace)) if x != y), min(len(mtrace), len(oc.trace)))
                self.ctx.disagree("schedule-run", case,
                                  {"results": rres, "first_diff_at": i, "real_action": oc.trace[i:i + 2]},
                                  {"results": mres, "done": m["done"], "model_action": mtrace[i:i + 2]})
        self.ctx.suite("schedule-run", n, d)
        self.items = []


def explore(ctx: Ctx, real: Real, batch: Batch, sc: Scenario, max_pre: int, deadline: float, shuffle_rng=None,
            facade=False):
    """all schedules with <= max_pre preemptions (depth-first; children shuffled when an rng is given)"""
    def ex(overrides):
        return execute(real, sc, S.chooser_from_overrides(overrides), facade=facade)
    n = 0
    for overrides, oc in explore_outcomes(ex, max_pre, deadline, shuffle_rng):
        n += 1
        note(ctx, sc, oc, f"pre{max_pre}")
        oracle(ctx, sc, oc, "points", facade)
        if not facade:
            batch.add(sc, oc)
        if n % 400 == 0:
            batch.flush()
    return n


def explore_outcomes(ex, max_pre, deadline, rng):
    stack = [({}, 0)]
    while stack:
        if time.time() > deadline:
            return
        if rng is not None and len(stack) > 1:
            i = rng.randrange(len(stack))
            stack[i], stack[-1] = stack[-1], stack[i]
        overrides, used = stack.pop()
        oc = ex(overrides)
        yield overrides, oc
        run = oc.run
        start = (max(overrides) + 1) if overrides else 0
        for i in range(start, len(run.decisions)):
            dcs = run.decisions[i]
            for alt in dcs["enabled"]:
                if alt == dcs["chosen"]:
                    continue
                cost = 1 if dcs["cur"] is not None else 0
                if used + cost <= max_pre:
                    child = dict(overrides)
                    child[i] = alt
                    stack.append((child, used + cost))


def pick_scenario(rng, names) -> Scenario:
    """random stages: a named scenario, (3 times in 10) a random member of the failing-request family, or (3 in 20)
    a random member of the family in which a thread derives a retort from the shared one"""
    r = rng.random()
    if r < 0.3:
        threads = mixed_random(rng)
        return Scenario(mixed_name(threads), threads)
    if r < 0.45:
        return derive_scenario(*derive_random(rng))
    return Scenario(rng.choice(names))


def run_mixed(ctx: Ctx, real: Real, batch: Batch, thorough: bool, deadline: float) -> dict:
    done: dict = {}
    if thorough:
        todo = mixed_pairs()
        ctx.rng.shuffle(todo)
    else:
        todo = []
        for _round in range(len(VALID_REQUESTS)):
            fs = list(FAILING_REQUESTS)
            ctx.rng.shuffle(fs)
            for f in fs:
                todo.append([ctx.rng.choice(QUICK_VICTIMS), f])
    for threads in todo:
        if time.time() > deadline:
            break
        name = mixed_name(threads)
        if name in done:
            continue
        sc = Scenario(name, threads)
        n = explore(ctx, real, batch, sc, 1, deadline, None)
        done[name] = {"schedules_le1": n, "complete": time.time() < deadline, "model_compared": sc.modelled}
        batch.flush()
    if thorough:
        # <= 2 preemptions and three-thread members of the family, sampled
        t2 = time.time() + 15
        while time.time() < t2:
            threads = mixed_random(ctx.rng)
            sc = Scenario(mixed_name(threads), threads)
            explore(ctx, real, batch, sc, 2, min(t2, time.time() + 3), ctx.rng)
            batch.flush()
    return done


def run_derive(ctx: Ctx, real: Real, batch: Batch, thorough: bool, deadline: float) -> dict:
    """ALL schedules with <= 1 preemption for the systematic members of the derive family in seed order, then (a
    quarter of the slice) random schedules of random members at statement granularity with wide tracing of the
    cloning code"""
    import random
    done: dict = {}
    t0 = time.time()
    t_points = t0 + (deadline - t0) * (0.55 if thorough else 0.75)
    t_lines = t0 + (deadline - t0) * 0.75
    # the members explored systematically depend on the seed only (the shared rng has been drawn from a
    # timing-dependent number of times by the sliced stages before)
    for warm, threads, vias in derive_cases(random.Random(f"{ctx.pid}:derive:{ctx.seed}"), not thorough):
        if time.time() > t_points:
            break
        sc = derive_scenario(warm, threads, vias)
        if sc.name in done:
            continue
        n = explore(ctx, real, batch, sc, 1, t_points, None)
        done[sc.name] = {"schedules_le1": n, "complete": time.time() < t_points}
        batch.flush()
    while thorough and time.time() < t_lines:
        # <= 2 preemptions and three-thread members, sampled
        sc = derive_scenario(*derive_random(ctx.rng))
        explore(ctx, real, batch, sc, 2, min(t_lines, time.time() + 3), ctx.rng)
        batch.flush()
    n_lines = 0
    while time.time() < deadline:
        sc = derive_scenario(*derive_random(ctx.rng))
        facade = ctx.rng.random() < 0.3
        chooser = (S.chooser_random(ctx.rng, ctx.rng.choice([0.02, 0.05, 0.2])) if facade else
                   chooser_inside_derive(ctx.rng, sc, ctx.rng.choice([0.02, 0.05, 0.1]), ctx.rng.choice([0.0, 0.01])))
        oc = execute(real, sc, chooser, mode="lines", facade=facade)
        note(ctx, sc, oc, "lines-wide")
        oracle(ctx, sc, oc, "lines", facade)
        n_lines += 1
    done["(statement granularity, wide)"] = {"runs": n_lines}
    return done


def preempted_at(oc: Outcome) -> list:
    """the statements (file:function+relative line) in front of which a thread was switched away from"""
    return [f"t{d['cur']}@{d['preempted_at']}" for d in oc.run.decisions if "preempted_at" in d]


def run_wide(ctx: Ctx, real: Real, thorough: bool, deadline: float) -> dict:
    """family `wid:`: ALL schedules with <= 1 preemption of the statement-level thread(s) - every preemption point x
    the other thread running its complete first request + call (or its call through an obtained loader) - for the
    systematic members in seed order; then pairs of preemptions (<= 2, sampled in random order) on random members.
    Direct oracle only; the sites at which a thread was parked are counted."""
    import random
    done: dict = {}
    sites: dict = ctx.extra.setdefault("wide_preemption_sites", {})
    t0 = time.time()
    t_one = t0 + (deadline - t0) * 0.8
    ctx.extra["wide_line_events"] = "sys.monitoring" if S.WideMonitor.start(real.table) else "sys.settrace"
    try:
        return _run_wide(ctx, real, thorough, deadline, done, sites, t_one)
    finally:
        S.WideMonitor.stop()


def _run_wide(ctx, real, thorough, deadline, done, sites, t_one):
    import random

    def ex_for(sc):
        def ex(overrides):
            return execute(real, sc, S.chooser_from_overrides(overrides), mode="lines")
        return ex

    def account(sc, oc, how):
        note(ctx, sc, oc, how)
        oracle(ctx, sc, oc, "lines", False)
        for k, v in oc.run.sites.items():
            sites[k] = sites.get(k, 0) + v
        ctx.dist["wide:runs"] += 1
        ctx.dist["wide:preemptions-at-points-without-model-counterpart"] += sum(
            1 for dcs in oc.run.decisions if "preempted_at" in dcs and ":" in str(dcs["preempted_at"]))
        if len({tp for _, tp, _ in sc.threads}) < len(sc.threads):
            ctx.dist["wide:race-on-the-same-type"] += 1
        else:
            ctx.dist["wide:race-on-different-types"] += 1
        if "call" in sc.roles:
            ctx.dist["wide:call-through-a-loader-obtained-before"] += 1

    for warm, threads, roles in wide_cases(random.Random(f"{ctx.pid}:wide:{ctx.seed}")):
        if time.time() > t_one and done:
            break
        sc = wide_scenario(warm, threads, roles)
        if sc.name in done:
            continue
        # a scalar request has ~200 preemption points (explored completely), a model ~1000 (a time slice, in an order
        # drawn from the seed and the member)
        scalar = all(tp in (int, str) for (_, tp, _), ro in zip(threads, roles) if ro == "wide")
        dl = t_one if scalar else min(t_one, time.time() + (12 if thorough else 2.0))
        if not done:
            dl = time.time() + 40       # the first member (a race on one scalar type) is always explored completely
        n = 0
        for _ov, oc in explore_outcomes(ex_for(sc), 1, dl, None if scalar else
                                        random.Random(f"{ctx.pid}:wide:{ctx.seed}:{sc.name}")):
            n += 1
            account(sc, oc, "pre1")
        done[sc.name] = {"schedules_le1": n, "complete": time.time() < dl}
    n2 = 0
    while time.time() < deadline:
        sc = wide_scenario(*wide_random(ctx.rng))
        for _ov, oc in explore_outcomes(ex_for(sc), 2, min(deadline, time.time() + (6 if thorough else 1.0)), ctx.rng):
            n2 += 1
            account(sc, oc, "pre2")
    done["(<= 2 preemptions, sampled)"] = {"runs": n2}
    ctx.extra["wide_files"] = real.wide_files
    return done


def run(ctx: Ctx):
    real = Real()
    ctx.extra["funcwrapper_equality"] = real.mode
    ctx.extra["yield_points"] = {f"{Path(k[0]).name}:{v[2]}:{v[0]}": k[1] for k, v in real.table.by_line.items()}
    if not real.table.complete:
        ctx.broken.append({"kind": "scheduler", "name": "yield-points",
                           "detail": f"statement shapes not found: {real.table.missing} ambiguous: {real.table.ambiguous}"})
    drv = None
    if ctx.driver_ok and real.table.complete:
        try:
            drv = Driver("drv_c12")
        except InfraError:
            drv = None
    batch = Batch(ctx, real, drv)
    thorough = ctx.tier == "thorough"
    t_end = time.time() + ctx.budget(79, 595)
    stage_t = {"start": time.time()}

    def stage(name):
        now = time.time()
        ctx.extra.setdefault("stage_seconds", {})[name] = round(now - stage_t["start"], 1)
        stage_t["start"] = now
    names = list(SCENARIOS)
    # 0a. the schedule-independent hypothesis of `all_schedules_safe` (`typed`) for every requested type
    if drv is not None:
        scs = [Scenario(n) for n in names]
        # ... and for the modelled members of the failing-request family (a failing request is well typed when its
        # program leaves nothing on the operand stack)
        scs += [sc for sc in (Scenario(mixed_name(t), t) for t in mixed_pairs()) if sc.modelled]
        reps = drv.batch([{"op": "static", "graph": sc.uni.graph_json(), "fuel": sc.uni.fuel(), "tys": sc.tys}
                          for sc in scs])
        bad = [(sc.name, r) for sc, rep in zip(scs, reps) for r in rep.get("ok", [{"typed": False}]) if not r.get("typed")]
        ctx.suite("static-typed", len(scs), len(bad))
        for name, r in bad:
            ctx.disagree("static-typed", {"scenario": name}, "request program expected to be well typed", r)
    # 0b. the witness of `exists_bad_schedule` replayed on the real retort: it must call an unbound stub exactly
    #     when FuncWrapper compares by location (the oracle then reports it), and agree with the model either way
    sc = Scenario("chain-self-recursive")
    oc = execute(real, sc, chooser_from_action_tids(LEAN_BAD_SCHEDULE))
    note(ctx, sc, oc, "lean-bad-schedule")
    oracle(ctx, sc, oc, "points", False)
    batch.add(sc, oc)
    ctx.extra["lean_bad_schedule_on_real_retort"] = {"results": oc.results, "followed": oc.schedule_tids == LEAN_BAD_SCHEDULE}
    if oc.schedule_tids != LEAN_BAD_SCHEDULE or (("unbound" in oc.results) != (real.mode == "byLoc")):
        ctx.disagree("schedule-run", {"scenario": sc.name, "schedule": oc.run.schedule, "mode": real.mode,
                                      "what": "witness of exists_bad_schedule"},
                     {"results": oc.results, "tids": oc.schedule_tids}, {"expected_unbound": real.mode == "byLoc"})
    batch.flush()
    # 1. all schedules with <= 1 preemption: exhaustive for the two-thread scenarios with short traces, within a
    #    time slice (randomised order) for the expensive ones (three threads / long traces); thorough: all
    exhaustive = {}
    for name in names:
        sc = Scenario(name)
        full = thorough or name not in QUICK_SLICED
        dl = t_end if full else min(t_end, time.time() + 3)
        n = explore(ctx, real, batch, sc, 1, dl, None if full else ctx.rng)
        exhaustive[name] = {"max_preemptions": 1 if time.time() < dl else 0, "schedules_le1": n}
        batch.flush()
    stage("0-1 static, lean witness, <=1 preemption named scenarios")
    # 1b. a request that legitimately FAILS races with a valid first request (generated family, see FAILING_REQUESTS):
    #     all schedules with <= 1 preemption per scenario; quick: one victim and thread order per failing request drawn
    #     from the seed, round robin over the failing requests inside a time slice; thorough: every pair, both orders
    mixed_done = run_mixed(ctx, real, batch, thorough, min(t_end, time.time() + ctx.budget(6, 45)))
    ctx.extra["failing_request_scenarios"] = mixed_done
    stage("1b failing-request family")
    # 1c. a thread DERIVES a retort from the shared one (`replace` / `extend`) and uses it while the others make first
    #     requests on the origin (generated family, see DERIVATIONS): all schedules with <= 1 preemption per scenario,
    #     scheduling points = the located yield points + every statement touching the contents of a shared cache
    ctx.extra["shared_containers"] = real.shared_attrs
    ctx.extra["shared_access_statements"] = real.table.shared_statements
    ctx.extra["derive_scenarios"] = run_derive(ctx, real, batch, thorough, min(t_end, time.time() + ctx.budget(6, 45)))
    stage("1c derive family")
    # 1d. statement-level preemption in every module that can hold state shared by the threads of one retort, on a
    #     retort used for other types before (generated family `wid:`, see WIDE_*): direct oracle only
    #     (a slice of its own, not cut by `t_end`: on a loaded machine the exhaustive stage 1 uses up the common budget)
    ctx.extra["wide_scenarios"] = run_wide(ctx, real, thorough, time.time() + ctx.budget(13, 70))
    stage("1d statement level, whole shared code")
    # 2. <= 2 preemptions: exhaustive for QUICK_FULL2 (thorough: every scenario not in THOROUGH_SLICED), otherwise
    #    a time slice in randomised order
    for name in sorted(names, key=lambda n: n not in QUICK_FULL2):
        sc = Scenario(name)
        full = (name in QUICK_FULL2) or (thorough and name not in THOROUGH_SLICED)
        dl = t_end if full else min(t_end, time.time() + (1.7 if not thorough else 15))
        n = explore(ctx, real, batch, sc, 2, dl, None if full else ctx.rng)
        if full and time.time() < dl and exhaustive[name]["max_preemptions"] == 1:
            exhaustive[name]["max_preemptions"] = 2
        exhaustive[name]["schedules_le2"] = n
        batch.flush()
    stage("2 <=2 preemptions")
    if thorough:
        for k in (3, 4):
            for name in names:
                sc = Scenario(name)
                exhaustive[name][f"schedules_le{k}_sampled"] = explore(
                    ctx, real, batch, sc, k, time.time() + 4, ctx.rng)
                batch.flush()
    ctx.extra["exhaustive"] = False
    ctx.extra["exhaustive_part"] = exhaustive
    stage("2b <=3/<=4 sampled (thorough)")
    # 3. random schedules at yield-point granularity (model-compared), including the facade form retort.load(...)
    #    and malformed schedules (ids of finished / non-existing threads: both sides fall back deterministically)
    t_rand = time.time() + ctx.budget(6, 40)
    for i in range(ctx.budget(60, 4000)):
        if time.time() > t_rand:
            break
        sc = pick_scenario(ctx.rng, names)
        r = ctx.rng.random()
        if r < 0.2:
            junk = [ctx.rng.randrange(-1, len(sc.threads) + 2) for _ in range(ctx.rng.randrange(0, 80))]
            oc = execute(real, sc, S.chooser_from_schedule(junk))
            how = "malformed-schedule"
        else:
            facade = r < 0.35
            oc = execute(real, sc, S.chooser_random(ctx.rng, ctx.rng.choice([0.05, 0.15, 0.4])), facade=facade)
            how = "random-facade" if facade else "random"
        note(ctx, sc, oc, how)
        oracle(ctx, sc, oc, "points", how == "random-facade")
        if how != "random-facade":
            batch.add(sc, oc)
        ctx.sample({"scenario": sc.name, "how": how, "schedule": oc.run.schedule, "results": oc.results,
                    "trace_head": oc.trace[:6]}, every=37)
    batch.flush()
    stage("3 random, facade, malformed")
    # 4. statement granularity (every line of the traced functions is a preemption point): direct oracle only
    t_lines = time.time() + ctx.budget(6, 40)
    for i in range(ctx.budget(40, 3000)):
        if time.time() > t_lines:
            break
        sc = pick_scenario(ctx.rng, names)
        facade = ctx.rng.random() < 0.5
        oc = execute(real, sc, S.chooser_random(ctx.rng, ctx.rng.choice([0.05, 0.2])), mode="lines", facade=facade)
        note(ctx, sc, oc, "lines-random")
        oracle(ctx, sc, oc, "lines", facade)      # (the recorded case names the form that was run)
    stage("4 statement granularity")


def search(ctx: Ctx):
    """Directed search after a broken tie: replay the disagreeing schedules under the oracle, then explore at
    statement granularity, which does not depend on the located yield points."""
    real = Real()
    for d in ctx.disagreements[:100]:
        c = d["case"]
        sc = scenario_by_name(c.get("scenario", ""))
        if sc is not None:
            oc = execute(real, sc, S.chooser_from_schedule(c["schedule"]))
            oracle(ctx, sc, oc, "points", False)
    deadline = time.time() + ctx.budget(120, 400)
    pairs = mixed_pairs()
    ctx.rng.shuffle(pairs)
    derived = [derive_scenario(*c).name for c in derive_cases(ctx.rng, True)[:4]]
    if any(d.get("suite") == "derive-run" for d in ctx.disagreements):
        # the tie of the cloning code broke: look there first - statement granularity, every line the cloning code
        # executes is a preemption point, and the preemptions are spent inside the deriving call
        t_drv = min(deadline, time.time() + ctx.budget(60, 150))
        cases = derive_cases(ctx.rng, True)
        i = 0
        while not ctx.failures and time.time() < t_drv:
            sc = derive_scenario(*(cases[i % len(cases)] if i % 2 == 0 else derive_random(ctx.rng)))
            i += 1
            oc = execute(real, sc, chooser_inside_derive(ctx.rng, sc, ctx.rng.choice([0.02, 0.05, 0.1]),
                                                         ctx.rng.choice([0.0, 0.01])), mode="lines")
            note(ctx, sc, oc, "search-lines-wide")
            oracle(ctx, sc, oc, "lines", False)
    import random
    t_wide = min(deadline, time.time() + ctx.budget(40, 120))
    for case in wide_cases(random.Random(f"{ctx.pid}:wide:{ctx.seed}")):
        if ctx.failures or time.time() > t_wide:
            break
        sc = wide_scenario(*case)

        def exw(overrides, sc=sc):
            return execute(real, sc, S.chooser_from_overrides(overrides), mode="lines")
        for _ov, oc in explore_outcomes(exw, 1, min(t_wide, time.time() + 10), None):
            note(ctx, sc, oc, "search-wide")
            oracle(ctx, sc, oc, "lines", False)
            if ctx.failures:
                break
    todo = list(SCENARIOS) + derived
    for name in todo + [mixed_name(t) for t in pairs[:12]]:
        if ctx.failures or time.time() > deadline:
            break
        sc = scenario_by_name(name)

        def ex(overrides, sc=sc):
            return execute(real, sc, S.chooser_from_overrides(overrides), mode="lines")
        for _ov, oc in explore_outcomes(ex, 1, min(deadline, time.time() + 12), None):
            note(ctx, sc, oc, "search-lines")
            oracle(ctx, sc, oc, "lines", False)
            if ctx.failures:
                break
    for _ in range(300):
        if ctx.failures or time.time() > deadline:
            break
        sc = pick_scenario(ctx.rng, list(SCENARIOS))
        oc = execute(real, sc, S.chooser_random(ctx.rng, 0.2), mode="lines")
        oracle(ctx, sc, oc, "lines", False)


def replay(ctx: Ctx, case) -> bool:
    real = Real()
    sc = scenario_by_name(case.get("scenario") or "", case.get("threads"))
    if sc is None:
        return False
    before = len(ctx.failures)
    oc = execute(real, sc, S.chooser_from_schedule(case["schedule"]), mode=case.get("mode", "points"),
                 facade=bool(case.get("facade")))
    oracle(ctx, sc, oc, case.get("mode", "points"), bool(case.get("facade")))
    return len(ctx.failures) > before
