"""C04, wrong containers at every crown of a generated model loader.

The generated model loader (morphing/model/loader_gen.py) reads every node of the input crown by subscription
(`data[key]` / `data[index]`) and decides "is this the right kind of container" from the exception the subscription raises;
which exceptions mean "wrong container" differs between a dict crown (str key) and a list crown (int index).  The hostile data
of the other C04 suites reach list crowns only through non-subscriptable values.  Here every crown kind the public API can
produce (dict crown, list crown through `as_list=True`, dict / list crowns nested at depth 1..3 through `name_mapping(map=...)`
paths of str and int elements, models with optional fields; the model at the root, as a field of another model, as list
element, dict value, tuple element, Optional / Union case) is fed, at EVERY node of its crown, every container kind of the
corpus `containers()` below - in particular the *wrong subscriptable* ones (a mapping where a sequence is expected, with int
keys 0..n, str keys, defaulting mappings; every sequence kind where a mapping is expected; stdlib objects that answer
`obj[key]` with IndexError for an unknown str key: re.Match, sqlite3.Row; user classes whose `__getitem__` raises one of the
three subscription-protocol exceptions; too short sequences) in all 6 modes.

Oracle (real code only, nothing of the library's logic is used): the load returns, or raises a LoadError whose leaves are all
LoadErrors.  A second part sends explicit crowns (the hand-made crown programs of C03) with the modelled wrong containers at
every node to the Lean model `Layout.loadModel` and compares outcome, error classes, trails and inputs with the real loader.
"""
import array
import collections
import re
import sqlite3
import types
from dataclasses import dataclass, field, make_dataclass
from typing import Optional, Union

# ---------------------------------------------------------------------------------------------------------------------------
# the container corpus: (name, family, factory); a fresh object per use
# ---------------------------------------------------------------------------------------------------------------------------


class GetitemRaises:
    """an object whose subscription always fails with the given protocol exception; only the sized, iterable subclass is in the
    corpus (an object with __getitem__ but no __iter__ is iterated by Python through __getitem__(0), (1), ...: its own code)"""
    def __init__(self, exc):
        self.exc = exc

    def __getitem__(self, key):
        raise self.exc(key)

    def __repr__(self):
        return f"<GetitemRaises {self.exc.__name__}>"


class SizedGetitemRaises(GetitemRaises):
    def __len__(self):
        return 0

    def __iter__(self):
        return iter(())


class ListBacked:
    """sequence-like without the ABC: subscription delegates to a list (str key -> TypeError, short -> IndexError)"""
    def __init__(self, items):
        self.items = list(items)

    def __getitem__(self, key):
        return self.items[key]

    def __len__(self):
        return len(self.items)

    def __repr__(self):
        return f"<ListBacked {self.items!r}>"


class IndexOnlyRow(collections.abc.Sequence):
    """a registered Sequence that, like sqlite3.Row / re.Match, answers an unknown str key with IndexError"""
    def __init__(self, items):
        self.items = list(items)

    def __getitem__(self, key):
        if not isinstance(key, int):
            raise IndexError(f"no item with that key: {key!r}")
        return self.items[key]

    def __len__(self):
        return len(self.items)

    def __repr__(self):
        return f"<IndexOnlyRow {self.items!r}>"


class DictBacked(collections.abc.Mapping):
    def __init__(self, d):
        self.d = dict(d)

    def __getitem__(self, key):
        return self.d[key]

    def __iter__(self):
        return iter(self.d)

    def __len__(self):
        return len(self.d)

    def __repr__(self):
        return f"<DictBacked {self.d!r}>"


def _sqlite_row(sql):
    con = sqlite3.connect(":memory:")
    con.row_factory = sqlite3.Row
    try:
        return con.execute(sql).fetchone()
    finally:
        con.close()


def containers():
    dd_none = lambda: collections.defaultdict(None, {"q": 1})        # noqa: E731  no default_factory: KeyError
    out = [
        # ---- not containers at all
        ("None", "scalar", lambda: None), ("True", "scalar", lambda: True), ("int", "scalar", lambda: 5),
        ("float", "scalar", lambda: 1.5), ("object", "scalar", object), ("ellipsis", "scalar", lambda: ...),
        # ---- mappings
        ("dict-empty", "mapping", dict),
        ("dict-int-keys-2", "mapping", lambda: {0: 1, 1: 2}),
        ("dict-int-keys-4", "mapping", lambda: {0: 1, 1: 2, 2: 3, 3: 4}),
        ("dict-int-key-0", "mapping", lambda: {0: 1}),
        ("dict-str-keys", "mapping", lambda: {"x": 1, "y": 2}),
        ("dict-other-str-key", "mapping", lambda: {"zz": 1}),
        ("dict-mixed-keys", "mapping", lambda: {0: 1, "x": 2, None: 3, (1, 2): 4}),
        ("defaultdict-int", "mapping", lambda: collections.defaultdict(int)),
        ("defaultdict-list", "mapping", lambda: collections.defaultdict(list, {"x": [1]})),
        ("defaultdict-nofactory", "mapping", dd_none),
        ("Counter-empty", "mapping", collections.Counter),
        ("Counter", "mapping", lambda: collections.Counter("aab")),
        ("ChainMap-empty", "mapping", collections.ChainMap),
        ("ChainMap-int-keys", "mapping", lambda: collections.ChainMap({0: 1}, {1: 2})),
        ("MappingProxy-empty", "mapping", lambda: types.MappingProxyType({})),
        ("MappingProxy-int-keys", "mapping", lambda: types.MappingProxyType({0: 1, 1: 2})),
        ("OrderedDict", "mapping", lambda: collections.OrderedDict([(0, 1)])),
        ("UserDict-empty", "mapping", collections.UserDict),
        ("UserDict-int-keys", "mapping", lambda: collections.UserDict({0: 1, 1: 2})),
        ("user-Mapping-empty", "mapping", lambda: DictBacked({})),
        ("user-Mapping-int-keys", "mapping", lambda: DictBacked({0: 1, 1: 2})),
        # ---- sequences
        ("list-empty", "sequence", list), ("list-1", "sequence", lambda: [1]), ("list-2", "sequence", lambda: [1, 2]),
        ("list-5", "sequence", lambda: [1, 2, 3, 4, 5]), ("list-nested", "sequence", lambda: [[1, 2], [3, 4]]),
        ("tuple-empty", "sequence", tuple), ("tuple-2", "sequence", lambda: (1, 2)),
        ("str-empty", "sequence", str), ("str-2", "sequence", lambda: "ab"), ("str-5", "sequence", lambda: "abcde"),
        ("bytes-empty", "sequence", bytes), ("bytes-2", "sequence", lambda: b"ab"),
        ("bytearray-2", "sequence", lambda: bytearray(b"ab")),
        ("range-empty", "sequence", lambda: range(0)), ("range-2", "sequence", lambda: range(2)),
        ("range-5", "sequence", lambda: range(5)),
        ("deque-empty", "sequence", collections.deque), ("deque-2", "sequence", lambda: collections.deque([1, 2])),
        ("array-empty", "sequence", lambda: array.array("i")), ("array-2", "sequence", lambda: array.array("i", [1, 2])),
        ("memoryview-2", "sequence", lambda: memoryview(b"ab")),
        ("UserList-2", "sequence", lambda: collections.UserList([1, 2])),
        ("UserString-2", "sequence", lambda: collections.UserString("ab")),
        ("user-listbacked-empty", "sequence", lambda: ListBacked([])),
        ("user-listbacked-2", "sequence", lambda: ListBacked([1, 2])),
        ("user-Sequence-indexonly-empty", "sequence", lambda: IndexOnlyRow([])),
        ("user-Sequence-indexonly-2", "sequence", lambda: IndexOnlyRow([1, 2])),
        # ---- neither
        ("set-empty", "set", set), ("set-2", "set", lambda: {0, 1}), ("frozenset", "set", lambda: frozenset({0})),
        ("iterator", "scalar", lambda: iter([1, 2])), ("generator", "scalar", lambda: (i for i in (1, 2))),
        # ---- stdlib objects that are subscriptable by str AND int and say IndexError for what they do not have
        ("re.Match-nogroups", "index-only", lambda: re.match("a", "a")),
        ("re.Match-named", "index-only", lambda: re.match("(?P<x>a)(?P<zz>b)?", "a")),
        ("sqlite3.Row-1col", "index-only", lambda: _sqlite_row("select 1 as q")),
        ("sqlite3.Row-xy", "index-only", lambda: _sqlite_row("select 1 as x, 2 as zz")),
        # ---- user objects: subscription fails with one of the three exceptions of the subscription protocol
        ("sized-getitem-raises-IndexError", "getitem-raises", lambda: SizedGetitemRaises(IndexError)),
        ("sized-getitem-raises-KeyError", "getitem-raises", lambda: SizedGetitemRaises(KeyError)),
        ("sized-getitem-raises-TypeError", "getitem-raises", lambda: SizedGetitemRaises(TypeError)),
    ]
    return out


# ---------------------------------------------------------------------------------------------------------------------------
# crown shapes through the public API
# ---------------------------------------------------------------------------------------------------------------------------

# name -> (field -> path, as_list, names of optional fields)
SHAPES = {
    "dict":            ({"x": ("x",), "y": ("y",)}, False, ()),
    "dict-optional":   ({"x": ("x",), "y": ("y",)}, False, ("y",)),
    "dict-all-optional": ({"x": ("x",), "y": ("y",)}, False, ("x", "y")),
    "list":            ({"x": (0,), "y": (1,)}, True, ()),
    "list-3":          ({"x": (0,), "y": (1,), "z": (2,)}, True, ()),
    "dict>dict":       ({"x": ("a", "b"), "y": ("a", "c")}, False, ()),
    "dict>dict-opt":   ({"x": ("a", "b"), "y": ("a", "c")}, False, ("y",)),
    "dict>list":       ({"x": ("a", 0), "y": ("a", 1)}, False, ()),
    "list>dict":       ({"x": (0, "k"), "y": (1,)}, False, ()),
    "list>list":       ({"x": (0, 0), "y": (0, 1)}, False, ()),
    "dict>list>dict":  ({"x": ("a", 0, "k"), "y": ("a", 1, "k")}, False, ()),
    "dict>dict>list":  ({"x": ("a", "b", 0), "y": ("a", "b", 1), "z": ("c",)}, False, ()),
    "list>dict>list":  ({"x": (0, "k", 0), "y": (0, "k", 1), "z": (1,)}, False, ()),
    "list>list>list":  ({"x": (0, 1, 0), "y": (0, 0, 1), "z": (0, 0, 0)}, False, ()),
}

EMBEDDINGS = ("root", "field", "list-elem", "dict-value", "tuple-elem", "optional", "union")
# the shapes that are also loaded from inside another loader in the quick tier (every shape in the thorough tier)
EMBEDDED_QUICK = ("dict-optional", "list", "dict>list", "list>dict", "dict>dict-opt")


def crown_nodes(paths):
    """every node of the crown the paths induce: prefix -> 'dict' | 'list' (kind = type of the next path element)"""
    nodes = {}
    for p in paths.values():
        for i in range(len(p)):
            nodes[p[:i]] = "dict" if isinstance(p[i], str) else "list"
    return nodes


def valid_datum(paths, as_list):
    if as_list:
        return [7] * len(paths)
    nodes = crown_nodes(paths)

    def build(prefix):
        if prefix not in nodes:
            return 7
        children = sorted({p[len(prefix)] for p in paths.values() if p[:len(prefix)] == prefix and len(p) > len(prefix)},
                          key=repr)
        if nodes[prefix] == "dict":
            return {k: build((*prefix, k)) for k in children}
        return [build((*prefix, i)) if i in children else None for i in range(max(children) + 1)]
    return build(())


def put(datum, path, value):
    if not path:
        return value
    if isinstance(datum, dict):
        out = dict(datum)
    else:
        out = list(datum)
    out[path[0]] = put(datum[path[0]], path[1:], value)
    return out


_counter = [0]


def build_shape(name):
    """-> (model class, recipe, nodes, valid datum)"""
    from adaptix import name_mapping
    paths, as_list, optional = SHAPES[name]
    _counter[0] += 1
    fields = [(f, int) for f in paths if f not in optional] + [(f, int, field(default=0)) for f in paths if f in optional]
    cls = make_dataclass(f"Crown{_counter[0]}", fields)
    if as_list:
        recipe = [name_mapping(cls, as_list=True)]
        nodes = {(): "list"}
    else:
        trivial = all(p == (f,) for f, p in paths.items())
        recipe = [] if trivial else [name_mapping(cls, map={f: p for f, p in paths.items()})]
        nodes = crown_nodes(paths)
    return cls, recipe, nodes, valid_datum(paths, as_list)


def embed(kind, cls):
    """-> (type hint, function placing the model's datum into a valid outer datum)"""
    if kind == "root":
        return cls, lambda d: d
    if kind == "field":
        outer = make_dataclass(f"Outer{cls.__name__}", [("name", str), ("inner", cls)])
        return outer, lambda d: {"name": "n", "inner": d}
    if kind == "list-elem":
        return list[cls], lambda d: [d]
    if kind == "dict-value":
        return dict[str, cls], lambda d: {"k": d}
    if kind == "tuple-elem":
        return tuple[int, cls], lambda d: (1, d)
    if kind == "optional":
        return Optional[cls], lambda d: d
    if kind == "union":
        return Union[cls, bool], lambda d: d
    raise KeyError(kind)


def only_load_errors(e) -> bool:
    from adaptix.load_error import LoadError
    if not isinstance(e, LoadError):
        return False
    if isinstance(e, BaseExceptionGroup):
        return all(only_load_errors(x) for x in e.exceptions)
    return True


def first_foreign(e):
    """class name of the first non-LoadError of an exception tree"""
    from adaptix.load_error import LoadError
    if isinstance(e, BaseExceptionGroup):
        for x in e.exceptions:
            r = first_foreign(x)
            if r:
                return r
        return None if isinstance(e, LoadError) else type(e).__name__
    return None if isinstance(e, LoadError) else type(e).__name__


def judge(loader, datum):
    """-> ('ok' | 'err' | 'escape', detail)"""
    try:
        loader(datum)
    except Exception as e:  # noqa: BLE001
        if only_load_errors(e):
            return "err", type(e).__name__
        return "escape", first_foreign(e) or type(e).__name__
    return "ok", ""


MODES = [(m, s) for m in ("DISABLE", "FIRST", "ALL") for s in (True, False)]


def child_keys(shape, node):
    """the keys / indices the crown node reads from its datum (from the declared paths alone)"""
    paths, as_list, _opt = SHAPES[shape]
    if as_list:
        return list(range(len(paths)))
    node = tuple(node)
    out = []
    for p in paths.values():
        if p[:len(node)] == node and len(p) > len(node) and p[len(node)] not in out:
            out.append(p[len(node)])
    return out


def answers_some_key(mk, keys) -> bool:
    """does `container[key]` succeed for one of the keys the node reads (plain Python subscription, no library code)"""
    for k in keys:
        try:
            mk()[k]
        except Exception:  # noqa: BLE001
            continue
        return True
    return False


def signature(node_kind, family, exc, partial):
    """`exc` = class of the escaping exception (of the first foreign leaf for a group).  Containers that answer at least one of
    the node's keys are a class of their own: the generated loader treats the first successful subscription as the type check"""
    return f"escape:{exc}:{node_kind}-crown<-{family}" + (":answers-some-child-key" if partial else "")


def run_case(ctx, shape, emb, node, cname, mode, strict, _cache={}):
    """one recorded case again (replay)"""
    from adaptix import DebugTrail, Retort
    cls, recipe, nodes, good = build_shape(shape)
    hint, place = embed(emb, cls)
    mk = {n: f for n, _fam, f in containers()}[cname]
    loader = Retort(recipe=recipe, debug_trail=getattr(DebugTrail, mode), strict_coercion=strict).get_loader(hint)
    return judge(loader, place(put(good, tuple(node), mk())))


def suite_public(ctx, shapes=None, embeddings=None):
    """every shape x embedding x node x container x 6 modes through Retort.load"""
    from adaptix import DebugTrail, Retort
    corpus = containers()
    for shape in (shapes or SHAPES):
        cls, recipe, nodes, good = build_shape(shape)
        # the root embedding sees every node; the other embeddings see the root node and the deepest one
        deepest = max(nodes, key=len)
        for emb in (embeddings or EMBEDDINGS):
            if emb != "root" and ctx.tier == "quick" and shape not in EMBEDDED_QUICK:
                continue
            hint, place = embed(emb, cls)
            loaders = {(m, s): Retort(recipe=recipe, debug_trail=getattr(DebugTrail, m), strict_coercion=s).get_loader(hint)
                       for (m, s) in MODES}
            # sanity of the harness itself: the valid datum loads (otherwise the substitutions test nothing)
            st, detail = judge(loaders[("ALL", True)], place(good))
            if st != "ok":
                from harness.core import InfraError
                raise InfraError(f"c04_crowns: the valid datum of shape {shape} / {emb} does not load: {st} {detail}")
            for node, node_kind in nodes.items():
                if emb != "root" and node not in ((), deepest):
                    continue
                keys = child_keys(shape, node)
                for cname, family, mk in corpus:
                    partial = answers_some_key(mk, keys)
                    for (m, s), loader in loaders.items():
                        datum = place(put(good, node, mk()))
                        st, detail = judge(loader, datum)
                        wrong = (node_kind == "dict") != (family == "mapping") or family in ("index-only", "getitem-raises")
                        case = {"kind": "crown-container", "shape": shape, "embedding": emb, "node": list(node),
                                "node_kind": node_kind, "container": cname, "family": family, "mode": m, "strict": s,
                                "answers_some_child_key": partial}
                        ctx.note_case(case, nontrivial=st != "ok",
                                      kind=f"crown-container:{node_kind}<-{family}:{st}" + (":wrong-subscriptable" if wrong and family in (
                                          "mapping", "sequence", "index-only", "getitem-raises") else ""))
                        if st == "escape":
                            ctx.fail(signature(node_kind, family, detail, partial),
                                     f"load of {datum!r:.120} for a model with crown shape {shape} ({emb}), {cname} at the "
                                     f"{node_kind} node {list(node)} [{m}, strict={s}]: {detail} escaped instead of a LoadError",
                                     case)
    ctx.sample({"suite": "crown-container", "shapes": len(shapes or SHAPES), "embeddings": len(embeddings or EMBEDDINGS),
                "containers": len(corpus)})


# ---------------------------------------------------------------------------------------------------------------------------
# correspondence with Layout.loadModel (explicit crowns, the modelled universe None/bool/int/str/list/dict/opaque)
# ---------------------------------------------------------------------------------------------------------------------------

def modelled_containers(c03):
    return [None, True, 5, "", "ab", "abcdefgh", [], [1], [1, 2], [1, 2, 3, 4, 5, 6], [[1], [2]], {}, {"a": 1},
            {"0": 1, "1": 2}, {"k": 1, "x": 2, "y": 3}, c03.Opaque("o")]


def suite_model(ctx, drv, n_programs):
    """explicit crowns x every node x every modelled container x 6 modes: real generated loader vs `Layout.loadModel`"""
    from harness.core import InfraError
    from harness.props import c03
    real = c03.Real()
    cr = c03.CrownReal(real)
    requests, meta = [], []
    for _ in range(n_programs):
        prog = c03.gen_crown_program(ctx.rng)
        kinds = {f["id"]: f["type"] for f in prog["fields"]}
        base = c03.base_datum(prog["crown"], kinds, ctx.rng, salt=ctx.rng.randrange(5))
        data = []
        for path, c in c03.crown_sites(prog["crown"]):
            if c["t"] not in ("dict", "list"):
                continue
            for i, w in enumerate(modelled_containers(c03)):
                try:
                    data.append((f"container{i}:{c['t']}@{'/'.join(map(str, path))}", c["t"], c03.set_at(base, path, w)))
                except (KeyError, IndexError, TypeError):
                    pass
        for mode in c03.MODES:
            for strict in (True, False):
                try:
                    loader = cr.loader(prog, mode, strict)
                except Exception as e:  # noqa: BLE001
                    raise InfraError(f"cannot create loader for hand-made crown {prog}: {e!r}")
                for label, node_kind, datum in data:
                    requests.append(c03.load_request(prog, mode, strict, datum))
                    meta.append((prog, mode, strict, label, node_kind, datum, loader))
    replies = drv.batch(requests) if drv else [None] * len(requests)
    n = bad = 0
    for (prog, mode, strict, label, node_kind, datum, loader), rep in zip(meta, replies):
        real_out = c03.run_real_loader(real, loader, datum, mode, cr.observe(prog))
        case = {"kind": "crown-container-model", "prog": prog, "mode": mode, "strict": strict, "label": label,
                "data": c03.safe_enc(datum)}
        ctx.note_case(case, nontrivial=real_out["r"] != "ok", kind=f"crown-model:{node_kind}:{real_out['r']}")
        if real_out["r"] == "escape" and prog["move"] == "kwargs" and real_out["cls"] == "TypeError" and \
                "multiple values for keyword argument" in str(real_out.get("detail")):
            # documented (extended-usage.rst, ExtraKwargs): "If an unknown field collides with the original field name,
            # TypeError will be raised, treated as an unexpected error" - not a violation of C04; counted
            ctx.dist["crown-model:documented-extra-kwargs-collision"] += 1
        elif real_out["r"] == "escape":
            ctx.fail(f"escape:{real_out['cls']}:{node_kind}-crown<-modelled",
                     f"generated loader of an explicit crown, {label} [{mode}, strict={strict}]: {real_out['cls']} escaped "
                     f"({real_out.get('detail')})", case)
        if rep is not None:
            n += 1
            model_out = c03.canon_model_load(rep)
            if prog["move"] == "kwargs":
                model_out = c03.kwargs_binding({f["id"] for f in prog["fields"]}, model_out)
            cmp_real = {k: v for k, v in real_out.items() if k != "detail"}
            if model_out != cmp_real:
                bad += 1
                ctx.disagree("crown-containers", case, cmp_real, rep)
    if drv:
        ctx.suite("crown-containers", n, bad)
