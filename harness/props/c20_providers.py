"""C20 - purity of the NON-DEFAULT representation providers and of every provider that builds a container or an object.

The morph engine of c20.py generates types served by the default recipe.  This suite covers what it does not: the dumpers and
loaders installed by flag_by_member_names (all options), enum_by_name / enum_by_exact_value / enum_by_value(tp=<container>),
datetime_by_format / datetime_by_timestamp / date_by_timestamp and the ISO providers, bytearray, every iterable / dict / tuple
provider, default_dict, models with default factories, name_mapping(as_list=True), extra_out / extra_in, omit_default - each as
the requested type itself and as an element of list / deque / fixed tuple / variadic tuple / dict value / Optional / dataclass
field / as_list model / nested list of dicts.

Oracle (real code only, the property itself): through ONE retort every call is made at least three times with equal arguments
(the same object, and an equal but separately built one; for loading also the datum with every list turned into a tuple, i.e. a
hashable argument):
  * the argument is deep-equal to its snapshot afterwards;
  * the results are equal to each other, to the answer of a retort built anew from the same recipe, and (dump) to the expected
    datum computed here from the value without the library;
  * no mutable container (list, dict, set, deque, bytearray, model instance) is reachable from two results, or from a result and
    the argument (the types used here have no as-is position that holds a mutable value);
  * nothing is retained by the retort: every mutable container of the earlier results is modified in place, the call is made
    again and must still give the answer of a fresh retort.
The retort's debug_trail (ALL / FIRST / DISABLE) and strict_coercion are drawn per case, so every variant of a generated
loader / dumper is reached.  A case is rebuilt from (leaf, wrap, seed) only, which is what the replay stores.
"""
import collections
import copy
import dataclasses
import datetime as dt
import random
import typing
from enum import Enum, Flag

MUTABLE = (list, set, dict, collections.deque, bytearray)
SENTINEL = "<c20-mutated>"


def is_model(o):
    return dataclasses.is_dataclass(o) and not isinstance(o, type)


def is_mutable(o):
    return isinstance(o, MUTABLE) or (is_model(o) and not o.__dataclass_params__.frozen)


def children(o):
    if isinstance(o, (list, tuple, set, frozenset, collections.deque)):
        return list(o)
    if isinstance(o, dict):
        return [x for kv in o.items() for x in kv]
    if is_model(o):
        return [getattr(o, f.name) for f in dataclasses.fields(o)]
    return []


def walk(o, acc=None, depth=0):
    """id -> object for every mutable container reachable from o"""
    acc = {} if acc is None else acc
    if depth > 14 or id(o) in acc:
        return acc
    if is_mutable(o):
        acc[id(o)] = o
    for c in children(o):
        walk(c, acc, depth + 1)
    return acc


def canon(o, depth=0):
    """type-aware structural value (order of sets removed), used for every equality of the oracle"""
    t = type(o).__name__
    if depth > 14:
        return (t, "...")
    if isinstance(o, (list, tuple, collections.deque)):
        return (t, [canon(x, depth + 1) for x in o])
    if isinstance(o, (set, frozenset)):
        return (t, sorted((canon(x, depth + 1) for x in o), key=repr))
    if isinstance(o, dict):
        return (t, [(canon(k, depth + 1), canon(v, depth + 1)) for k, v in o.items()])
    if is_model(o):
        return (t, [(f.name, canon(getattr(o, f.name), depth + 1)) for f in dataclasses.fields(o)])
    if isinstance(o, float):
        return (t, repr(o))
    if isinstance(o, (Enum, dt.datetime, dt.date, dt.time, dt.timedelta)):
        return (t, repr(o))
    if isinstance(o, (bytearray, bytes)):
        return (t, bytes(o))
    return (t, o if isinstance(o, (int, str, bool, type(None))) else repr(o))


def mutate_all(*results):
    """modify every mutable container of the results in place (children collected first)"""
    nodes = {}
    for r in results:
        walk(r, nodes)
    for o in nodes.values():
        try:
            if isinstance(o, list):
                o.append(SENTINEL)
                o.reverse()
            elif isinstance(o, collections.deque):
                o.append(SENTINEL)
            elif isinstance(o, set):
                o.add(SENTINEL)
            elif isinstance(o, bytearray):
                o.extend(b"\x00!")
            elif isinstance(o, dict):
                for k in list(o):
                    if not is_mutable(o[k]):
                        o[k] = SENTINEL
                o[SENTINEL] = SENTINEL
            elif is_model(o):
                for f in dataclasses.fields(o):
                    if not is_mutable(getattr(o, f.name)):
                        setattr(o, f.name, SENTINEL)
        except Exception:  # noqa: BLE001
            pass


def tuplify(d):
    """the same datum with every list turned into a tuple (a hashable argument where the leaves are hashable)"""
    if isinstance(d, (list, tuple)):
        return tuple(tuplify(x) for x in d)
    if isinstance(d, dict):
        return {k: tuplify(v) for k, v in d.items()}
    return d


@dataclasses.dataclass
class Part:
    hint: typing.Any
    recipe: typing.Callable[[], list]          # builds the providers anew (a fresh retort must not share provider objects)
    value: typing.Callable[[random.Random], typing.Any]   # value from an rng; equal rng state -> equal, separately built value
    expect: typing.Optional[typing.Callable[[typing.Any], typing.Any]]   # value -> expected dumped datum, without the library
    builds: bool = False                       # the dump (or load) of this part builds a mutable container
    desc: str = ""


# ------------------------------------------------------------------------------------------------------------- leaves
_NAMES = ["READ", "WRITE", "EXEC", "ADMIN", "OWNER", "AUDIT"]


def _flag_class(rng, compound):
    n = rng.randint(2, 5)
    members = {_NAMES[i]: 1 << i for i in range(n)}
    if compound:
        a, b = rng.sample(range(n), 2)
        members["BOTH"] = (1 << a) | (1 << b)
        if rng.random() < 0.4:
            members["ALL"] = (1 << n) - 1
    return Flag("Perm%d" % rng.randint(0, 10 ** 6), members), n


def leaf_flag_names(rng):
    from adaptix import NameStyle, flag_by_member_names
    compound = rng.random() < 0.5
    cls, n = _flag_class(rng, compound)
    opts = {"allow_single_value": rng.random() < 0.5, "allow_duplicates": rng.random() < 0.5, "allow_compound": rng.random() < 0.6}
    style = rng.choice([None, None, NameStyle.LOWER, NameStyle.UPPER])
    mp = {"READ": "r!"} if rng.random() < 0.25 else None

    def recipe():
        return [flag_by_member_names(cls, name_style=style, map=mp, **opts)]

    def value(r):
        return cls(r.choice([0, 1, (1 << n) - 1, r.randrange(1 << n), r.randrange(1 << n)]))

    def rename(nm):
        if mp and nm in mp:
            return mp[nm]
        return nm.lower() if style is NameStyle.LOWER else nm

    expect = None
    if not compound:
        # members are single bits: the documented form is the list of the names of the bits that are set, in definition order
        def expect(v):
            return [rename(nm) for nm in _NAMES[:n] if v.value & cls[nm].value]
    return Part(cls, recipe, value, expect, True, f"flag_by_member_names({opts}, style={style}, map={mp}, compound={compound}, n={n})")


def leaf_flag_exact(rng):
    cls, n = _flag_class(rng, rng.random() < 0.3)
    return Part(cls, lambda: [], lambda r: cls(r.randrange(1 << n)), lambda v: v.value, False, "flag (default, exact value)")


def _enum_class(rng, values):
    return Enum("Kind%d" % rng.randint(0, 10 ** 6), dict(zip(["ALPHA", "BETA", "GAMMA", "DELTA"], values)))


def leaf_enum_name(rng):
    from adaptix import NameStyle, enum_by_name
    cls = _enum_class(rng, [1, "two", 3.5, (4, 4)])
    style = rng.choice([None, NameStyle.LOWER])
    mp = {"BETA": "b!"} if rng.random() < 0.3 else None
    members = list(cls)

    def expect(v):
        if mp and v.name in mp:
            return mp[v.name]
        return v.name.lower() if style else v.name
    return Part(cls, lambda: [enum_by_name(cls, name_style=style, map=mp)], lambda r: r.choice(members), expect, False,
                f"enum_by_name(style={style}, map={mp})")


def leaf_enum_exact(rng):
    from adaptix import enum_by_exact_value
    cls = _enum_class(rng, [1, "two", 3, "four"])
    members = list(cls)
    explicit = rng.random() < 0.5
    return Part(cls, lambda: [enum_by_exact_value(cls)] if explicit else [], lambda r: r.choice(members), lambda v: v.value, False,
                "enum_by_exact_value" + ("" if explicit else " (default)"))


def leaf_enum_value_container(rng):
    """enum_by_value(tp=<container type>): the member's value goes through the container's dumper and loader"""
    from adaptix import enum_by_value
    which = rng.choice(["list", "tuple", "dict"])
    if which == "list":
        cls, tp = _enum_class(rng, [[1, 2], [3], [], [4, 5, 6]]), list[int]
        expect = lambda v: list(v.value)     # noqa: E731
    elif which == "tuple":
        cls, tp = _enum_class(rng, [(1, "x"), (2, "y"), (3, "z"), (4, "")]), tuple[int, str]
        expect = lambda v: tuple(v.value)    # noqa: E731
    else:
        cls, tp = _enum_class(rng, [{"a": 1}, {"b": 2, "c": 3}, {}, {"d": 4}]), dict[str, int]
        expect = lambda v: dict(v.value)     # noqa: E731
    members = list(cls)
    return Part(cls, lambda: [enum_by_value(cls, tp=tp)], lambda r: r.choice(members), expect, which != "tuple",
                f"enum_by_value(tp={which})")


def _dt(r, tz=None):
    return dt.datetime(r.randint(1990, 2035), r.randint(1, 12), r.randint(1, 28), r.randint(0, 23), r.randint(0, 59), r.randint(0, 59),
                       tzinfo=tz)


def leaf_temporal(rng):
    from adaptix import date_by_timestamp, datetime_by_format, datetime_by_timestamp
    which = rng.choice(["dt-format", "dt-timestamp", "date-timestamp", "dt-iso", "date-iso", "time-iso", "timedelta"])
    if which == "dt-format":
        fmt = rng.choice(["%Y-%m-%d %H:%M:%S", "%d/%m/%Y %H.%M.%S", "%Y%m%dT%H%M%S"])
        return Part(dt.datetime, lambda: [datetime_by_format(fmt=fmt)], _dt, lambda v: v.strftime(fmt), False, f"datetime_by_format({fmt})")
    if which == "dt-timestamp":
        return Part(dt.datetime, lambda: [datetime_by_timestamp(tz=dt.timezone.utc)], lambda r: _dt(r, dt.timezone.utc),
                    lambda v: v.timestamp(), False, "datetime_by_timestamp(utc)")
    if which == "date-timestamp":
        return Part(dt.date, lambda: [date_by_timestamp()], lambda r: _dt(r).date(), None, False, "date_by_timestamp")
    if which == "dt-iso":
        return Part(dt.datetime, lambda: [], _dt, lambda v: v.isoformat(), False, "datetime iso")
    if which == "date-iso":
        return Part(dt.date, lambda: [], lambda r: _dt(r).date(), lambda v: v.isoformat(), False, "date iso")
    if which == "time-iso":
        return Part(dt.time, lambda: [], lambda r: _dt(r).time(), lambda v: v.isoformat(), False, "time iso")
    return Part(dt.timedelta, lambda: [], lambda r: dt.timedelta(seconds=r.randint(0, 10 ** 6)), lambda v: v.total_seconds(), False, "timedelta")


def leaf_scalar(rng):
    which = rng.choice(["int", "str", "bool", "bytearray", "bytes"])
    if which == "int":
        return Part(int, lambda: [], lambda r: r.randint(-5, 5), lambda v: v, False, "int")
    if which == "str":
        return Part(str, lambda: [], lambda r: r.choice(["", "a", "bc"]), lambda v: v, False, "str")
    if which == "bool":
        return Part(bool, lambda: [], lambda r: r.random() < 0.5, lambda v: v, False, "bool")
    import base64
    exp = lambda v: base64.b64encode(bytes(v)).decode("ascii")   # noqa: E731
    if which == "bytes":
        return Part(bytes, lambda: [], lambda r: bytes(r.randrange(256) for _ in range(r.randint(0, 4))), exp, False, "bytes")
    return Part(bytearray, lambda: [], lambda r: bytearray(r.randrange(256) for _ in range(r.randint(0, 4))), exp, True, "bytearray")


def leaf_container(rng):
    """every iterable / mapping provider over an int or str element"""
    el_t, el = rng.choice([(int, lambda r: r.randint(0, 9)), (str, lambda r: r.choice("abcdef"))])
    seq = lambda r: [el(r) for _ in range(r.randint(0, 3))]   # noqa: E731
    A = collections.abc
    table = {
        "list": (list[el_t], seq, list), "List": (typing.List[el_t], seq, list),
        "MutableSequence": (A.MutableSequence[el_t], seq, tuple), "Sequence": (A.Sequence[el_t], lambda r: tuple(seq(r)), tuple),
        "Iterable": (A.Iterable[el_t], lambda r: tuple(seq(r)), tuple), "Collection": (A.Collection[el_t], lambda r: tuple(seq(r)), tuple),
        "vartuple": (tuple[el_t, ...], lambda r: tuple(seq(r)), tuple), "deque": (collections.deque[el_t], lambda r: collections.deque(seq(r)), tuple),
        "set": (set[el_t], lambda r: set(seq(r)), "set"), "frozenset": (frozenset[el_t], lambda r: frozenset(seq(r)), "set"),
        "AbstractSet": (A.Set[el_t], lambda r: frozenset(seq(r)), "set"), "MutableSet": (A.MutableSet[el_t], lambda r: set(seq(r)), "set"),
    }
    maps = {
        "dict": (dict[str, el_t], dict), "Mapping": (A.Mapping[str, el_t], dict), "MutableMapping": (A.MutableMapping[str, el_t], dict),
        "defaultdict": (collections.defaultdict[str, el_t], None),
        "default_dict-provider": (collections.defaultdict[str, el_t], None),
    }
    name = rng.choice([*table, *maps])
    if name in table:
        hint, gen, out = table[name]
        if out == "set":
            return Part(hint, lambda: [], gen, None, True, f"{name}[{el_t.__name__}]")
        return Part(hint, lambda: [], gen, lambda v: out(v), True, f"{name}[{el_t.__name__}]")
    hint, ctor = maps[name]

    def gen(r):
        items = {k: el(r) for k in r.sample(["k1", "k2", "k3"], r.randint(0, 3))}
        return ctor(items) if ctor else collections.defaultdict(el_t, items)

    def recipe():
        from adaptix import default_dict
        return [default_dict(hint, el_t)] if name == "default_dict-provider" else []
    return Part(hint, recipe, gen, lambda v: dict(v), True, f"{name}[str, {el_t.__name__}]")


def leaf_model(rng):
    """models whose loading calls default factories and whose dumping builds dicts / lists: plain, omit_default, as_list,
    extra_out (one target, several targets), extra_in"""
    from adaptix import name_mapping
    which = rng.choice(["defaults", "omit_default", "as_list", "extra-one", "extra-several", "namedtuple", "typeddict"])
    tag = rng.randint(0, 10 ** 6)
    if which in ("defaults", "omit_default"):
        cls = dataclasses.make_dataclass(f"MD{tag}", [
            ("a", int), ("xs", list[int], dataclasses.field(default_factory=list)),
            ("m", dict[str, list[int]], dataclasses.field(default_factory=lambda: {"k": []})),
            ("s", set[int], dataclasses.field(default_factory=set))])
        omit = which == "omit_default"

        def gen(r):
            if r.random() < 0.5:
                return cls(a=r.randint(0, 3))     # every optional field takes the result of its factory
            return cls(a=r.randint(0, 3), xs=[r.randint(0, 3)], m={"k": [1], "j": []}, s=set())

        def expect(v):
            d = {"a": v.a, "xs": list(v.xs), "m": {k: list(x) for k, x in v.m.items()}, "s": tuple(v.s)}
            if omit:
                d = {k: x for k, x in d.items() if k == "a" or getattr(v, k) != {"xs": [], "m": {"k": []}, "s": set()}[k]}
            return d
        return Part(cls, lambda: [name_mapping(cls, omit_default=True)] if omit else [], gen, expect, True, f"dataclass factories, omit_default={omit}")
    if which == "as_list":
        cls = dataclasses.make_dataclass(f"ML{tag}", [("a", int), ("xs", list[int]), ("b", str)])
        return Part(cls, lambda: [name_mapping(cls, as_list=True)], lambda r: cls(r.randint(0, 3), [r.randint(0, 3)] * r.randint(0, 2), "s"),
                    lambda v: [v.a, list(v.xs), v.b], True, "name_mapping(as_list=True)")
    if which == "extra-one":
        cls = dataclasses.make_dataclass(f"MX{tag}", [("a", int), ("extra", dict[str, int])])
        return Part(cls, lambda: [name_mapping(cls, extra_in="extra", extra_out="extra")],
                    lambda r: cls(r.randint(0, 3), {k: r.randint(0, 3) for k in r.sample(["p", "q", "r"], r.randint(0, 3))}),
                    lambda v: {"a": v.a, **v.extra}, True, "extra_in/extra_out one dict field")
    if which == "extra-several":
        cls = dataclasses.make_dataclass(f"MY{tag}", [("a", int), ("e1", dict[str, int]), ("e2", dict[str, int])])
        return Part(cls, lambda: [name_mapping(cls, extra_out=["e1", "e2"])],
                    lambda r: cls(r.randint(0, 3), {"p": r.randint(0, 3)}, {"q": r.randint(0, 3)} if r.random() < 0.7 else {}),
                    lambda v: {"a": v.a, **v.e1, **v.e2}, True, "extra_out several fields")
    if which == "namedtuple":
        cls = typing.NamedTuple(f"NT{tag}", [("a", int), ("xs", list[int])])
        return Part(cls, lambda: [], lambda r: cls(r.randint(0, 3), [r.randint(0, 3)]), lambda v: {"a": v.a, "xs": list(v.xs)}, True, "NamedTuple")
    cls = typing.TypedDict(f"TD{tag}", {"a": int, "xs": list[int]})
    return Part(cls, lambda: [], lambda r: {"a": r.randint(0, 3), "xs": [r.randint(0, 3)]}, lambda v: {"a": v["a"], "xs": list(v["xs"])}, True,
                "TypedDict")


LEAVES = {
    "flag-names": leaf_flag_names, "flag-exact": leaf_flag_exact, "enum-name": leaf_enum_name, "enum-exact": leaf_enum_exact,
    "enum-value-container": leaf_enum_value_container, "temporal": leaf_temporal, "scalar": leaf_scalar, "container": leaf_container,
    "model": leaf_model,
}
# flag_by_member_names is the provider with the most options and the only representation provider that builds a list: weight it
LEAF_WEIGHTS = {"flag-names": 5, "flag-exact": 1, "enum-name": 2, "enum-exact": 1, "enum-value-container": 2, "temporal": 2, "scalar": 2,
                "container": 3, "model": 3}


# ------------------------------------------------------------------------------------------------------------ wrappers
def _ex(p, f):
    return (lambda v: f(p.expect, v)) if p.expect else None


def wrap_bare(p, rng):
    return p


def wrap_list(p, rng):
    return Part(list[p.hint], p.recipe, lambda r: [p.value(r) for _ in range(r.randint(1, 3))], _ex(p, lambda e, v: [e(x) for x in v]), True)


def wrap_list_repeat(p, rng):
    """the SAME element value several times inside one argument"""
    def gen(r):
        st = r.getstate()
        out = []
        for _ in range(r.randint(2, 3)):
            r.setstate(st)
            out.append(p.value(r))
        return out
    return Part(list[p.hint], p.recipe, gen, _ex(p, lambda e, v: [e(x) for x in v]), True)


def wrap_deque(p, rng):
    return Part(collections.deque[p.hint], p.recipe, lambda r: collections.deque(p.value(r) for _ in range(r.randint(1, 3))),
                _ex(p, lambda e, v: tuple(e(x) for x in v)), True)


def wrap_pair(p, rng):
    return Part(tuple[p.hint, int, p.hint], p.recipe, lambda r: (p.value(r), 7, p.value(r)), _ex(p, lambda e, v: (e(v[0]), 7, e(v[2]))), p.builds)


def wrap_vartuple(p, rng):
    return Part(tuple[p.hint, ...], p.recipe, lambda r: tuple(p.value(r) for _ in range(r.randint(1, 3))),
                _ex(p, lambda e, v: tuple(e(x) for x in v)), p.builds)


def wrap_dict(p, rng):
    return Part(dict[str, p.hint], p.recipe, lambda r: {k: p.value(r) for k in r.sample(["x", "y", "z"], r.randint(1, 3))},
                _ex(p, lambda e, v: {k: e(x) for k, x in v.items()}), True)


def wrap_optional(p, rng):
    return Part(typing.Optional[p.hint], p.recipe, lambda r: None if r.random() < 0.2 else p.value(r),
                _ex(p, lambda e, v: None if v is None else e(v)), p.builds)


def wrap_field(p, rng):
    cls = dataclasses.make_dataclass("WF%d" % rng.randint(0, 10 ** 6), [("name", str), ("item", p.hint), ("other", p.hint)])
    return Part(cls, p.recipe, lambda r: cls(r.choice(["alice", "bob"]), p.value(r), p.value(r)),
                _ex(p, lambda e, v: {"name": v.name, "item": e(v.item), "other": e(v.other)}), True)


def wrap_as_list_field(p, rng):
    from adaptix import name_mapping
    cls = dataclasses.make_dataclass("WL%d" % rng.randint(0, 10 ** 6), [("name", str), ("item", p.hint)])
    return Part(cls, lambda: [*p.recipe(), name_mapping(cls, as_list=True)], lambda r: cls("n", p.value(r)),
                _ex(p, lambda e, v: [v.name, e(v.item)]), True)


def wrap_nested(p, rng):
    return Part(list[dict[str, p.hint]], p.recipe, lambda r: [{"k": p.value(r)} for _ in range(r.randint(1, 2))],
                _ex(p, lambda e, v: [{"k": e(d["k"])} for d in v]), True)


WRAPS = {"bare": wrap_bare, "list": wrap_list, "list-repeat": wrap_list_repeat, "deque": wrap_deque, "pair": wrap_pair, "vartuple": wrap_vartuple,
         "dict": wrap_dict, "optional": wrap_optional, "field": wrap_field, "as-list-field": wrap_as_list_field, "nested": wrap_nested}


def build(case):
    rng = random.Random(case["seed"])
    leaf = LEAVES[case["leaf"]](rng)
    part = WRAPS[case["wrap"]](leaf, rng)
    from adaptix import DebugTrail
    cfg = {"debug_trail": rng.choice([DebugTrail.ALL, DebugTrail.ALL, DebugTrail.FIRST, DebugTrail.DISABLE]),
           "strict_coercion": rng.random() < 0.6}
    part.desc = f"{leaf.desc} (retort: {cfg['debug_trail'].name}, strict_coercion={cfg['strict_coercion']})"
    return part, rng.randrange(2 ** 32), cfg


# -------------------------------------------------------------------------------------------------------------- oracle
def check_calls(ctx, case, direction, call, fresh_call, args, expected, desc):
    """`call(arg)` goes through the retort under test, `fresh_call(arg)` through a retort built anew; `args` = equal arguments
    (first one given twice). Returns False after the first reported failure."""
    snaps = [canon(a) for a in args]
    arg_nodes = {}
    for a in args:
        walk(a, arg_nodes)
    seq = [args[0], *args[1:], args[0]]
    results = [call(a) for a in seq]
    what = f"{direction} of {desc} [{case['wrap']}]"
    if [canon(a) for a in args] != snaps:
        ctx.fail(f"providers:{direction}-mutates-argument", f"{what} changed its argument: {args[0]!r:.100}", case)
        return False
    want = canon(results[0])
    if any(canon(r) != want for r in results[1:]):
        ctx.fail(f"providers:{direction}-not-repeatable", f"{what}: equal arguments gave {results[0]!r:.80} and then "
                 f"{[r for r in results[1:] if canon(r) != want][0]!r:.80}", case)
        return False
    if expected is not None and want != canon(expected):
        ctx.fail(f"providers:{direction}-unexpected-result", f"{what} gave {results[0]!r:.100}, the documented form is {expected!r:.100}", case)
        return False
    node_sets = [walk(r) for r in results]
    for i in range(len(results)):
        for j in range(i + 1, len(results)):
            common = [o for k, o in node_sets[i].items() if k in node_sets[j]]
            if common:
                ctx.fail(f"providers:{direction}-results-share-container", f"{what}: results of call {i + 1} and call {j + 1} with equal "
                         f"arguments hold the very same {type(common[0]).__name__} object {common[0]!r:.60}", case)
                return False
        own = [o for k, o in node_sets[i].items() if k in arg_nodes]
        if own:
            ctx.fail(f"providers:{direction}-result-aliases-argument", f"{what}: the result holds a {type(own[0]).__name__} that is an "
                     f"object of the argument", case)
            return False
    mutate_all(*results)
    if [canon(a) for a in args] != snaps:
        ctx.fail(f"providers:{direction}-result-aliases-argument", f"{what}: modifying the results changed the argument", case)
        return False
    again = call(args[-1])
    reference = fresh_call(args[-1])
    if canon(again) != canon(reference) or canon(again) != want:
        ctx.fail(f"providers:{direction}-result-retained-by-retort", f"{what}: after the earlier results were modified in place the same "
                 f"retort gives {again!r:.80}; a retort built anew gives {reference!r:.80}", case)
        return False
    return True


def run_case(ctx, case):
    """returns True when the case was evaluated without a failure"""
    from adaptix import Retort
    try:
        part, vseed, cfg = build(case)
        retort = Retort(recipe=part.recipe(), **cfg)
        fresh = Retort(recipe=part.recipe(), **cfg)
        values = [part.value(random.Random(vseed)) for _ in range(2)]
        if canon(values[0]) != canon(values[1]):
            return True
        dumper = retort.get_dumper(part.hint)
        fresh_dumper = fresh.get_dumper(part.hint)
        datum = fresh_dumper(part.value(random.Random(vseed)))
    except Exception as e:  # noqa: BLE001
        ctx.dist[f"providers:not-built:{type(e).__name__}"] += 1
        return True
    kind = f"providers:{case['leaf']}:{case['wrap']}"
    ctx.note_case(case, nontrivial=part.builds, kind=kind)
    expected = part.expect(values[0]) if part.expect else None
    ok = check_calls(ctx, case, "dump", dumper, fresh_dumper, values, expected, part.desc)
    if not ok:
        return False
    # ---- load: the dumped datum, an equal deep copy, and the hashable spelling (tuples for lists)
    try:
        loader = retort.get_loader(part.hint)
        fresh_loader = fresh.get_loader(part.hint)
        want = fresh_loader(copy.deepcopy(datum))
    except Exception as e:  # noqa: BLE001
        ctx.dist[f"providers:no-load:{type(e).__name__}"] += 1
        return True
    data = [datum, copy.deepcopy(datum)]
    ok = check_calls(ctx, case, "load", loader, fresh_loader, data, None, part.desc)
    if ok and canon(want) != canon(values[0]):
        ctx.dist["providers:load-is-not-inverse"] += 1     # not a C20 matter (C01/C02); counted only
    if not ok:
        return False
    tup = tuplify(datum)
    if canon(tup) != canon(datum):
        try:
            fresh_loader(tuplify(datum))
        except Exception:  # noqa: BLE001
            return True
        ctx.dist["providers:load-hashable-datum"] += 1
        return check_calls(ctx, case, "load", loader, fresh_loader, [tup, tuplify(copy.deepcopy(datum))], None, part.desc + " from tuples")
    return True


def suite(ctx, n):
    rng = ctx.rng
    leaves = [k for k, w in LEAF_WEIGHTS.items() for _ in range(w)]
    wraps = list(WRAPS)
    # every (leaf, wrap) pair at least once, then random pairs
    pairs = [(lf, w) for lf in LEAVES for w in wraps]
    rng.shuffle(pairs)
    while len(pairs) < n:
        pairs.append((rng.choice(leaves), rng.choice(wraps)))
    for lf, w in pairs[:max(n, len(LEAVES) * len(wraps))]:
        case = {"suite": "providers", "leaf": lf, "wrap": w, "seed": f"{ctx.seed}:{rng.randrange(10 ** 9)}"}
        run_case(ctx, case)


def replay(ctx, case) -> bool:
    before = len(ctx.failures)
    run_case(ctx, case)
    return len(ctx.failures) > before
