"""C19 — defaults and constants written as source text (`code_tools/utils.get_literal_expr`).

Three layers over generated Python values (nested containers of leaves with and without a literal form):

  correspondence `literal`   real `get_literal_expr(value)` parsed with `ast.parse(mode="eval")` into an expression tree
                             vs  `Adaptix.Gen.Literal.toExpr` of the harness's own description of the value
                             (theorems: `Props/C19Literal.lean`);
  direct oracles             the text evaluates (builtins only) to a value equal to the original, type for type; a text is
                             produced iff every leaf has a literal form (never a partly rendered container); the tree
                             applies nothing but set / frozenset / slice / range / bytearray and names only builtins that
                             are objects of the value;
  end to end                 the value as the default of a NamedTuple field and as a `link_constant` value: the generated
                             loader / converter delivers an equal value.

A case is JSON: {"suite": "literal", "v": <value recipe>}; a recipe is rebuilt into a fresh Python object by `build`.
"""

import ast
import builtins
import datetime
import decimal
import enum
import fractions
import math
from collections import namedtuple
from typing import Any, NamedTuple

from harness.core import Ctx


class Tone(enum.Enum):
    LOW = 1


class Lvl(enum.IntEnum):
    ONE = 1


class MyInt(int):
    pass


class MyStr(str):
    pass


class MyList(list):
    pass


class MyTuple(tuple):
    pass


class MyDict(dict):
    pass


class MyFloat(float):
    pass


Pt = namedtuple("Pt", "x y")

# opaque leaves: objects that are not a literal although many of them compare equal to one
OPAQUE = {
    "decimal": lambda: decimal.Decimal("10.5"), "decimal-one": lambda: decimal.Decimal(1), "date": lambda: datetime.date(2020, 1, 2),
    "enum": lambda: Tone.LOW, "intenum": lambda: Lvl.ONE, "object": object, "myint": lambda: MyInt(1), "mystr": lambda: MyStr("a"),
    "mylist": lambda: MyList([1]), "mytuple": lambda: MyTuple((1,)), "mydict": lambda: MyDict(a=1), "myfloat": lambda: MyFloat(1.5),
    "namedtuple": lambda: Pt(1, 2), "complex": lambda: 1 + 2j, "fraction": lambda: fractions.Fraction(1, 2),
    "lambda": lambda: (lambda: 0), "timedelta": lambda: datetime.timedelta(0),
}
HASHABLE_OPAQUE = [k for k in OPAQUE if k not in ("mylist", "mydict")]
# builtin objects with exactly one builtin name (aliases such as IOError / OSError are left to the evaluation oracle)
BUILTIN_NAMES = ["None", "True", "False", "Ellipsis", "NotImplemented", "int", "str", "list", "dict", "len", "ValueError", "object",
                 "sorted", "print", "type", "range", "frozenset"]
BUILTIN_ID = {id(getattr(builtins, n)): n for n in BUILTIN_NAMES}
STRS = ["", "a", "it's", 'say "hi"', "a\nb", "\\", "{k}", "é", "\ud800", "\x00", "'''", "None", "__import__('os')"]
FLOATS = ["0.0", "-0.0", "1.5", "-2.25", "1e300", "1e-07", "123456789.125"]


def cps(s):
    return [ord(c) for c in s]


# ---------------------------------------------------------------------------
# recipes
# ---------------------------------------------------------------------------

def gen_leaf(rng, hashable=False):
    r = rng.random()
    if r < 0.18:
        return {"k": "int", "v": rng.choice([0, 1, -1, -7, 255, 10 ** 20, -(10 ** 18)])}
    if r < 0.34:
        return {"k": "str", "s": cps(rng.choice(STRS))}
    if r < 0.42:
        return {"k": "bytes", "b": list(rng.choice([b"", b"ab", b"\x00\xff", b"'", b'"\\']))}
    if r < 0.52:
        return {"k": "float", "r": cps(rng.choice(FLOATS))}
    if r < 0.58:
        return {"k": "nonfinite", "which": rng.choice(["inf", "-inf", "nan"])}
    if r < 0.74:
        return {"k": "builtin", "n": cps(rng.choice(BUILTIN_NAMES))}
    if r < 0.78 and not hashable:
        return {"k": "bytearray", "b": list(rng.choice([b"", b"ab", b"\x00"]))}
    if r < 0.82:
        a, b, c = (rng.choice([0, 1, 5, -3]) for _ in range(3))
        return {"k": "range", "a": a, "b": b, "c": c or 1}
    names = HASHABLE_OPAQUE if hashable else list(OPAQUE)
    return {"k": "opaque", "name": rng.choice(names)}


def gen_value(rng, depth, hashable=False, p_clean=0.0):
    """a value recipe; `p_clean`: probability that a leaf is forced to be renderable (otherwise most deep values have
    an opaque leaf somewhere and the interesting, fully renderable containers would be rare)"""
    def leaf():
        lf = gen_leaf(rng, hashable)
        while rng.random() < p_clean and lf["k"] in ("opaque", "nonfinite"):
            lf = gen_leaf(rng, hashable)
        return lf
    if depth <= 0 or rng.random() < 0.3:
        return leaf()
    n = rng.choice([0, 1, 1, 2, 3])
    sub = lambda h=hashable: gen_value(rng, depth - 1, h, p_clean)  # noqa: E731
    r = rng.random()
    if r < 0.2 and not hashable:
        return {"k": "list", "xs": [sub() for _ in range(n)]}
    if r < 0.45:
        return {"k": "tuple", "xs": [sub() for _ in range(n)]}
    if r < 0.55 and not hashable:
        return {"k": "set", "xs": [sub(True) for _ in range(n)]}
    if r < 0.65:
        return {"k": "frozenset", "xs": [sub(True) for _ in range(n)]}
    if r < 0.72:
        return {"k": "slice", "a": sub(), "b": sub(), "c": sub()} if not hashable else leaf()
    if r < 0.95 and not hashable:
        return {"k": "dict", "ks": [sub(True) for _ in range(n)], "vs": [sub() for _ in range(n)]}
    return leaf()


def build(rc):
    k = rc["k"]
    if k == "int":
        return rc["v"]
    if k == "str":
        return "".join(map(chr, rc["s"]))
    if k == "bytes":
        return bytes(rc["b"])
    if k == "float":
        return float("".join(map(chr, rc["r"])))
    if k == "nonfinite":
        return float(rc["which"])
    if k == "builtin":
        return getattr(builtins, "".join(map(chr, rc["n"])))
    if k == "bytearray":
        return bytearray(rc["b"])
    if k == "range":
        return range(rc["a"], rc["b"], rc["c"])
    if k == "opaque":
        return OPAQUE[rc["name"]]()
    if k == "list":
        return [build(x) for x in rc["xs"]]
    if k == "tuple":
        return tuple(build(x) for x in rc["xs"])
    if k == "set":
        return {build(x) for x in rc["xs"]}
    if k == "frozenset":
        return frozenset(build(x) for x in rc["xs"])
    if k == "slice":
        return slice(build(rc["a"]), build(rc["b"]), build(rc["c"]))
    if k == "dict":
        return {build(a): build(b) for a, b in zip(rc["ks"], rc["vs"])}
    raise KeyError(k)


# ---------------------------------------------------------------------------
# the harness's own description of a Python object (what the model is asked about)
# ---------------------------------------------------------------------------

def describe(o, opaque_ids):
    t = type(o)
    if id(o) in BUILTIN_ID and getattr(builtins, BUILTIN_ID[id(o)]) is o:
        return {"k": "builtin", "n": cps(BUILTIN_ID[id(o)])}
    if t is int:
        return {"k": "int", "v": o}
    if t is str:
        return {"k": "str", "s": cps(o)}
    if t is bytes:
        return {"k": "bytes", "b": list(o)}
    if t is bytearray:
        return {"k": "bytearray", "b": list(o)}
    if t is float:
        return {"k": "float", "r": cps(repr(o))} if math.isfinite(o) else {"k": "nonfinite"}
    if t is list or t is tuple:
        return {"k": t.__name__, "xs": [describe(x, opaque_ids) for x in o]}
    if t is set or t is frozenset:
        try:
            order = sorted(o)
        except Exception:  # noqa: BLE001  (elements of mixed types: iteration order)
            order = list(o)
        return {"k": t.__name__, "xs": [describe(x, opaque_ids) for x in order]}
    if t is slice:
        return {"k": "slice", "a": describe(o.start, opaque_ids), "b": describe(o.stop, opaque_ids), "c": describe(o.step, opaque_ids)}
    if t is range:
        return {"k": "range", "a": o.start, "b": o.stop, "c": o.step}
    if t is dict:
        return {"k": "dict", "ks": [describe(x, opaque_ids) for x in o], "vs": [describe(x, opaque_ids) for x in o.values()]}
    return {"k": "opaque", "t": opaque_ids.setdefault(id(o), len(opaque_ids))}


def all_leaves_renderable(d):
    k = d["k"]
    if k in ("opaque", "nonfinite"):
        return False
    if k in ("list", "tuple", "set", "frozenset"):
        return all(all_leaves_renderable(x) for x in d["xs"])
    if k == "slice":
        return all(all_leaves_renderable(d[x]) for x in "abc")
    if k == "dict":
        return all(all_leaves_renderable(x) for x in d["ks"] + d["vs"])
    return True


# ---------------------------------------------------------------------------
# the real text as an expression tree
# ---------------------------------------------------------------------------

def const_tree(v):
    if v is None or v is True or v is False:
        return {"e": "name", "n": cps(repr(v))}
    if v is Ellipsis:
        return {"e": "other", "dump": "Constant(Ellipsis)"}     # the renderer writes the NAME Ellipsis, never `...`
    if type(v) is int:
        return {"e": "const", "l": {"k": "int", "v": v}}
    if type(v) is str:
        return {"e": "const", "l": {"k": "str", "s": cps(v)}}
    if type(v) is bytes:
        return {"e": "const", "l": {"k": "bytes", "b": list(v)}}
    if type(v) is float:
        return {"e": "const", "l": {"k": "float", "r": cps(repr(v))}}
    return {"e": "other", "dump": f"Constant({type(v).__name__})"}


def tree_of(node):
    if isinstance(node, ast.Constant):
        return const_tree(node.value)
    if isinstance(node, ast.UnaryOp) and isinstance(node.op, ast.USub) and isinstance(node.operand, ast.Constant) \
            and type(node.operand.value) in (int, float):
        return const_tree(-node.operand.value)
    if isinstance(node, ast.Name):
        return {"e": "name", "n": cps(node.id)}
    if isinstance(node, (ast.List, ast.Tuple, ast.Set)):
        return {"e": type(node).__name__.lower(), "es": [tree_of(x) for x in node.elts]}
    if isinstance(node, ast.Dict) and all(k is not None for k in node.keys):
        return {"e": "dict", "ks": [tree_of(x) for x in node.keys], "vs": [tree_of(x) for x in node.values]}
    if isinstance(node, ast.Call) and isinstance(node.func, ast.Name) and not node.keywords:
        return {"e": "call", "f": node.func.id, "args": [tree_of(x) for x in node.args]}
    return {"e": "other", "dump": ast.dump(node)[:200]}


def tree_names(t, acc):
    if t["e"] == "name":
        acc.append("".join(map(chr, t["n"])))
    for key in ("es", "ks", "vs", "args"):
        for x in t.get(key, []):
            tree_names(x, acc)
    return acc


def tree_calls(t, acc):
    if t["e"] == "call":
        acc.append(t["f"])
    if t["e"] == "other":
        acc.append("<other>")
    for key in ("es", "ks", "vs", "args"):
        for x in t.get(key, []):
            tree_calls(x, acc)
    return acc


def value_builtins(d, acc):
    if d["k"] == "builtin":
        acc.append("".join(map(chr, d["n"])))
    for key in ("xs", "ks", "vs"):
        for x in d.get(key, []):
            value_builtins(x, acc)
    if d["k"] == "slice":
        for x in "abc":
            value_builtins(d[x], acc)
    return acc


def same(a, b):
    """equal, type for type, element for element (identity for builtin objects and singletons)"""
    if type(a) is not type(b):
        return False
    if isinstance(a, (list, tuple)):
        return len(a) == len(b) and all(same(x, y) for x, y in zip(a, b))
    if isinstance(a, (set, frozenset)):
        return len(a) == len(b) and sorted(map(typed_repr, a)) == sorted(map(typed_repr, b))
    if isinstance(a, dict):
        return len(a) == len(b) and all(same(k1, k2) and same(v1, v2) for (k1, v1), (k2, v2) in zip(a.items(), b.items()))
    if isinstance(a, slice):
        return same(a.start, b.start) and same(a.stop, b.stop) and same(a.step, b.step)
    if isinstance(a, float):
        return repr(a) == repr(b)
    if id(a) in BUILTIN_ID or callable(a) or a is None:
        return a is b
    return a == b


def typed_repr(v):
    if isinstance(v, (tuple, frozenset)):
        return f"{type(v).__name__}({sorted(map(typed_repr, v)) if isinstance(v, frozenset) else list(map(typed_repr, v))})"
    return f"{type(v).__name__}:{v!r}"


# ---------------------------------------------------------------------------
# the suite
# ---------------------------------------------------------------------------

CTORS = {"set", "frozenset", "slice", "range", "bytearray"}


def real_side(ctx: Ctx, case):
    """-> (description, real tree or None); runs the direct oracles"""
    from adaptix._internal.code_tools.utils import get_literal_expr
    value = build(case["v"])
    desc = describe(value, {})
    try:
        text = get_literal_expr(value)
    except Exception as e:  # noqa: BLE001
        ctx.fail(f"literal:raises:{type(e).__name__}", f"get_literal_expr({value!r}) raised {type(e).__name__}: {e}", case)
        return desc, {"raises": type(e).__name__}
    expected_text = all_leaves_renderable(desc)
    if (text is not None) != expected_text:
        ctx.fail("literal:" + ("partly-rendered" if text is not None else "refused-renderable"),
                 f"get_literal_expr({value!r}) = {text!r}: " +
                 ("the value has a leaf without a literal form, so it must be captured as a constant, never written as text"
                  if text is not None else "every leaf has a literal form"), case)
    if text is None:
        return desc, None
    try:
        tree = tree_of(ast.parse(text, mode="eval").body)
    except SyntaxError as e:
        ctx.fail("literal:not-an-expression", f"get_literal_expr({value!r}) = {text!r} is not an expression: {e}", case)
        return desc, {"raises": "SyntaxError"}
    try:
        back = eval(text, {"__builtins__": builtins})  # noqa: S307  (the property is about exactly this evaluation)
    except Exception as e:  # noqa: BLE001
        ctx.fail("literal:evaluation-raises", f"the text {text!r} written for {value!r} raises {type(e).__name__} when evaluated", case)
        return desc, tree
    if not same(back, value):
        ctx.fail("literal:denotes-another-value", f"the text {text!r} written for {value!r} evaluates to {back!r}", case)
    foreign = [f for f in tree_calls(tree, []) if f not in CTORS]
    if foreign:
        ctx.fail("literal:applies-foreign-callable", f"the text {text!r} written for {value!r} applies {foreign}", case)
    names, own = tree_names(tree, []), value_builtins(desc, [])
    if sorted(names) != sorted(own):
        ctx.fail("literal:foreign-name", f"the text {text!r} written for {value!r} mentions the names {names}, the value contains "
                 f"the builtins {own}", case)
    return desc, tree


def end_to_end(ctx: Ctx, case):
    """the value as a NamedTuple default and as a `link_constant` value"""
    from adaptix import P, Retort
    from adaptix.conversion import get_converter, link_constant
    value = build(case["v"])

    class Holder(NamedTuple):
        a: int = 0
        d: Any = value
    try:
        got = Retort().load({}, Holder).d
    except Exception as e:  # noqa: BLE001
        ctx.fail("literal:default:raises", f"loading a NamedTuple whose default is {value!r} raised {type(e).__name__}: {e}"[:400], case)
        return
    if not (got is value or same(got, value)):
        ctx.fail("literal:default:another-value", f"a NamedTuple field with default {value!r} is loaded as {got!r} when omitted", case)

    class Src(NamedTuple):
        a: int

    class Dst(NamedTuple):
        a: int
        d: Any
    try:
        got = get_converter(Src, Dst, recipe=[link_constant(P[Dst].d, value=value)])(Src(1)).d
    except Exception as e:  # noqa: BLE001
        ctx.fail("literal:constant:raises", f"a converter with link_constant(value={value!r}) raised {type(e).__name__}: {e}"[:400], case)
        return
    if not (got is value or same(got, value)):
        ctx.fail("literal:constant:another-value", f"link_constant(value={value!r}) delivers {got!r}", case)


def covering_cases():
    """every leaf kind alone and inside every container kind; the corner shapes of the renderer"""
    leaves = [{"k": "int", "v": -7}, {"k": "str", "s": cps("it's\n")}, {"k": "bytes", "b": [0, 39]}, {"k": "float", "r": cps("-2.25")},
              {"k": "nonfinite", "which": "inf"}, {"k": "nonfinite", "which": "nan"}, {"k": "builtin", "n": cps("None")},
              {"k": "builtin", "n": cps("True")}, {"k": "builtin", "n": cps("Ellipsis")}, {"k": "builtin", "n": cps("int")},
              {"k": "builtin", "n": cps("len")}, {"k": "range", "a": 0, "b": 5, "c": 2}] + \
             [{"k": "opaque", "name": n} for n in OPAQUE]
    out = []
    for lf in leaves:
        hashable = not (lf["k"] == "opaque" and lf["name"] in ("mylist", "mydict"))
        out.append(lf)
        out.append({"k": "list", "xs": [lf]})
        out.append({"k": "list", "xs": [{"k": "int", "v": 1}, lf]})
        out.append({"k": "tuple", "xs": [lf]})
        out.append({"k": "tuple", "xs": [lf, {"k": "int", "v": 1}]})
        out.append({"k": "dict", "ks": [{"k": "str", "s": cps("max")}], "vs": [lf]})
        out.append({"k": "dict", "ks": [{"k": "str", "s": cps("a")}, {"k": "str", "s": cps("b")}], "vs": [{"k": "int", "v": 1}, lf]})
        out.append({"k": "slice", "a": lf, "b": {"k": "builtin", "n": cps("None")}, "c": {"k": "int", "v": 2}})
        out.append({"k": "list", "xs": [{"k": "dict", "ks": [{"k": "int", "v": 0}], "vs": [{"k": "tuple", "xs": [lf]}]}]})
        if hashable:
            out.append({"k": "set", "xs": [lf]})
            out.append({"k": "frozenset", "xs": [lf, {"k": "int", "v": 3}]})
            out.append({"k": "dict", "ks": [lf], "vs": [{"k": "int", "v": 1}]})
    out += [{"k": "list", "xs": []}, {"k": "tuple", "xs": []}, {"k": "set", "xs": []}, {"k": "frozenset", "xs": []}, {"k": "dict", "ks": [], "vs": []},
            {"k": "bytearray", "b": [97]}, {"k": "tuple", "xs": [{"k": "tuple", "xs": [{"k": "tuple", "xs": []}]}]},
            {"k": "set", "xs": [{"k": "int", "v": 3}, {"k": "int", "v": 1}, {"k": "int", "v": 2}]},
            {"k": "set", "xs": [{"k": "int", "v": 3}, {"k": "str", "s": cps("a")}]}]
    return [{"suite": "literal", "v": v} for v in out]


def suite_literals(ctx: Ctx, drv, n_random: int):
    cases = covering_cases()
    for _ in range(n_random):
        cases.append({"suite": "literal", "v": gen_value(ctx.rng, ctx.rng.choice([1, 2, 2, 3]), p_clean=ctx.rng.choice([0.0, 0.7, 0.95]))})
    rows = [real_side(ctx, c) for c in cases]
    replies = drv.batch([{"op": "literal", "v": d} for d, _ in rows]) if drv else [None] * len(rows)
    n = dis = 0
    for case, (desc, tree), rep in zip(cases, rows, replies):
        ctx.note_case(case, nontrivial=case["v"]["k"] in ("list", "tuple", "set", "frozenset", "slice", "dict"), kind="literal")
        ctx.dist["literal:" + ("text" if tree is not None else "captured-constant")] += 1
        ctx.dist[f"literal:top-{case['v']['k']}"] += 1
        if rep is None:
            continue
        n += 1
        model = rep.get("ok")
        if model is None or model.get("expr") != tree or model.get("renderable") != all_leaves_renderable(desc):
            dis += 1
            ctx.disagree("literal", {"case": case, "value": repr(build(case["v"]))[:200]}, tree, rep)
    if drv:
        ctx.suite("literal", n, dis)
    # end to end on a sample (every covering case, a share of the random ones): a loader and a converter per value
    for i, case in enumerate(cases):
        if i < len(cases) - n_random or i % 4 == 0:
            end_to_end(ctx, case)
            ctx.dist["literal:end-to-end"] += 1


def replay(ctx: Ctx, case) -> bool:
    before = len(ctx.failures)
    real_side(ctx, case)
    end_to_end(ctx, case)
    return len(ctx.failures) > before
