"""C17 — container-valued defaults across model kinds and spellings (real code only).

The twin machinery of c17.py declares defaults as scalars or as the four factories the Lean declaration model knows.
A default may also be a *container value*: `limits: dict[str, Decimal] = {"max": Decimal("10.5")}` is legal as a plain
value for NamedTuple, attrs and pydantic (and, when hashable, for a dataclass), while a dataclass spells an unhashable
one `default_factory=...`; attrs and pydantic have a factory spelling too.  All of them declare the SAME logical model
(name: str; d: T = V), so by C17 they load the same input to field-wise equal objects and dump field-wise equal
objects to equal data, with and without `omit_default`.

adaptix turns a default *value* into source text of the generated function where it can (`get_literal_expr`) and into
a captured constant where it cannot; a factory is always called.  The value spellings therefore run through code the
factory spellings never reach.  The reference of every comparison is the dataclass with `default_factory`.

A case is JSON: {"suite": "value-defaults", "ty": <type spec>, "v": <encoded value>, "other": <encoded value>}.
"""

import copy
import dataclasses
import enum
import math
from datetime import date
from decimal import Decimal
from typing import NamedTuple, Optional

from harness.core import Ctx


class Tone(enum.Enum):
    LOW = 1
    HIGH = 2


LEAVES = ["int", "float", "str", "bool", "decimal", "date", "enum", "optint", "bytes"]
SHAPES = ["list", "dict", "tuple", "set", "frozenset", "list-dict", "dict-list", "dict-tuple"]


def leaf_type(leaf):
    return {"int": int, "float": float, "str": str, "bool": bool, "decimal": Decimal, "date": date, "enum": Tone,
            "optint": Optional[int], "bytes": bytes}[leaf]


def py_type(ty):
    e = leaf_type(ty["leaf"])
    return {"list": list[e], "dict": dict[str, e], "tuple": tuple[e, ...], "set": set[e], "frozenset": frozenset[e],
            "list-dict": list[dict[str, e]], "dict-list": dict[str, list[e]], "dict-tuple": dict[str, tuple[e, ...]]}[ty["shape"]]


def gen_leaf(rng, leaf):
    """encoded leaf value (JSON)"""
    if leaf == "int":
        return rng.choice([0, 1, -7, 10 ** 20])
    if leaf == "float":
        return {"f": rng.choice(["0.0", "1.5", "-2.25", "inf", "-inf", "1e300"])}
    if leaf == "str":
        return rng.choice(["", "x", "it's", "a\nb", "{k}"])
    if leaf == "bool":
        return rng.choice([True, False])
    if leaf == "decimal":
        return {"dec": rng.choice(["10.5", "0", "-1", "1E+3"])}
    if leaf == "date":
        return {"date": rng.choice(["2020-01-02", "1999-12-31"])}
    if leaf == "enum":
        return {"enum": rng.choice(["LOW", "HIGH"])}
    if leaf == "optint":
        return rng.choice([None, 3, 0])
    return {"bytes": rng.choice(["", "ab", "00ff"])}


def dec_leaf(j):
    if isinstance(j, dict):
        if "f" in j:
            return float(j["f"])
        if "dec" in j:
            return Decimal(j["dec"])
        if "date" in j:
            return date.fromisoformat(j["date"])
        if "enum" in j:
            return Tone[j["enum"]]
        return bytes.fromhex(j["bytes"])
    return j


def gen_value(rng, ty, n=None):
    """encoded container value: lists of encoded leaves / [key, value] pairs"""
    leaf, shape = ty["leaf"], ty["shape"]
    n = rng.choice([0, 1, 1, 2, 3]) if n is None else n
    leaves = lambda k: [gen_leaf(rng, leaf) for _ in range(k)]  # noqa: E731
    keys = rng.sample(["max", "min", "k", "it's", ""], n)
    if shape in ("list", "tuple", "set", "frozenset"):
        return leaves(n)
    if shape == "dict":
        return [[k, v] for k, v in zip(keys, leaves(n))]
    if shape == "list-dict":
        return [[[k, gen_leaf(rng, leaf)] for k in rng.sample(["a", "b"], rng.choice([0, 1, 2]))] for _ in range(n)]
    return [[k, leaves(rng.choice([0, 1, 2]))] for k in keys]      # dict-list, dict-tuple


def dec_value(ty, j):
    shape = ty["shape"]
    if shape == "list":
        return [dec_leaf(x) for x in j]
    if shape == "tuple":
        return tuple(dec_leaf(x) for x in j)
    if shape == "set":
        return {dec_leaf(x) for x in j}
    if shape == "frozenset":
        return frozenset(dec_leaf(x) for x in j)
    if shape == "dict":
        return {k: dec_leaf(v) for k, v in j}
    if shape == "list-dict":
        return [{k: dec_leaf(v) for k, v in d} for d in j]
    if shape == "dict-list":
        return {k: [dec_leaf(x) for x in v] for k, v in j}
    return {k: tuple(dec_leaf(x) for x in v) for k, v in j}


def canon(v):
    """a total, typed, order-insensitive-for-sets rendering of a value or of dumped data"""
    if isinstance(v, dict):
        return ["dict", [[canon(k), canon(x)] for k, x in v.items()]]
    if isinstance(v, (set, frozenset)):
        return [type(v).__name__, sorted((canon(x) for x in v), key=repr)]
    if isinstance(v, (list, tuple)):
        return [type(v).__name__, [canon(x) for x in v]]
    if isinstance(v, float) and math.isnan(v):
        return ["float", "nan"]
    return [type(v).__name__, repr(v)]


def hashable(v):
    try:
        hash(v)
    except TypeError:
        return False
    return True


def build_kinds(tp, value):
    """{spelling: class} of the logical model (name: str; d: tp = value)"""
    import attrs
    import pydantic
    mk = lambda: copy.deepcopy(value)  # noqa: E731
    out = {"dataclass-factory": dataclasses.make_dataclass("DCf", [("name", str), ("d", tp, dataclasses.field(default_factory=mk))])}
    if hashable(value):
        out["dataclass-value"] = dataclasses.make_dataclass("DCv", [("name", str), ("d", tp, dataclasses.field(default=value))])

    class NT(NamedTuple):
        name: str
        d: tp = value
    out["namedtuple-value"] = NT
    out["attrs-value"] = attrs.make_class("ATv", {"name": attrs.field(type=str), "d": attrs.field(type=tp, default=value)})
    out["attrs-factory"] = attrs.make_class("ATf", {"name": attrs.field(type=str), "d": attrs.field(type=tp, factory=mk)})
    out["pydantic-value"] = pydantic.create_model("PDv", name=(str, ...), d=(tp, value))
    out["pydantic-factory"] = pydantic.create_model("PDf", name=(str, ...), d=(tp, pydantic.Field(default_factory=mk)))
    return out


def outcome(fn):
    try:
        return ["ok", fn()]
    except Exception as e:  # noqa: BLE001  the kind of failure is part of the outcome
        return ["err", type(e).__name__]


def sort_sets(ty, dumped):
    """a dumped set has the iteration order of the set object: compare it as a multiset"""
    if ty["shape"] in ("set", "frozenset") and isinstance(dumped, dict) and isinstance(dumped.get("d"), (list, tuple)):
        return {**dumped, "d": sorted(dumped["d"], key=repr)}
    return dumped


def observations(ty, value, other, cls):
    """what a kind does with the logical model: a list of (label, canonical outcome)"""
    from adaptix import Retort, name_mapping
    view = lambda o: canon({"name": o.name, "d": o.d})  # noqa: E731
    obs = []
    plain, omit = Retort(), Retort(recipe=[name_mapping(cls, omit_default=True)])
    dumped_other = outcome(lambda: Retort().dump(other, py_type(ty)))
    obs.append(("load with the field omitted", outcome(lambda: view(plain.load({"name": "x"}, cls)))))
    if dumped_other[0] == "ok":
        obs.append(("load with the field given", outcome(lambda: view(plain.load({"name": "x", "d": dumped_other[1]}, cls)))))
    for label, retort in (("dump", plain), ("dump under omit_default", omit)):
        obs.append((f"{label} of an object carrying the default",
                    outcome(lambda: canon(sort_sets(ty, retort.dump(cls(name="x")))))))       # noqa: B023
        obs.append((f"{label} of an object with an equal copy of the default",
                    outcome(lambda: canon(sort_sets(ty, retort.dump(cls(name="x", d=copy.deepcopy(value))))))))  # noqa: B023
        obs.append((f"{label} of an object with another value",
                    outcome(lambda: canon(sort_sets(ty, retort.dump(cls(name="x", d=copy.deepcopy(other))))))))  # noqa: B023
    obs.append(("load(dump(default-carrying object))",
                outcome(lambda: view(plain.load(plain.dump(cls(name="x")), cls)))))
    return obs


def check_case(ctx: Ctx, case, count=True) -> bool:
    ty = case["ty"]
    tp, value, other = py_type(ty), dec_value(ty, case["v"]), dec_value(ty, case["other"])
    kinds = build_kinds(tp, value)
    ref = observations(ty, value, other, kinds["dataclass-factory"])
    failed = False
    for spelling, cls in kinds.items():
        if spelling == "dataclass-factory":
            continue
        got = observations(ty, value, other, cls)
        for (label, a), (_, b) in zip(ref, got):
            if a != b:
                ctx.fail(f"value-default:{spelling}:{label.split(' ')[0]}",
                         f"logical model (name: str; d: {tp} = {value!r}): {label}: the {spelling} declaration gives {b}, "
                         f"the dataclass with default_factory gives {a}", case)
                failed = True
                break
        if failed:
            break
    if count:
        from adaptix._internal.code_tools.utils import get_literal_expr
        renderable = get_literal_expr(value) is not None
        ctx.note_case(case, nontrivial=len(case["v"]) > 0, kind="value-defaults")
        ctx.dist[f"value-defaults:shape-{ty['shape']}"] += 1
        ctx.dist[f"value-defaults:leaf-{ty['leaf']}"] += 1
        ctx.dist["value-defaults:default-" + ("rendered-as-literal" if renderable else "captured-constant")] += 1
        ctx.dist["value-defaults:spellings-compared"] += len(kinds) - 1
    return failed


def gen_case(rng, i):
    leaf = LEAVES[i % len(LEAVES)]
    shape = SHAPES[(i // len(LEAVES) + i) % len(SHAPES)]
    if shape in ("set", "frozenset") and leaf in ("optint",):
        shape = "list"
    ty = {"leaf": leaf, "shape": shape}
    return {"suite": "value-defaults", "ty": ty, "v": gen_value(rng, ty, n=rng.choice([1, 1, 2, 3, 0])), "other": gen_value(rng, ty)}


def value_default_suite(ctx: Ctx, n: int, stop_on_failure: bool = False):
    import warnings
    with warnings.catch_warnings():
        warnings.simplefilter("ignore")
        for i in range(n):
            if check_case(ctx, gen_case(ctx.rng, i)) and stop_on_failure:
                return


def replay(ctx: Ctx, case) -> bool:
    import warnings
    with warnings.catch_warnings():
        warnings.simplefilter("ignore")
        return check_case(ctx, case, count=False)
