"""C03 — name_style: the concrete conversion (Props/C03NameStyle.lean, Layout/NameStyle.lean).

Correspondence `name-style`: the real `convert_snake_style` of the working tree vs the model `convert`, for all 16 styles:
exhaustive over the names of length <= 5 over a 5-character alphabet (lower / upper letter, digit, underscore, a second
lower letter), plus generated longer names, plus names that must be refused.  Names with non-ASCII word characters are outside
the model (counted, oracle only).
Direct oracle (real code only, the property's documented reading): mapping the separator back to '_' and lower-casing the
key gives the lower-cased field name (separator styles); a separator-less style differs from the name only by case and inner
underscores; leading / trailing underscores are kept; under a separator style distinct lower-case names keep distinct keys;
end to end: a dataclass dumped under name_mapping(name_style=s) has exactly the converted keys and loads back.
"""
import itertools

from harness.core import Ctx

ALPHABET = "aB1_c"


def styles():
    from adaptix import NameStyle
    return list(NameStyle)


def real_convert(name, style):
    from adaptix._internal.name_style import convert_snake_style
    try:
        return {"r": "ok", "s": [ord(c) for c in convert_snake_style(name, style)]}
    except ValueError as e:
        return {"r": "notSnake" if "not follows snake style" in str(e) else "noMatch"}
    except BaseException as e:  # noqa: BLE001
        return {"r": "escape", "exc": type(e).__name__}


def sep_of(style) -> str:
    v = style.value
    for s in "_-.":
        if s in v:
            return s
    return ""


def rule_violation(name: str, style, out: dict):
    """the documented reading evaluated on one real outcome (ASCII and non-ASCII names alike); None = fine"""
    is_snake = name != "" and all(c == "_" or c.isalnum() for c in name)
    if not is_snake or set(name) <= {"_"}:
        return None if out["r"] in ("notSnake", "noMatch") else "a name that is not snake case / only underscores was converted"
    if out["r"] != "ok":
        return "a snake-case name was refused"
    key = "".join(map(chr, out["s"]))
    sep = sep_of(style)
    lead = len(name) - len(name.lstrip("_"))
    trail = len(name) - len(name.rstrip("_"))
    if key[:lead] != "_" * lead or (trail and key[-trail:] != "_" * trail):
        return "leading / trailing underscores not kept"
    if any(ord(c) >= 128 for c in name):
        return None       # Unicode case mappings change lengths ('ß'.upper() == 'SS'): only acceptance and the outer underscores are judged
    core, kcore = name[lead:len(name) - trail], key[lead:len(key) - trail]
    if sep:
        back = kcore.replace(sep, "_") if sep != "_" else kcore
        if back.lower() != core.lower():
            return f"key {key!r} differs from the name by more than case and separator"
    elif kcore.lower() != core.replace("_", "").lower():
        return f"key {key!r} differs from the name by more than case and dropped underscores"
    return None


def gen_name(rng) -> str:
    n = rng.choice([1, 2, 3, 6, 7, 8, 10, 14])
    pool = rng.choice(["ab_", "abC_1", "aB1_c", "xyz__0", "ABC_", "a_", "_", "abcdefghijklmnopqrstuvwxyz0123456789_ABCXYZ"])
    return "".join(rng.choice(pool) for _ in range(n))


BAD = ["", "-", "a-b", "a b", "a.b", " ", "a\n", "é_a", "a_é", "ß", "ǆ_x", "áb", "١٢", "__", "_", "____"]


def suite(ctx: Ctx, drv, n_random: int, exhaustive_len: int = 5):
    sts = styles()
    names = ["".join(t) for k in range(1, exhaustive_len + 1) for t in itertools.product(ALPHABET, repeat=k)]
    names += [gen_name(ctx.rng) for _ in range(n_random)] + BAD
    reqs, real, meta = [], [], []
    for name in names:
        ascii_word = all(ord(c) < 128 for c in name)
        for st in sts:
            out = real_convert(name, st)
            bad = rule_violation(name, st, out)
            if bad:
                ctx.fail("name-style-rule", f"convert_snake_style({name!r}, {st.name}) = {out}: {bad}",
                         {"suite": "name-style", "name": name, "style": st.name})
            if ascii_word:
                reqs.append({"op": "ns_convert", "name": [ord(c) for c in name], "style": st.value})
                real.append(out)
                meta.append((name, st.name))
            else:
                ctx.dist["name-style:outside-model(non-ascii)"] += 1
        ctx.note_case({"suite": "name-style", "name": name}, nontrivial="_" in name.strip("_"), kind="name-style")
    # distinct lower-case names keep distinct keys under separator styles (all pairs among the short names)
    short = [n for n in names if n == n.lower() and 0 < len(n) <= 4 and all(ord(c) < 128 for c in n)]
    for st in sts:
        if not sep_of(st):
            continue
        seen = {}
        for n in short:
            out = real_convert(n, st)
            if out["r"] != "ok":
                continue
            k = tuple(out["s"])
            if k in seen and seen[k] != n:
                ctx.fail("name-style-collision", f"{seen[k]!r} and {n!r} get the same key under {st.name}",
                         {"suite": "name-style", "name": n, "other": seen[k], "style": st.name})
            seen[k] = n
    if drv:
        dis = 0
        for (name, st), r, rep in zip(meta, real, drv.batch(reqs)):
            if rep.get("ok") != r:
                dis += 1
                ctx.disagree("name-style", {"name": name, "style": st}, r, rep)
        ctx.suite("name-style", len(reqs), dis)
    end_to_end(ctx, 12)
    underscore_fields(ctx)


def end_to_end(ctx: Ctx, n: int):
    """through the public API: the dumped keys are the converted names; the dump loads back"""
    from dataclasses import make_dataclass
    from adaptix import Retort, name_mapping
    from adaptix._internal.name_style import convert_snake_style
    for _ in range(n):
        fields = sorted({f for f in (gen_name(ctx.rng).lower().strip("_") for _ in range(4))
                         if f and f.isidentifier() and not f[0].isdigit() and all(ord(c) < 128 for c in f)})
        if not fields:
            continue
        import keyword
        fields = [f for f in fields if not keyword.iskeyword(f)]
        if not fields:
            continue
        cls = make_dataclass("NS", [(f, int) for f in fields])
        obj = cls(*range(len(fields)))
        for st in styles():
            keys = [convert_snake_style(f, st) for f in fields]
            if len(set(keys)) != len(keys):
                continue
            try:
                r = Retort(recipe=[name_mapping(cls, name_style=st)])
                d = r.dump(obj)
                back = r.load(d, cls)
                ok = list(d.keys()) == keys and back == obj
            except Exception as e:  # noqa: BLE001
                ok, d = False, repr(e)
            ctx.dist["name-style:end-to-end"] += 1
            if not ok:
                ctx.fail("name-style-e2e", f"fields {fields} under {st.name}: dumped {d!r}, expected keys {keys}",
                         {"suite": "name-style", "fields": fields, "style": st.name})


def underscore_fields(ctx: Ctx):
    """C19 / C03: a legal field name made of underscores only (or private, or with a trailing underscore) must not make
    generation fail under a name style where it succeeds without one; dump and load then behave as without the style for
    these fields (they have no words to restyle)"""
    from dataclasses import make_dataclass
    from adaptix import Retort, name_mapping

    def outcome(cls, st):
        try:
            r = Retort(recipe=[name_mapping(cls, name_style=st)])
            r.get_loader(cls)
            return ("ok", sorted(r.dump(cls(1, 2))))
        except Exception as e:  # noqa: BLE001
            return ("raises", type(e).__name__)

    for fname in ("_", "__", "___", "_a", "a_", "a__"):
        cls = make_dataclass("US", [(fname, int), ("pub", int)])
        plain = outcome(cls, None)
        for st in styles():
            got = outcome(cls, st)
            ctx.dist["name-style:underscore-field"] += 1
            if plain[0] == "ok" and got[0] != "ok":
                ctx.fail("name-style-generation", f"a model with the field {fname!r} works without a name style ({plain}) but under "
                         f"{st.name}: {got}", {"suite": "name-style", "field": fname, "style": st.name})
                return


def replay(ctx: Ctx, case) -> bool:
    sts = {s.name: s for s in styles()}
    if "field" in case:
        before = len(ctx.failures)
        underscore_fields(ctx)
        return len(ctx.failures) > before
    st = sts[case["style"]]
    if "name" in case and "other" not in case:
        return rule_violation(case["name"], st, real_convert(case["name"], st)) is not None
    if "other" in case:
        return real_convert(case["name"], st) == real_convert(case["other"], st)
    before = len(ctx.failures)
    end_to_end(ctx, 12)
    return len(ctx.failures) > before
