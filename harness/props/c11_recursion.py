"""C11 - `rec-history`: histories in which a request for a RECURSIVE type FAILS and the retort is used again
(real code only; the direct oracle of the property).

The region: state that a request for a recursive type leaves behind in the retort - recursion stubs
(`LocatedRequestCallableRecursionResolver._loc_to_stub`), partially built closures in the call cache - when the request
does not succeed, and the later requests that reach the *same locations* (the same field `children: List[Node]` in
another model, `GenericParamLoc(Node, 0)` through another container) without recursion.

Universe: five recursive families (self-reference through List / Optional / Dict, mutual recursion through
Optional + List, recursion through a nested model), each with one member nothing can load or dump (`Callable`, a bare
class), each with *enclosing* models that repeat a field of the cycle (same name, type and default, i.e. an equal
`FieldLoc`) or wrap the model, and the containers `List[T]`, `Optional[T]`, `Dict[str, T]`, `Tuple[T, int]`.
Recipes: `plain` (everything that contains the member fails), `ctx` (the member is loadable / dumpable only at a
location below ONE enclosing model: `P[Forest].children[Node].blob` - the model alone keeps failing, the enclosing model
works), `field` (`P[Node].blob`: the member works wherever the model is), `type` (the member type itself), i.e. from
"nearly every request fails" to "every request succeeds and binds its stubs".
Histories over {get_loader, load, get_dumper, dump} x hints of one family on ONE retort:
  * first-then-sweep: every (hint, direction) as the first request, then all others of the family in a rotating order;
  * pure pairs [a, b] with a failing `a` (a rotating share in the quick tier, all of them in the thorough tier);
  * random histories, also across directions and with repeated requests.
Oracle: the outcome of EVERY call (value / exception class tree; `ProviderNotFoundError` vs anything else) equals the
outcome of the same call on a never-used retort built from the same specification; loaders / dumpers obtained during
the history, called at its end, answer like those of a never-used retort.
"""

import re
from dataclasses import dataclass
from typing import Callable, Dict, List, Optional, Tuple

from harness.core import Ctx, canon


class Opaque:                      # nothing produces a loader or a dumper for it
    pass


BadC = Callable[[], int]           # nor for a Callable


# -- family L: self-reference through List -------------------------------------------------------------------------
@dataclass
class NodeL:
    value: int
    children: List["NodeL"]
    blob: BadC


@dataclass
class ForestL:                     # the same field (name, type) as NodeL.children
    children: List[NodeL]


@dataclass
class WrapL:
    node: NodeL
    tag: str = "t"


# -- family O: self-reference through Optional, bare class ---------------------------------------------------------
@dataclass
class NodeO:
    blob: Opaque
    v: int = 0
    nxt: Optional["NodeO"] = None


@dataclass
class ChainO:                      # the same field (name, type, default) as NodeO.nxt
    nxt: Optional[NodeO] = None


@dataclass
class WrapO:
    node: NodeO


# -- family D: self-reference through Dict ---------------------------------------------------------------------------
@dataclass
class NodeD:
    v: int
    kids: Dict[str, "NodeD"]
    blob: BadC


@dataclass
class ForestD:
    kids: Dict[str, NodeD]


@dataclass
class WrapD:
    node: NodeD


# -- family M: mutual recursion MA -> Optional[MB] -> List[MA] ------------------------------------------------------
@dataclass
class MA:
    blob: Opaque
    b: Optional["MB"] = None


@dataclass
class MB:
    w: int
    a: List[MA]


@dataclass
class HoldM:                       # the same field as MA.b
    b: Optional[MB] = None


@dataclass
class HoldM2:                      # the same field as MB.a
    a: List[MA]


# -- family N: recursion through a nested model ------------------------------------------------------------------------
@dataclass
class NOut:
    inner: "NIn"
    blob: BadC


@dataclass
class NIn:
    v: int
    outs: List[NOut]


@dataclass
class HoldN:                       # the same field as NIn.outs
    outs: List[NOut]


@dataclass
class HoldN2:                      # the same field as NOut.inner
    inner: NIn


_ADDR = re.compile(r" at 0x[0-9a-fA-F]+")
KINDS = ("get_loader", "load", "get_dumper", "dump")
LOAD_SIDE = ("get_loader", "load")


class Family:
    """hints of one recursive family with data to load and objects to dump (`blob` leaves are ints: the recipe
    functions map them to marked tuples, so values print without addresses)"""

    def __init__(self, name, node, bad, ctx_pattern, hints):
        self.name, self.node, self.bad, self.ctx_pattern = name, node, bad, ctx_pattern
        self.hints = hints                       # name -> (hint, [data], [objects])
        self.names = list(hints)


def _families():
    from adaptix import P

    def containers(t, tn, d, o):
        return {
            tn: (t, d, o),
            f"List[{tn}]": (List[t], [[x] for x in d] + [[]], [[x] for x in o]),
            f"Optional[{tn}]": (Optional[t], d[:1] + [None], o[:1] + [None]),
            f"Dict[str,{tn}]": (Dict[str, t], [{"k": x} for x in d[:1]], [{"k": x} for x in o[:1]]),
            f"Tuple[{tn},int]": (Tuple[t, int], [[x, 1] for x in d[:1]], [(x, 1) for x in o[:1]]),
        }
    common = {"int": (int, [1, "x"], [1]), "str": (str, ["a"], ["a"])}

    # L
    dl = [{"value": 1, "children": [{"value": 2, "children": [], "blob": 3}], "blob": 7}, {"value": 1, "children": [], "blob": 5},
          {"value": "bad", "children": [], "blob": 5}]
    ol = [NodeL(1, [NodeL(2, [], 3)], 7), NodeL(1, [], 5)]
    hl = dict(common)
    hl.update(containers(NodeL, "NodeL", dl, ol))
    hl.update({
        "ForestL": (ForestL, [{"children": dl[:2]}, {"children": []}], [ForestL(ol), ForestL([])]),
        "WrapL": (WrapL, [{"node": dl[0]}], [WrapL(ol[0])]),
        "List[ForestL]": (List[ForestL], [[{"children": dl[:1]}]], [[ForestL(ol[:1])]]),
        "Optional[ForestL]": (Optional[ForestL], [{"children": dl[:1]}, None], [ForestL(ol[:1]), None]),
        "BadC": (BadC, [3], [3]),
    })
    fam_l = Family("L", NodeL, BadC, lambda: P[ForestL].children[NodeL].blob, hl)

    # O
    do = [{"blob": 1, "v": 1, "nxt": {"blob": 2, "v": 2, "nxt": {"blob": 3}}}, {"blob": 4}, {"blob": 4, "v": "bad"}]
    oo = [NodeO(1, 1, NodeO(2, 2, NodeO(3))), NodeO(4)]
    ho = dict(common)
    ho.update(containers(NodeO, "NodeO", do, oo))
    ho.update({
        "ChainO": (ChainO, [{"nxt": do[0]}, {}], [ChainO(oo[0]), ChainO()]),
        "WrapO": (WrapO, [{"node": do[0]}], [WrapO(oo[0])]),
        "List[ChainO]": (List[ChainO], [[{"nxt": do[1]}]], [[ChainO(oo[1])]]),
        "Opaque": (Opaque, [3], [3]),
    })
    fam_o = Family("O", NodeO, Opaque, lambda: P[ChainO].nxt[NodeO].blob, ho)

    # D
    dd = [{"v": 1, "kids": {"a": {"v": 2, "kids": {}, "blob": 3}}, "blob": 7}, {"v": 1, "kids": {}, "blob": 5}]
    od = [NodeD(1, {"a": NodeD(2, {}, 3)}, 7), NodeD(1, {}, 5)]
    hd = dict(common)
    hd.update(containers(NodeD, "NodeD", dd, od))
    hd.update({
        "ForestD": (ForestD, [{"kids": {"x": dd[0]}}, {"kids": {}}], [ForestD({"x": od[0]}), ForestD({})]),
        "WrapD": (WrapD, [{"node": dd[0]}], [WrapD(od[0])]),
        "Optional[ForestD]": (Optional[ForestD], [{"kids": {"x": dd[1]}}, None], [ForestD({"x": od[1]}), None]),
        "BadC": (BadC, [3], [3]),
    })
    fam_d = Family("D", NodeD, BadC, lambda: P[ForestD].kids[NodeD].blob, hd)

    # M
    dma = [{"blob": 1, "b": {"w": 1, "a": [{"blob": 2}, {"blob": 3, "b": {"w": 2, "a": []}}]}}, {"blob": 4}]
    oma = [MA(1, MB(1, [MA(2), MA(3, MB(2, []))])), MA(4)]
    dmb = [{"w": 1, "a": dma}, {"w": 2, "a": []}]
    omb = [MB(1, oma), MB(2, [])]
    hm = dict(common)
    hm.update(containers(MA, "MA", dma, oma))
    hm.update(containers(MB, "MB", dmb, omb))
    hm.update({
        "HoldM": (HoldM, [{"b": dmb[0]}, {}], [HoldM(omb[0]), HoldM()]),
        "HoldM2": (HoldM2, [{"a": dma}, {"a": []}], [HoldM2(oma), HoldM2([])]),
        "Opaque": (Opaque, [3], [3]),
    })
    fam_m = Family("M", MA, Opaque, lambda: P[HoldM2].a[MA].blob, hm)

    # N
    dno = [{"inner": {"v": 1, "outs": [{"inner": {"v": 2, "outs": []}, "blob": 3}]}, "blob": 7}]
    ono = [NOut(NIn(1, [NOut(NIn(2, []), 3)]), 7)]
    dni = [{"v": 1, "outs": dno}, {"v": 2, "outs": []}]
    oni = [NIn(1, ono), NIn(2, [])]
    hn = dict(common)
    hn.update(containers(NOut, "NOut", dno, ono))
    hn.update(containers(NIn, "NIn", dni, oni))
    hn.update({
        "HoldN": (HoldN, [{"outs": dno}, {"outs": []}], [HoldN(ono), HoldN([])]),
        "HoldN2": (HoldN2, [{"inner": dni[0]}], [HoldN2(oni[0])]),
        "BadC": (BadC, [3], [3]),
    })
    fam_n = Family("N", NOut, BadC, lambda: P[HoldN].outs[NOut].blob, hn)
    return {f.name: f for f in (fam_l, fam_o, fam_d, fam_m, fam_n)}


def _mark_l(x):
    return ("blob", x)


def _mark_d(x):
    return ("dumped", x)


RECIPES = ("plain", "ctx", "field", "type")


class RecWorld:
    def __init__(self):
        from adaptix import DebugTrail, P, ProviderNotFoundError, Retort, dumper, loader
        self.Retort, self.DebugTrail, self.PNF, self.P = Retort, DebugTrail, ProviderNotFoundError, P
        self._loader, self._dumper = loader, dumper
        self.families = _families()
        self._fresh: dict = {}

    def recipe(self, fam: Family, name: str):
        """fresh provider objects on every call"""
        if name == "plain":
            return []
        if name == "ctx":
            return [self._loader(fam.ctx_pattern(), _mark_l), self._dumper(fam.ctx_pattern(), _mark_d)]
        if name == "field":
            return [self._loader(self.P[fam.node].blob, _mark_l), self._dumper(self.P[fam.node].blob, _mark_d)]
        if name == "type":
            return [self._loader(fam.bad, _mark_l), self._dumper(fam.bad, _mark_d)]
        raise KeyError(name)

    def make(self, case):
        fam = self.families[case["family"]]
        return self.Retort(strict_coercion=case["strict"], debug_trail=self.DebugTrail[case["trail"]],
                           recipe=self.recipe(fam, case["recipe"]))

    def out(self, fn):
        def tree(e):
            return [type(e).__name__, [tree(s) for s in getattr(e, "exceptions", ())]]
        try:
            v = fn()
        except self.PNF:
            return ["err", "ProviderNotFoundError"]
        except RecursionError:
            return ["err", "RecursionError"]
        except Exception as e:  # noqa: BLE001
            return ["err", tree(e)]
        return ["ok", "<callable>" if callable(v) and not isinstance(v, type) else _ADDR.sub("", repr(v))]

    def call(self, retort, fam: Family, op, keep=None):
        kind, hname, k = op
        hint, data, objs = fam.hints[hname]
        if kind in ("get_loader", "get_dumper"):
            box = []

            def get():
                fn = retort.get_loader(hint) if kind == "get_loader" else retort.get_dumper(hint)
                box.append(fn)
                return fn
            res = self.out(get)
            if keep is not None and box:
                keep.append(("load" if kind == "get_loader" else "dump", hname, box[0]))
            return res
        if kind == "load":
            return self.out(lambda: retort.load(data[k % len(data)], hint))
        return self.out(lambda: retort.dump(objs[k % len(objs)], hint))

    def cfg_key(self, case):
        return (case["family"], case["recipe"], case["strict"], case["trail"])

    def fresh(self, case, op, memo=True):
        """the outcome of `op` as the first and only call on a never-used retort of the case's specification"""
        hint, data, objs = self.families[case["family"]].hints[op[1]]
        k = 0 if op[0].startswith("get_") else op[2] % len(data if op[0] == "load" else objs)
        key = (self.cfg_key(case), op[0], op[1], k)
        if memo and key in self._fresh:
            return self._fresh[key]
        res = self.call(self.make(case), self.families[case["family"]], op)
        if memo:
            self._fresh[key] = res
        return res

    def fresh_obtained(self, case, direction, hname, k, memo=True):
        op = ("load" if direction == "load" else "dump", hname, k)
        return self.fresh(case, op, memo)

    # -- the oracle ----------------------------------------------------------------------------------------------
    def check(self, ctx: Ctx, case, count=True, memo=True) -> bool:
        fam = self.families[case["family"]]
        ops = [tuple(op) for op in case["ops"]]
        warm = self.make(case)
        keep: list = []
        failed_rec = False        # a request for a type of the cycle (or around it) has failed earlier in this history
        nontrivial = False
        bad = None
        for i, op in enumerate(ops):
            got = self.call(warm, fam, op, keep)
            want = self.fresh(case, op, memo)
            if failed_rec:
                nontrivial = True
            if got[0] == "err" and op[1] not in ("int", "str"):
                failed_rec = True
            if got != want:
                bad = (i, op, got, want)
                break
        if bad is None:
            for direction, hname, fn in keep:
                hint, data, objs = fam.hints[hname]
                vals = data if direction == "load" else objs
                for k in range(len(vals)):
                    got = self.out(lambda: fn(vals[k]))     # noqa: B023
                    want = self.fresh_obtained(case, direction, hname, k, memo)
                    if got != want:
                        bad = (len(ops), (f"obtained-{direction}er", hname, k), got, want)
                        break
                if bad:
                    break
        if count:
            ctx.note_case(case, nontrivial=nontrivial, kind=f"rec-history:{case['gen']}:{case['recipe']}")
            ctx.dist[f"rec-history:family-{case['family']}"] += 1
            if nontrivial:
                ctx.dist["rec-history:a-failed-request-for-a-recursive-type-then-further-calls"] += 1
        if bad is None:
            return False
        i, op, got, want = bad
        earlier = [f"{k}({h})" for k, h, _ in ops[:i]]
        ctx.fail(f"rec-history:{op[0]}:{case['family']}:{case['recipe']}",
                 f"Retort(recipe={case['recipe']} of family {case['family']}, strict_coercion={case['strict']}, "
                 f"debug_trail={case['trail']}): after {earlier} the call {op[0]}({op[1]}"
                 f"{', datum #%d' % op[2] if op[0] in ('load', 'dump') or op[0].startswith('obtained') else ''}) gives "
                 f"{canon(got)[:200]}; a never-used retort built the same way gives {canon(want)[:200]}",
                 dict(case, ops=[list(o) for o in ops[: i + 1]]))
        return True


# ---------------------------------------------------------------------------------------------------------------------
# generators
# ---------------------------------------------------------------------------------------------------------------------

def _case(fam, recipe, ops, gen, strict=True, trail="ALL"):
    return {"suite": "rec-history", "family": fam, "recipe": recipe, "strict": strict, "trail": trail,
            "gen": gen, "ops": [list(o) for o in ops]}


def sweep_cases(w: RecWorld, seed: int, recipes, full: bool):
    """every hint of a family as the first request (quick tier: in one direction, which one alternates with the hint and
    the seed; thorough: in both; the kind get_x / call alternates too), then the other hints in the same direction
    starting behind the first (quick: half of them), with requests of the other direction mixed in"""
    for fi, fam in enumerate(w.families.values()):
        n = len(fam.names)
        length = n if full else n // 2 + 1
        for ri, recipe in enumerate(recipes):
            for side, (g, c) in enumerate((("get_loader", "load"), ("get_dumper", "dump"))):
                other = ("get_dumper", "dump") if side == 0 else ("get_loader", "load")
                for ai, a in enumerate(fam.names):
                    if not full and (ai + fi + ri + seed) % 2 != side:
                        continue
                    ops = [(g if (ai // 2 + seed + fi) % 2 == 0 else c, a, seed)]
                    for j in range(1, length + 1):
                        b = fam.names[(ai + j) % n]
                        ops.append((g if (ai + j + seed) % 3 else c, b, ai + j))
                        if j in (length // 3, 2 * length // 3):
                            ops.append((other[j % 2], fam.names[(ai + 2 * j + seed) % n], j))
                    yield _case(fam.name, recipe, ops, "first-then-sweep")


def pair_cases(w: RecWorld, seed: int, recipes, share: int):
    """[a, b]: a failing request `a`, then any request `b` of the family (same direction); `share` > 1 keeps every
    share-th pair (rotating with the seed)"""
    n = 0
    for fam in w.families.values():
        for recipe in recipes:
            proto = _case(fam.name, recipe, [], "failing-then-one")
            for kinds in (LOAD_SIDE, ("get_dumper", "dump")):
                ops = [(k, h, 0) for h in fam.names for k in kinds]
                failing = [op for op in ops if op[0].startswith("get_") and w.fresh(proto, op)[0] == "err"]
                for a in failing:
                    for b in ops:
                        if b[1] == a[1] or b[1] in ("int", "str"):
                            continue
                        n += 1
                        if (n + seed) % share == 0:
                            yield _case(fam.name, recipe, [a, b], "failing-then-one")


def random_case(w: RecWorld, rng):
    fam = rng.choice(list(w.families.values()))
    recipe = rng.choice(("plain", "ctx", "ctx", "field", "type"))
    side = rng.choice((LOAD_SIDE, ("get_dumper", "dump"), KINDS, KINDS))
    names = [h for h in fam.names if h not in ("int", "str")] if rng.random() < 0.7 else fam.names
    ops = [(rng.choice(side), rng.choice(names), rng.randint(0, 3)) for _ in range(rng.randint(2, 7))]
    return _case(fam.name, recipe, ops, "random", strict=rng.random() < 0.7,
                 trail=rng.choice(("ALL", "ALL", "FIRST", "DISABLE")))


_WORLD = None


def get_world() -> RecWorld:
    global _WORLD
    if _WORLD is None:
        _WORLD = RecWorld()
    return _WORLD


def rec_history_suite(ctx: Ctx, n_random: int, pair_share: int, stop_on_failure: bool = False):
    import time
    t0 = time.time()
    w = get_world()
    w._fresh.clear()
    full = ctx.tier == "thorough"
    recipes = RECIPES if full else ("plain", "ctx")
    gens = [sweep_cases(w, ctx.seed, recipes, full), pair_cases(w, ctx.seed, recipes, pair_share),
            (random_case(w, ctx.rng) for _ in range(n_random))]
    for gen in gens:
        for case in gen:
            if w.check(ctx, case) and stop_on_failure:
                return
    ctx.extra["rec_history"] = {k[len("rec-history:"):]: v for k, v in sorted(ctx.dist.items()) if k.startswith("rec-history:")}
    ctx.extra["rec_history"]["suite-seconds"] = round(time.time() - t0, 1)


def replay(ctx: Ctx, case) -> bool:
    return get_world().check(ctx, case, count=False, memo=False)
