"""C10 — predicates (types, strings, P patterns and combinators) match as documented.

Lean side: AdaptixModel/Pred/*.lean (model + specification), AdaptixProofs/Props/C10.lean (theorems).
Tie:
  * translator   : `_CAST_SOURCES`, the `_expected_location` of every LastLocChecker and the attribute names of
                   LocStackPattern are regenerated into AdaptixModel/Generated/PredTables.lean on every run
  * checker-classes : every LocStackChecker class built directly (random trees, all location classes, empty stack,
                   empty Xor) — real `check_loc_stack` vs `check`
  * create       : `create_loc_stack_checker(<predicate expression>)` — the checker object built by the real code,
                   serialised structurally, vs `createChecker` (exceptions compared by class)
  * check        : the truth of that checker on every stack — real vs `check`, and the Lean specification
                   `specMatches` on the same cases
  * bound        : `LocStackBoundingProvider._process_request_checker` / `bound_by_any` vs the model
  * e2e          : `Retort(recipe=[loader(pred, marker)])` / `dumper(...)` on models whose fields sit at the probed
                   locations; the stacks the retort really asks about are recorded by a spy checker
Direct oracle (real code only, Python, independent of Lean): the documented meaning computed as sets of stacks
(bit masks over a prefix-closed stack universe) from stdlib facts (`issubclass`, `inspect.isabstract`,
`typing.get_origin`, `re.fullmatch`, `str.isidentifier`), the four documented identities and the pointwise
combinator laws as extensional equalities of the real checkers.
"""

import inspect
import itertools
import re
import typing
from abc import ABC, abstractmethod
from dataclasses import dataclass
from pathlib import Path
from typing import Annotated, Generic, List, Literal, Optional, Protocol, TypeVar, Union, runtime_checkable

from harness.core import Ctx, Driver, InfraError

ID = "C10"
CLAIM = {
    "technique": "Lean 4 proof (denotational specification of predicate expressions vs the checker construction) + "
                 "model/code correspondence + regenerated cast table",
    "text": (
        "Proved in Lean for every oracle table (class facts, regex), every predicate expression and every non-empty "
        "location stack, unbounded: the checker built by the model of create_loc_stack_checker/LocStackPattern decides "
        "exactly the documented meaning (checker_iff_spec: class = same origin for concrete, subclass for "
        "abstract/protocol, normalised equality for parametrised hints; string = equality when identifier else full "
        "regex match; P chain = the last locations satisfy the elements in order); LocStackEndChecker is characterised "
        "by offsets (end_checker_tail); |, &, ^, ~ are pointwise on checkers and on patterns; P['n']=P.n, P[A]=A, "
        "P[A]+P.n=P[A].n, P[A,B]=P[A]|P[B] hold for all stacks; a bound provider's checker is the conjunction "
        "(bound_is_conjunction). The model is tied to the code by five correspondences (checker classes, "
        "construction, truth, bound, end-to-end through Retort) and a regenerated _CAST_SOURCES table."
    ),
    "note": (
        "Trusted: Lean 4.33 kernel; axioms audited each run (subset of propext, Classical.choice, Quot.sound). The "
        "theorems are about the Lean model; class facts (isabstract, is_protocol, issubclass, normalize_type, "
        "is_generic, is_parametrized), str.isidentifier and the regex engine are oracle tables shipped by the harness, "
        "theorems hold for every table. Empty stacks (never carried by a request; `.last` raises IndexError) and "
        "attribute names shadowed by LocStackPattern's own attributes (P.ANY, P.generic_arg…) are outside the "
        "identities; both are modelled and compared. The model is hand-written and tied to /repo on every run by "
        "differential correspondence: exhaustive over predicate expressions of nesting <= 2 x stacks of depth <= 3, "
        "random beyond."
    ),
    "design_ref": "DESIGN.md §4 C10",
}
PROPS_FILE = "AdaptixProofs/Props/C10.lean"
LEAN_TARGETS = ["AdaptixProofs.Props.C10", "drv_c10"]
RULE = ("predicate expressions over 4 classes (concrete, abstract, runtime protocol, generic) + parametrised hints, 3 field "
        "names, a regex, P.ANY; quick: all expressions of nesting <= 2 x all stacks of depth <= 3 over 10 locations, random "
        "expressions up to nesting 5 and random stacks up to depth 6 beyond; a case is non-trivial when the predicate "
        "matches at least one and rejects at least one stack of the universe")
ASSUMPTIONS = [
    "class facts and the regex engine are oracles: inspect.isabstract, typing protocol flags, issubclass, normalize_type, "
    "re.fullmatch, str.isidentifier are taken as the running interpreter answers them (validated per run over the universe)",
    "'implementation of a runtime protocol' is read as issubclass(); protocols with data members refuse issubclass() "
    "(TypeError) and therefore match nothing — stated, not counted as a violation",
    "location stacks are non-empty (every LocatedRequest carries at least the root location); on the empty stack the "
    "last-location checkers raise IndexError, which the model reproduces and the correspondence compares",
    "field names that are attributes of LocStackPattern itself (ANY, generic_arg, build_loc_stack_checker, _stack…) cannot be "
    "written as P.<name>; the identity P['n'] == P.n is claimed for the other names",
]
TRUSTED = ["the oracle tables (class facts, regex truth table) computed by the harness with the functions loc_stack_filtering.py calls"]

LOC_CLASSES = ["TypeHintLoc", "FieldLoc", "InputFieldLoc", "InputFuncFieldLoc", "OutputFieldLoc", "GenericParamLoc"]
LEAN_LOC = {"TypeHintLoc": ".typeHintLoc", "FieldLoc": ".fieldLoc", "InputFieldLoc": ".inputFieldLoc",
            "InputFuncFieldLoc": ".inputFuncFieldLoc", "OutputFieldLoc": ".outputFieldLoc",
            "GenericParamLoc": ".genericParamLoc"}
LAST_LOC_CHECKERS = ["ExactFieldNameLSC", "ReFieldNameLSC", "ExactTypeLSC", "OriginSubclassLSC", "ExactOriginLSC",
                     "GenericParamLSC"]


# ---------------------------------------------------------------------------
# translator: regenerate AdaptixModel/Generated/PredTables.lean from the working tree
# ---------------------------------------------------------------------------

def extract_pred_tables(repo, lean_dir):
    from adaptix._internal.provider import loc_stack_filtering as lsf
    from adaptix._internal.provider import location

    by_cls = {getattr(location, n): n for n in LOC_CLASSES}
    table = location._CAST_SOURCES
    if set(table) != set(by_cls):
        raise ValueError(f"_CAST_SOURCES keys changed: {sorted(c.__name__ for c in table)}")
    lines = []
    for name in LOC_CLASSES:
        srcs = table[getattr(location, name)]
        unknown = [s for s in srcs if s not in by_cls]
        if unknown:
            raise ValueError(f"_CAST_SOURCES[{name}] holds an unknown class {unknown}")
        ordered = [n for n in LOC_CLASSES if getattr(location, n) in srcs]
        lines.append(f"  | {LEAN_LOC[name]} => [{', '.join(LEAN_LOC[n] for n in ordered)}]")
    expected = []
    for name in LAST_LOC_CHECKERS:
        cls = getattr(lsf, name)
        exp = cls._expected_location
        if exp not in by_cls:
            raise ValueError(f"{name}._expected_location is {exp!r}, not a location class")
        expected.append(f"def expectedLoc_{name} : LocClass := {LEAN_LOC[by_cls[exp]]}")
    known = set(LAST_LOC_CHECKERS)
    for n, obj in vars(lsf).items():
        if isinstance(obj, type) and issubclass(obj, lsf.LastLocChecker) and obj is not lsf.LastLocChecker and n not in known:
            raise ValueError(f"unmodelled LastLocChecker subclass {n}")
    attrs = sorted({n for n in dir(lsf.LocStackPattern) if not (n.startswith("__") and n.endswith("__"))}
                   | set(vars(lsf.P)))
    text = f"""/- GENERATED by harness/props/c10.py:extract_pred_tables from the working tree of adaptix
   (src/adaptix/_internal/provider/location.py `_CAST_SOURCES`,
    src/adaptix/_internal/provider/loc_stack_filtering.py `LastLocChecker._expected_location`, `LocStackPattern` attributes).
   Do not edit. -/
import AdaptixModel.Pred.LocClass

namespace Adaptix.Pred.Generated
open Adaptix.Pred

/-- location.py `_CAST_SOURCES[tp]`: the classes whose instances may be cast to `tp`. -/
def castSources : LocClass → List LocClass
{chr(10).join(lines)}

/-- the location class named by the annotation of `_check_location(self, mediator, loc: X)` of every
    `LastLocChecker` subclass (`LastLocChecker.__init_subclass__` stores it as `_expected_location`). -/
{chr(10).join(expected)}

/-- names found by ordinary attribute lookup on a `LocStackPattern` (so `__getattr__` is never asked for them). -/
def patternAttrs : List String :=
  [{', '.join('"' + a + '"' for a in attrs)}]

end Adaptix.Pred.Generated
"""
    target = Path(lean_dir) / "AdaptixModel" / "Generated" / "PredTables.lean"
    if not target.exists() or target.read_text() != text:
        target.write_text(text)


EXTRACT = [extract_pred_tables]


# ---------------------------------------------------------------------------
# the universe: classes, type hints, field ids, regexes; the oracle tables ("world")
# ---------------------------------------------------------------------------

T = TypeVar("T")
FIELD_IDS = ["a", "b", "ab"]
PRED_STRINGS = ["a", "b", "ab", "zz", "a.*", ".*b", "a|b", "", "a(", "a b", "é", "1a", "[ab]+", "ANY"]
EXTRA_FIELD_IDS = ["zz", "é", "ANY", "a_b"]


class Universe:
    """Everything a case can mention, numbered; built once per run on the real interpreter."""

    def __init__(self):
        from adaptix import P
        from adaptix._internal.provider import loc_stack_filtering as lsf
        from adaptix._internal.provider import location
        from adaptix._internal.type_tools import is_generic, is_parametrized, is_protocol, is_subclass_soft, normalize_type
        from adaptix._internal.type_tools.normalize_type import NormTV, NotSubscribedError

        self.P, self.lsf, self.location = P, lsf, location

        class C:
            pass

        class CSub(C):
            pass

        class A(ABC):
            @abstractmethod
            def f(self):
                ...

        class AImpl(A):
            def f(self):
                return 1

        @runtime_checkable
        class Pr(Protocol):
            def g(self):
                ...

        class PrImpl:            # structural implementation, no inheritance
            def g(self):
                return 1

        class PrSub(Pr):         # nominal implementation
            def g(self):
                return 2

        class G(Generic[T]):
            pass

        class GSub(G[int]):
            pass

        class AG(ABC, Generic[T]):
            @abstractmethod
            def h(self):
                ...

        class AGImpl(AG[T]):
            def h(self):
                return 1

        @runtime_checkable
        class DataPr(Protocol):
            x: int

        class DataImpl:
            x = 1

        class NonRtPr(Protocol):
            def g(self):
                ...

        @dataclass
        class Inner:
            a: C
            b: AImpl
            ab: G[int]

        @dataclass
        class Outer:
            a: C
            b: PrImpl
            ab: CSub
            inner: Inner
            items: List[C]
            g: G[str]

        class Junk:              # an object that is no type hint and implements no operator (unlike the int 5: ~5 == -6)
            def __repr__(self):
                return "junk"

        self.cls = dict(C=C, CSub=CSub, A=A, AImpl=AImpl, Pr=Pr, PrImpl=PrImpl, PrSub=PrSub, G=G, GSub=GSub, AG=AG,
                        AGImpl=AGImpl, DataPr=DataPr, DataImpl=DataImpl, NonRtPr=NonRtPr, Inner=Inner, Outer=Outer)
        named = dict(self.cls)
        named.update({
            "G[int]": G[int], "G[str]": G[str], "G[T]": G[T], "AGImpl[int]": AGImpl[int], "AG[int]": AG[int],
            "list": list, "list[C]": list[C], "List[C]": List[C], "List": List, "list[T]": List[T],
            "Optional[C]": Optional[C], "Union[None,C]": Union[None, C], "Union[C,int]": Union[C, int],
            "Union": Union, "Literal": Literal, "Literal[1]": Literal[1], "Annotated[C,m]": Annotated[C, "m"],
            "T": T, "int": int, "str": str, "None": None, "Any": typing.Any, "junk5": Junk(),
            "Sequence": typing.Sequence, "Sequence[C]": typing.Sequence[C], "tuple": tuple, "NewType": typing.NewType("NT", C),
        })
        self.names: list = []       # id -> name
        self.objs: list = []        # id -> object
        self._ids: dict = {}
        for n, o in named.items():
            self.obj_id(o, n)
        self.named = {n: self.obj_id(o) for n, o in named.items()}

        # --- normalisation oracle ------------------------------------------------
        self.norms: list = []       # norm id -> BaseNormType
        self.norm_rows: dict = {}   # obj id -> (norm id, origin obj id, is_tv) | "ns" | "ve"
        i = 0
        while i < len(self.objs):   # origins discovered on the way are appended and normalised too
            o = self.objs[i]
            try:
                n = normalize_type(o)
            except NotSubscribedError:
                self.norm_rows[i] = "ns"
            except ValueError:
                self.norm_rows[i] = "ve"
            else:
                self.norm_rows[i] = (self.norm_id(n), self.obj_id(n.origin), isinstance(n, NormTV))
            i += 1
        n_obj = len(self.objs)

        def soft(f, *a):
            try:
                return bool(f(*a))
            except Exception:      # the model consults these only for objects that normalise
                return False

        self.generic = [i for i, o in enumerate(self.objs) if soft(is_generic, o)]
        self.param = [i for i, o in enumerate(self.objs) if soft(is_parametrized, o)]
        self.protocol = [i for i, o in enumerate(self.objs) if soft(is_protocol, o)]
        self.abstract = [i for i, o in enumerate(self.objs) if soft(inspect.isabstract, o)]
        self.subclass = [[a, b] for a in range(n_obj) for b in range(n_obj)
                         if soft(is_subclass_soft, self.objs[a], self.objs[b])]

        # --- strings and regexes --------------------------------------------------
        self.field_ids = FIELD_IDS + EXTRA_FIELD_IDS
        # compiled with flags, so that they are never the object `re.compile(<a predicate string>)` returns from its cache
        self.re_objs = {"re:A.*/i": re.compile("A.*", re.I), "re:B/i": re.compile("B", re.I), "re:a b/x": re.compile("a b", re.X)}
        self.strings = sorted(set(PRED_STRINGS) | set(self.field_ids))      # every string a case may use as a predicate
        self.ident = [s for s in self.strings if s.isidentifier()]
        self.compiles = []
        fm = []
        for s in self.strings:
            try:
                pat = re.compile(s)
            except re.error:
                continue
            self.compiles.append(s)
            fm += [[s, f] for f in self.field_ids if pat.fullmatch(f) is not None]
        for k, pat in self.re_objs.items():
            fm += [[k, f] for f in self.field_ids if pat.fullmatch(f) is not None]
        self.fullmatch = fm
        self._re_key = {id(p): k for k, p in self.re_objs.items()}

        # --- user-defined checkers --------------------------------------------------
        u = self

        class LenMod(lsf.LocStackChecker):
            def __init__(s, m, r):
                s.m, s.r = m, r

            def check_loc_stack(s, mediator, loc_stack):
                return len(loc_stack) % s.m == s.r

        class FirstType(lsf.LocStackChecker):
            def __init__(s, t):
                s.t = t

            def check_loc_stack(s, mediator, loc_stack):
                return len(loc_stack) > 0 and loc_stack[0].type == u.objs[s.t]

        self.user_specs = [{"k": "len_mod", "m": 2, "r": 0}, {"k": "first_type", "t": self.named["C"]},
                           {"k": "first_type", "t": self.named["Outer"]}]
        self.user_objs = [LenMod(2, 0), FirstType(self.named["C"]), FirstType(self.named["Outer"])]
        self._user_idx = {id(o): i for i, o in enumerate(self.user_objs)}

    # -- registries ------------------------------------------------------------
    def obj_id(self, o, name=None):
        try:
            key = ("h", o)
            hash(o)
        except TypeError:
            key = ("id", id(o))
        if key not in self._ids:
            self._ids[key] = len(self.objs)
            self.objs.append(o)
            self.names.append(name or repr(o))
        return self._ids[key]

    def norm_id(self, n):
        for i, m in enumerate(self.norms):
            if m == n:
                return i
        self.norms.append(n)
        return len(self.norms) - 1

    def world(self):
        return {
            "norm": [[o, r[0], r[1], r[2]] for o, r in sorted(self.norm_rows.items()) if isinstance(r, tuple)],
            "ns": [o for o, r in sorted(self.norm_rows.items()) if r == "ns"],
            "generic": self.generic, "param": self.param, "protocol": self.protocol, "abstract": self.abstract,
            "subclass": self.subclass, "ident": self.ident, "compiles": self.compiles, "fullmatch": self.fullmatch,
            "user": self.user_specs,
        }

    # -- locations and stacks --------------------------------------------------
    def real_loc(self, l):
        from adaptix._internal.model_tools.definitions import NoDefault, create_attr_accessor
        L = self.location
        tp = self.objs[l["t"]]
        c = l["c"]
        if c == "TypeHintLoc":
            return L.TypeHintLoc(type=tp)
        if c == "GenericParamLoc":
            return L.GenericParamLoc(type=tp, generic_pos=l["g"])
        kw = dict(type=tp, field_id=l["f"], default=NoDefault(), metadata={})
        if c == "FieldLoc":
            return L.FieldLoc(**kw)
        if c == "InputFieldLoc":
            return L.InputFieldLoc(**kw, is_required=True)
        if c == "InputFuncFieldLoc":
            return L.InputFuncFieldLoc(**kw, func=len)
        if c == "OutputFieldLoc":
            return L.OutputFieldLoc(**kw, accessor=create_attr_accessor(l["f"], is_required=True))
        raise InfraError(f"bad location class {c}")

    def real_stack(self, st):
        return self.lsf.LocStack(*[self.real_loc(l) for l in st])

    def json_loc(self, loc):
        """a real location object -> the JSON form (used for the stacks a retort really produces)"""
        c = type(loc).__name__
        if c not in LOC_CLASSES:
            raise InfraError(f"unknown location class {c}")
        out = {"c": c, "t": self.obj_id(loc.type)}
        if hasattr(loc, "field_id"):
            out["f"] = loc.field_id
        if hasattr(loc, "generic_pos"):
            out["g"] = loc.generic_pos
        return out

    # -- checkers ----------------------------------------------------------------
    def real_checker(self, c):
        """JSON checker tree -> real LocStackChecker instances built directly from the classes"""
        F = self.lsf
        k = c["k"]
        if k == "exact_field":
            return F.ExactFieldNameLSC(c["v"])
        if k == "re_field":
            return F.ReFieldNameLSC(self.re_objs[c["v"]] if c["v"] in self.re_objs else re.compile(c["v"]))
        if k == "exact_type":
            return F.ExactTypeLSC(self.norms[c["v"]])
        if k == "origin_subclass":
            return F.OriginSubclassLSC(self.objs[c["v"]])
        if k == "exact_origin":
            return F.ExactOriginLSC(self.objs[c["v"]])
        if k == "generic_param":
            return F.GenericParamLSC(c["v"])
        if k == "end":
            return F.LocStackEndChecker([self.real_checker(x) for x in c["cs"]])
        if k == "size":
            return F.LocStackSizeChecker(c["v"])
        if k == "any":
            return F.AnyLocStackChecker()
        if k == "invert":
            return F.InvertLSC(self.real_checker(c["c"]))
        if k in ("or", "and", "xor"):
            cls = {"or": F.OrLocStackChecker, "and": F.AndLocStackChecker, "xor": F.XorLocStackChecker}[k]
            return cls([self.real_checker(x) for x in c["cs"]])
        if k == "user":
            return self.user_objs[c["v"]]
        raise InfraError(f"bad checker {k}")

    def json_checker(self, ch):
        """a real checker object -> JSON (structure of what the real code built)"""
        F = self.lsf
        t = type(ch)
        if t is F.ExactFieldNameLSC:
            return {"k": "exact_field", "v": ch.field_id}
        if t is F.ReFieldNameLSC:
            return {"k": "re_field", "v": self._re_key.get(id(ch.pattern), ch.pattern.pattern)}
        if t is F.ExactTypeLSC:
            return {"k": "exact_type", "v": self.norm_id(ch.norm)}
        if t is F.OriginSubclassLSC:
            return {"k": "origin_subclass", "v": self.obj_id(ch.type_)}
        if t is F.ExactOriginLSC:
            return {"k": "exact_origin", "v": self.obj_id(ch.origin)}
        if t is F.GenericParamLSC:
            return {"k": "generic_param", "v": ch.pos}
        if t is F.LocStackEndChecker:
            return {"k": "end", "cs": [self.json_checker(x) for x in ch.loc_stack_checkers]}
        if t is F.LocStackSizeChecker:
            return {"k": "size", "v": ch.expected_size}
        if t is F.AnyLocStackChecker:
            return {"k": "any"}
        if t is F.InvertLSC:
            return {"k": "invert", "c": self.json_checker(ch._lsc)}
        for k, cls in (("or", F.OrLocStackChecker), ("and", F.AndLocStackChecker), ("xor", F.XorLocStackChecker)):
            if t is cls:
                return {"k": k, "cs": [self.json_checker(x) for x in ch._loc_stack_checkers]}
        if id(ch) in self._user_idx:
            return {"k": "user", "v": self._user_idx[id(ch)]}
        return {"k": "unknown", "v": t.__name__}

    # -- predicate expressions ---------------------------------------------------
    def real_value(self, e):
        """evaluate the expression with the real `P`, real classes and Python's own operator dispatch"""
        k = e["e"]
        rv = self.real_value
        if k == "str":
            return e["v"]
        if k == "re":
            return self.re_objs[e["v"]]
        if k == "ty":
            return self.objs[e["v"]]
        if k == "any":
            return self.P.ANY
        if k == "user":
            return self.user_objs[e["v"]]
        if k == "create":
            return self.lsf.create_loc_stack_checker(rv(e["a"]))
        if k == "P":
            return self.P
        if k == "getitem":
            p = rv(e["p"])
            return p[rv(e["a"])]
        if k == "tuple":
            p = rv(e["p"])
            return p[tuple(rv(x) for x in e["items"])]
        if k == "getattr":
            return getattr(rv(e["p"]), e["v"])
        if k == "generic_arg":
            p = rv(e["p"])
            return p.generic_arg(e["pos"], rv(e["a"]))
        if k == "add":
            a = rv(e["a"])
            return a + rv(e["b"])
        if k == "or":
            a = rv(e["a"])
            return a | rv(e["b"])
        if k == "and":
            a = rv(e["a"])
            return a & rv(e["b"])
        if k == "xor":
            a = rv(e["a"])
            return a ^ rv(e["b"])
        if k == "invert":
            return ~rv(e["a"])
        if k == "build":
            return rv(e["p"]).build_loc_stack_checker()
        raise InfraError(f"bad expression {k}")

    def real_create(self, e):
        """-> ("ok", checker) | ("exc", class name)"""
        try:
            return "ok", self.lsf.create_loc_stack_checker(self.real_value(e))
        except re.error:
            return "exc", "error"
        except (ValueError, TypeError, AttributeError, IndexError) as ex:
            return "exc", type(ex).__name__


def exc_char(ex):
    return {"IndexError": "I", "TypeError": "Y"}.get(type(ex).__name__, "X")


def real_check(checker, stack, mediator=None):
    try:
        return "T" if checker.check_loc_stack(mediator, stack) else "F"
    except Exception as ex:
        return exc_char(ex)


# ---------------------------------------------------------------------------
# expression constructors (JSON) and their static sort
# ---------------------------------------------------------------------------

def e_str(s): return {"e": "str", "v": s}
def e_re(k): return {"e": "re", "v": k}
def e_ty(i): return {"e": "ty", "v": i}
E_ANY = {"e": "any"}
E_P = {"e": "P"}
def e_user(i): return {"e": "user", "v": i}
def e_create(a): return {"e": "create", "a": a}
def e_getitem(p, a): return {"e": "getitem", "p": p, "a": a}
def e_tuple(p, items): return {"e": "tuple", "p": p, "items": list(items)}
def e_getattr(p, n): return {"e": "getattr", "p": p, "v": n}
def e_generic_arg(p, pos, a): return {"e": "generic_arg", "p": p, "pos": pos, "a": a}
def e_bin(op, a, b): return {"e": op, "a": a, "b": b}
def e_add(a, b): return {"e": "add", "a": a, "b": b}
def e_invert(a): return {"e": "invert", "a": a}
def e_build(p): return {"e": "build", "p": p}


def sort_of(e):
    """'pred' (str / re / type), 'checker', 'pattern' — what the expression evaluates to when it is well-formed"""
    k = e["e"]
    if k in ("str", "re", "ty"):
        return "pred"
    if k in ("any", "user", "create", "build"):
        return "checker"
    if k in ("or", "and", "xor"):
        return "checker" if sort_of(e["a"]) == "checker" and sort_of(e["b"]) == "checker" else "pattern"
    if k == "invert":
        return sort_of(e["a"])
    if k == "getattr" and e["v"] == "ANY" and e["p"]["e"] == "P":
        return "checker"
    return "pattern"


def nesting(e):
    subs = [v for v in e.values() if isinstance(v, dict)] + [x for v in e.values() if isinstance(v, list) for x in v]
    return 0 if not subs else 1 + max(nesting(s) for s in subs)


def show(u, e):
    k = e["e"]
    s = lambda x: show(u, x)
    if k == "str":
        return repr(e["v"])
    if k == "re":
        return f"<{e['v']}>"
    if k == "ty":
        return u.names[e["v"]]
    if k == "any":
        return "P.ANY"
    if k == "user":
        return f"User{e['v']}"
    if k == "create":
        return f"create({s(e['a'])})"
    if k == "P":
        return "P"
    if k == "getitem":
        return f"{s(e['p'])}[{s(e['a'])}]"
    if k == "tuple":
        return f"{s(e['p'])}[{', '.join(s(x) for x in e['items'])},]"
    if k == "getattr":
        return f"{s(e['p'])}.{e['v']}"
    if k == "generic_arg":
        return f"{s(e['p'])}.generic_arg({e['pos']}, {s(e['a'])})"
    if k == "add":
        return f"({s(e['a'])} + {s(e['b'])})"
    if k in ("or", "and", "xor"):
        return f"({s(e['a'])} {dict(or_='|', and_='&', xor_='^')[k + '_']} {s(e['b'])})"
    if k == "invert":
        return f"~{s(e['a'])}"
    if k == "build":
        return f"{s(e['p'])}.build()"
    return "?"


# ---------------------------------------------------------------------------
# stack universes (prefix closed, indexed) and the documented meaning as bit masks over them
# ---------------------------------------------------------------------------

class Stacks:
    def __init__(self, u: Universe, stacks):
        self.u = u
        seen, ordered = {}, []
        for st in stacks:
            for n in range(1, len(st) + 1):
                key = _canon(st[:n])
                if key not in seen:
                    seen[key] = len(ordered)
                    ordered.append(st[:n])
        self.stacks = ordered
        self.index = seen
        self.parent = [seen[_canon(st[:-1])] if len(st) > 1 else None for st in ordered]
        self.child_mask = [0] * len(ordered)
        for i, p in enumerate(self.parent):
            if p is not None:
                self.child_mask[p] |= 1 << i
        self.real = [u.real_stack(st) for st in ordered]
        self.all_mask = (1 << len(ordered)) - 1

    def __len__(self):
        return len(self.stacks)

    def children_of(self, mask):
        out, i = 0, 0
        while mask:
            if mask & 1:
                out |= self.child_mask[i]
            mask >>= 1
            i += 1
        return out

    def mask_of(self, f):
        m = 0
        for i, st in enumerate(self.stacks):
            if f(st):
                m |= 1 << i
        return m

    def to_string(self, mask):
        return "".join("T" if mask >> i & 1 else "F" for i in range(len(self.stacks)))


def _canon(x):
    import json
    return json.dumps(x, sort_keys=True, separators=(",", ":"))


class Invalid(Exception):
    """the expression is not a predicate (the documentation gives it no meaning)"""


FIELD_CLASSES = ("FieldLoc", "InputFieldLoc", "InputFuncFieldLoc", "OutputFieldLoc")
_SPECIAL_FORMS = (Union, Literal, Optional, typing.ClassVar, typing.Final, Annotated)


def _mini_norm(t):
    """a tiny normaliser written against `typing` only (for 'the same type' between parametrised hints)"""
    if t is None:
        return type(None)
    o = typing.get_origin(t)
    if o is None:
        return t
    args = typing.get_args(t)
    if o is Union:
        return (Union, frozenset(_mini_norm(a) for a in args))
    if o is Annotated:
        return (Annotated, _mini_norm(args[0]), args[1:])
    if o is Literal:
        return (Literal, args)
    return (o, tuple(_mini_norm(a) for a in args))


class _NotAType:
    pass


NOT_A_TYPE = _NotAType()


def _py_origin(t):
    """the class a location type stands for, by `typing` only; NOT_A_TYPE when it is not a type"""
    if t is None or t is typing.Any or isinstance(t, (TypeVar, typing.NewType)):
        return t
    if any(t is s for s in _SPECIAL_FORMS) or t is typing.Annotated:
        return NOT_A_TYPE                # a bare special form is not a type
    o = typing.get_origin(t)
    if o is not None:
        return o
    if isinstance(t, type) or t in (typing.List, typing.Sequence):
        return t
    return NOT_A_TYPE


def _soft_issubclass(a, b):
    try:
        return issubclass(a, b)
    except TypeError:
        return False


def py_type_pred(pred):
    """documented reading of a class / type-hint predicate -> function(location type) -> bool; raises Invalid"""
    if isinstance(pred, TypeVar):
        raise Invalid("type variable")
    if any(pred is s for s in _SPECIAL_FORMS):
        return lambda t: _py_origin(t) is pred and t is not pred
    if pred is None or pred is typing.Any or isinstance(pred, typing.NewType):
        return lambda t: _py_origin(t) is pred
    args = typing.get_args(pred)
    if args:
        if getattr(pred, "__parameters__", ()):
            raise Invalid("generic alias with free type variables")
        want = _mini_norm(pred)
        return lambda t: _py_origin(t) is not NOT_A_TYPE and _mini_norm(t) == want
    cls = typing.get_origin(pred) or pred        # typing.List -> list
    if not isinstance(cls, type):
        raise Invalid("not a type")
    if inspect.isabstract(cls) or getattr(cls, "_is_protocol", False):
        return lambda t: _py_origin(t) is not NOT_A_TYPE and _soft_issubclass(_py_origin(t), cls)
    return lambda t: _py_origin(t) is cls


class PySpec:
    """The documented meaning of a predicate expression as the set of stacks it matches (bit mask over `Stacks`).
    Written from docs/loading-and-dumping/tutorial.rst; uses only stdlib facts, no adaptix function."""

    def __init__(self, u: Universe, S: Stacks):
        self.u, self.S = u, S
        self.memo = {}

    def last(self, f):
        return self.S.mask_of(lambda st: f(st[-1]))

    def mask(self, e):
        key = _canon(e)
        if key not in self.memo:
            try:
                self.memo[key] = self._mask(e)
            except Invalid as ex:
                self.memo[key] = ex
        r = self.memo[key]
        if isinstance(r, Invalid):
            raise r
        return r

    def elements(self, e):
        """the elements of a P chain, in order (each a mask)"""
        k = e["e"]
        if sort_of(e) != "pattern":
            raise Invalid("not a pattern")
        if k == "P":
            return []
        if k == "getitem":
            if sort_of(e["a"]) == "pattern":
                raise Invalid("pattern inside pattern")
            return self.elements(e["p"]) + [self.mask(e["a"])]
        if k == "tuple":
            head = self.elements(e["p"])
            m = 0
            for x in e["items"]:
                if sort_of(x) == "pattern":
                    raise Invalid("pattern inside pattern")
                m |= self.mask(x)
            return head + [m]
        if k == "getattr":
            n = e["v"]
            head = self.elements(e["p"])
            if n.startswith("__") and n.endswith("__"):
                raise Invalid("dunder attribute")
            return head + [self.mask(e_str(n))]
        if k == "generic_arg":
            if sort_of(e["a"]) == "pattern":
                raise Invalid("pattern inside pattern")
            pos = e["pos"]
            gp = self.last(lambda l: l["c"] == "GenericParamLoc" and l["g"] == pos)
            return self.elements(e["p"]) + [gp & self.mask(e["a"])]
        if k == "add":
            if sort_of(e["a"]) != "pattern" or sort_of(e["b"]) != "pattern":
                raise Invalid("+ joins two patterns")
            return self.elements(e["a"]) + self.elements(e["b"])
        return [self.mask(e)]        # a combination (|, &, ^, ~) is one element

    def _mask(self, e):
        k, S = e["e"], self.S
        if k == "str":
            s = e["v"]
            if s.isidentifier():
                return self.last(lambda l: l["c"] in FIELD_CLASSES and l["f"] == s)
            try:
                pat = re.compile(s)
            except re.error:
                raise Invalid("bad regex")
            return self.last(lambda l: l["c"] in FIELD_CLASSES and pat.fullmatch(l["f"]) is not None)
        if k == "re":
            pat = self.u.re_objs[e["v"]]
            return self.last(lambda l: l["c"] in FIELD_CLASSES and pat.fullmatch(l["f"]) is not None)
        if k == "ty":
            f = py_type_pred(self.u.objs[e["v"]])
            return self.last(lambda l: f(self.u.objs[l["t"]]))
        if k == "any":
            return S.all_mask
        if k == "user":
            spec = self.u.user_specs[e["v"]]
            if spec["k"] == "len_mod":
                return S.mask_of(lambda st: len(st) % spec["m"] == spec["r"])
            return S.mask_of(lambda st: st[0]["t"] == spec["t"])
        if k == "create":
            return self.mask(e["a"])
        if k == "build":
            if sort_of(e["p"]) != "pattern":
                raise Invalid("build() of a non-pattern")
            return self.mask(e["p"])
        if k in ("or", "and", "xor"):
            sa, sb = sort_of(e["a"]), sort_of(e["b"])
            if sa == "pred" or sb == "pred":
                raise Invalid("operators combine P patterns / checkers")
            a, b = self.mask(e["a"]), self.mask(e["b"])
            return a | b if k == "or" else a & b if k == "and" else a ^ b
        if k == "invert":
            if sort_of(e["a"]) == "pred":
                raise Invalid("~ applies to P patterns / checkers")
            return S.all_mask & ~self.mask(e["a"])
        if k == "getattr" and sort_of(e) == "checker":
            return S.all_mask                               # P.ANY
        # a P chain: the last locations satisfy the elements in order
        els = self.elements(e)
        if not els:
            raise Invalid("empty pattern")
        cur = els[0]
        for m in els[1:]:
            cur = S.children_of(cur) & m
        return cur


# ---------------------------------------------------------------------------
# generators
# ---------------------------------------------------------------------------

def loc(u, c, t, f=None, g=None):
    out = {"c": c, "t": u.named[t]}
    if c in FIELD_CLASSES:
        out["f"] = f if f is not None else "a"
    if c == "GenericParamLoc":
        out["g"] = g if g is not None else 0
    return out


def exhaustive_locs(u, thorough):
    base = [
        loc(u, "TypeHintLoc", "C"), loc(u, "TypeHintLoc", "AImpl"), loc(u, "TypeHintLoc", "G[int]"),
        loc(u, "InputFieldLoc", "C", "a"), loc(u, "InputFieldLoc", "PrImpl", "b"), loc(u, "OutputFieldLoc", "G[int]", "ab"),
        loc(u, "FieldLoc", "CSub", "a"), loc(u, "InputFuncFieldLoc", "AImpl", "b"),
        loc(u, "GenericParamLoc", "C", g=0), loc(u, "GenericParamLoc", "PrImpl", g=1),
    ]
    if thorough:
        base += [loc(u, "OutputFieldLoc", "G[str]", "b"), loc(u, "TypeHintLoc", "PrSub"), loc(u, "InputFieldLoc", "GSub", "ab")]
    return base


LOC_TYPES_COMMON = ["C", "CSub", "AImpl", "PrImpl", "PrSub", "G[int]", "G[str]", "G", "GSub", "list[C]", "List[C]",
                    "Optional[C]", "int", "A", "Pr", "AGImpl[int]", "Outer", "Inner", "DataImpl", "Sequence[C]", "list"]
LOC_TYPES_HOSTILE = ["Union", "junk5", "T", "Annotated[C,m]", "None", "Any", "Literal[1]", "G[T]", "NewType", "Literal"]


def rand_loc(u, rng, hostile=0.1):
    t = rng.choice(LOC_TYPES_HOSTILE if rng.random() < hostile else LOC_TYPES_COMMON)
    c = rng.choice(LOC_CLASSES)
    return loc(u, c, t, f=rng.choice(u.field_ids if rng.random() < 0.3 else FIELD_IDS), g=rng.choice([0, 0, 1, 2, -1]))


def rand_stack(u, rng, max_depth):
    n = rng.randint(1, max_depth)
    st = [rand_loc(u, rng) for _ in range(n)]
    if rng.random() < 0.6:      # the shape real requests have: a root type, then fields / type arguments
        st[0] = dict(c="TypeHintLoc", t=st[0]["t"])
    return st


def atoms(u, thorough):
    names = ["C", "A", "Pr", "G", "G[int]"] + (["CSub", "list[C]", "AG", "Optional[C]", "Union"] if thorough else [])
    out = [e_ty(u.named[n]) for n in names]
    out += [e_str("a"), e_str("b"), e_str("a.*")] + ([e_str("ab"), e_re("re:A.*/i")] if thorough else [])
    out.append(E_ANY)
    return out


def level1(u, thorough):
    at = atoms(u, thorough)
    C, A, Pr = (e_ty(u.named[n]) for n in ("C", "A", "Pr"))
    pats = [e_getitem(E_P, a) for a in at]
    pats += [e_getattr(E_P, "a"), e_getattr(E_P, "b")]
    pats += [e_tuple(E_P, [C, e_str("a")]), e_tuple(E_P, [A, Pr]), e_generic_arg(E_P, 0, C)]
    if thorough:
        pats += [e_tuple(E_P, []), e_tuple(E_P, [C]), e_tuple(E_P, [C, A, e_str("b")]), e_generic_arg(E_P, 1, E_ANY)]
    chks = [E_ANY, e_create(C), e_create(e_str("a"))]
    return at, pats, chks


def exhaustive_exprs(u, thorough):
    """all expressions of nesting <= 2 over the atoms (nesting 0), one operator (1), two operators (2)"""
    at, pats, chks = level1(u, thorough)
    C = e_ty(u.named["C"])
    out = list(at) + pats + chks
    for p in pats:
        out += [e_getitem(p, a) for a in at]
        out += [e_getattr(p, "a"), e_getattr(p, "b")]
        out += [e_invert(p), e_generic_arg(p, 0, C), e_build(p), e_tuple(p, [C, e_str("b")])]
    for c in chks:
        out += [e_invert(c), e_getitem(E_P, c)]
    for a, b in itertools.product(pats + chks, repeat=2):
        out += [e_bin("or", a, b), e_bin("and", a, b), e_bin("xor", a, b)]
    for a, b in itertools.product(pats, repeat=2):
        out.append(e_add(a, b))
    return out


def in_model(e, u=None):
    """the fragment of Python the model covers: subscription / attribute access only on patterns, operators with at
    least one checker or pattern operand (`C | A` is a typing.Union, `'a' + 'b'` a str — not predicates at all), and no
    `|` whose left operand is a `typing` object (their own `__or__` tries to build a Union and raises TypeError itself)"""
    subs = [v for v in e.values() if isinstance(v, dict)] + [x for v in e.values() if isinstance(v, list) for x in v]
    if not all(in_model(x, u) for x in subs):
        return False
    k = e["e"]
    if k in ("getitem", "tuple", "getattr", "generic_arg", "build"):
        return sort_of(e["p"]) == "pattern"
    if k in ("or", "and", "xor", "add"):
        if sort_of(e["a"]) == "pred" and sort_of(e["b"]) == "pred":
            return False
        if k == "or" and u is not None:
            def typing_object(x):       # implements `|` itself (TypeVar, typing aliases, special forms): builds a Union
                if x["e"] != "ty":
                    return False
                o = u.objs[x["v"]]
                return not (isinstance(o, type) or o is None or type(o).__name__ == "Junk")
            if typing_object(e["a"]):
                return False
            if typing_object(e["b"]) and sort_of(e["a"]) != "pattern":
                return False
    return True


def rand_expr(u, rng, depth, want=None, hostile=0.0):
    """a random well-sorted expression of the wanted sort; with probability `hostile` a fault is planted at
    operand / item positions (never at the subscripted position, which must stay a pattern)"""
    want = want or rng.choice(["pred", "checker", "pattern", "pattern"])

    def r(w=None, d=depth - 1, fault_ok=True):
        if fault_ok and hostile and rng.random() < hostile:
            return rand_fault(u, rng, d)
        return rand_expr(u, rng, d, w, hostile)

    def rp():        # the subscripted / extended pattern
        return r("pattern", fault_ok=False)

    if want == "pred":
        x = rng.random()
        if x < 0.55:
            return e_ty(u.named[rng.choice(["C", "A", "Pr", "G", "G[int]", "CSub", "AImpl", "PrImpl", "list", "list[C]", "List[C]",
                                            "Optional[C]", "Union[C,int]", "Union", "AG", "AGImpl", "AG[int]", "GSub", "int",
                                            "Sequence", "Sequence[C]", "DataPr", "NonRtPr", "None", "Any", "Literal",
                                            "Literal[1]", "Annotated[C,m]", "tuple", "NewType", "List", "G[str]", "PrSub"])])
        if x < 0.9:
            return e_str(rng.choice(["a", "b", "ab", "zz", "a.*", ".*b", "a|b", "", "[ab]+", "é", "ANY", "1a", "a b"]))
        return e_re(rng.choice(list(u.re_objs)))
    if depth <= 0:
        if want == "checker":
            return rng.choice([E_ANY, e_user(rng.randrange(len(u.user_objs))), e_getattr(E_P, "ANY")])
        return rng.choice([e_getitem(E_P, r("pred", 0, False)), e_getattr(E_P, rng.choice(FIELD_IDS))])
    if want == "checker":
        x = rng.random()
        if x < 0.15:
            return rng.choice([E_ANY, e_user(rng.randrange(len(u.user_objs)))])
        if x < 0.4:
            return e_create(r(rng.choice(["pred", "checker", "pattern"])))
        if x < 0.55:
            return e_build(rp())
        if x < 0.7:
            return e_invert(r("checker"))
        return e_bin(rng.choice(["or", "and", "xor"]), r("checker"), r("checker"))
    x = rng.random()
    if x < 0.22:
        return e_getitem(rp() if rng.random() < 0.8 else E_P, r(rng.choice(["pred", "pred", "checker"])))
    if x < 0.34:
        return e_getattr(rp() if rng.random() < 0.8 else E_P, rng.choice(FIELD_IDS + ["zz", "a_b"]))
    if x < 0.44:
        k = rng.choice([0, 1, 2, 2, 3])
        return e_tuple(rp() if rng.random() < 0.6 else E_P, [r(rng.choice(["pred", "pred", "checker"])) for _ in range(k)])
    if x < 0.5:
        return e_generic_arg(rp() if rng.random() < 0.7 else E_P, rng.choice([0, 1, -1]), r(rng.choice(["pred", "checker"])))
    if x < 0.64:
        return e_add(r("pattern"), r("pattern"))
    if x < 0.74:
        return e_invert(r("pattern"))
    a, b = rng.choice([("pattern", "pattern"), ("pattern", "checker"), ("checker", "pattern")])
    return e_bin(rng.choice(["or", "and", "xor"]), r(a), r(b))


def rand_fault(u, rng, depth):
    """malformed stream: expressions the real code must reject (or treat specially) in a definite way"""
    def r(w):
        for _ in range(20):
            e = rand_expr(u, rng, max(depth - 1, 0), w)
            if sort_of(e) == w:
                return e
        return E_ANY if w == "checker" else e_getattr(E_P, "a") if w == "pattern" else e_str("a")

    return rng.choice([
        lambda: E_P,                                                       # create(P): empty pattern
        lambda: e_getitem(r("pattern"), r("pattern")),                     # pattern inside pattern
        lambda: e_tuple(E_P, [r("pred"), r("pattern")]),
        lambda: e_generic_arg(r("pattern"), 0, r("pattern")),
        lambda: e_ty(u.named[rng.choice(["T", "G[T]", "list[T]", "junk5"])]),
        lambda: e_getitem(E_P, e_ty(u.named[rng.choice(["T", "G[T]", "junk5"])])),
        lambda: e_str("a("),
        lambda: e_getitem(r("pattern"), e_str("a(")),
        lambda: e_getattr(r("pattern"), rng.choice(["__x__", "__", "___", "__init_subclass__x__"])),
        lambda: e_getattr(r("pattern"), "ANY"),                            # property raises -> __getattr__ fallback
        lambda: e_getattr(E_P, "ANY"),
        lambda: e_add(r("pattern"), r("checker")),
        lambda: e_add(r("checker"), r("pattern")),
        lambda: e_add(E_P, E_P),
        lambda: e_bin(rng.choice(["or", "and", "xor"]), E_P, r("pattern")),
        lambda: e_bin(rng.choice(["or", "and", "xor"]), r("pattern"), E_P),
        lambda: e_bin(rng.choice(["or", "and", "xor"]), r("checker"), e_str("a")),
        lambda: e_bin(rng.choice(["or", "and", "xor"]), e_str("a"), r("checker")),
        lambda: e_bin(rng.choice(["or", "and", "xor"]), r("pattern"), r("pred")),
        lambda: e_bin(rng.choice(["or", "and", "xor"]), e_str("b"), r("pattern")),
        lambda: e_invert(e_str("a")),
        lambda: e_invert(E_P),
        lambda: e_build(E_P),
        lambda: e_build(e_add(E_P, E_P)),
    ])()


def rand_checker(u, rng, depth):
    """a checker tree built directly from the classes (no create_loc_stack_checker involved)"""
    leaf = depth <= 0 or rng.random() < 0.35
    if leaf:
        k = rng.randrange(9)
        if k == 0:
            return {"k": "exact_field", "v": rng.choice(u.field_ids)}
        if k == 1:
            return {"k": "re_field", "v": rng.choice(list(u.re_objs) + ["a.*", ".*b", "a|b", "", "[ab]+"])}
        if k == 2:
            return {"k": "exact_type", "v": rng.randrange(len(u.norms))}
        if k == 3:
            return {"k": "origin_subclass", "v": u.named[rng.choice(["A", "Pr", "C", "AG", "DataPr", "NonRtPr", "Sequence", "junk5"])]}
        if k == 4:
            return {"k": "exact_origin", "v": u.named[rng.choice(["C", "G", "list", "Union", "CSub", "AImpl", "int", "None"])]}
        if k == 5:
            return {"k": "generic_param", "v": rng.choice([0, 1, 2, -1])}
        if k == 6:
            return {"k": "size", "v": rng.choice([0, 1, 2, 3, 4, -1])}
        if k == 7:
            return {"k": "any"}
        return {"k": "user", "v": rng.randrange(len(u.user_objs))}
    k = rng.randrange(5)
    sub = lambda: rand_checker(u, rng, depth - 1)
    if k == 0:
        return {"k": "invert", "c": sub()}
    n = rng.choice([0, 1, 2, 2, 3, 4]) if rng.random() < 0.3 else rng.choice([2, 2, 3])
    return {"k": ["end", "or", "and", "xor"][k - 1], "cs": [sub() for _ in range(n)]}


# ---------------------------------------------------------------------------
# evaluation of predicate expressions: real vs model vs documented meaning
# ---------------------------------------------------------------------------

def to_mask(truth):
    m = 0
    for i, ch in enumerate(truth):
        if ch == "T":
            m |= 1 << i
    return m


class RealTruth:
    """create_loc_stack_checker(expr) on the real code and its truth on every stack of the universe (cached)"""

    def __init__(self, u: Universe, S: Stacks):
        self.u, self.S = u, S
        self.cache = {}

    def get(self, e):
        key = _canon(e)
        if key not in self.cache:
            kind, val = self.u.real_create(e)
            if kind == "exc":
                self.cache[key] = {"exc": val}
            else:
                self.cache[key] = {"checker": self.u.json_checker(val),
                                   "check": "".join(real_check(val, rs) for rs in self.S.real)}
        return self.cache[key]


def classify_atom(u, e):
    if e["e"] == "ty":
        o = u.objs[e["v"]]
        if typing.get_args(o):
            return "parametrised-hint"
        if isinstance(o, type):
            if getattr(o, "_is_protocol", False):
                return "protocol-class"
            if inspect.isabstract(o):
                return "abstract-class"
            if getattr(o, "__parameters__", ()):
                return "generic-class"
            return "concrete-class"
        return "special-form"
    if e["e"] == "str":
        return "string-identifier" if e["v"].isidentifier() else "string-regex"
    return e["e"]


def sub_exprs(e):
    for v in e.values():
        if isinstance(v, dict):
            yield v
        elif isinstance(v, list):
            yield from (x for x in v if isinstance(x, dict))


def oracle_meaning(ctx: Ctx, u, S, spec: PySpec, real: RealTruth, e, top=True):
    """direct oracle: the real checker matches exactly the stacks the documentation says. Returns True if it failed."""
    try:
        want = spec.mask(e)
    except Invalid as why:
        want = None
    got = real.get(e)
    if want is None:
        if "exc" not in got and top:
            # the documentation gives the expression no meaning but the library accepts it: not a property violation
            ctx.dist["oracle-accepted-without-documented-meaning"] += 1
        return False
    if "exc" in got:
        ctx.fail(f"meaning:{classify_atom(u, e)}:raises",
                 f"predicate {show(u, e)} is valid by the documentation but create_loc_stack_checker raises {got['exc']}",
                 {"suite": "meaning", "expr": e})
        return True
    have = to_mask(got["check"])
    if have == want and set(got["check"]) <= {"T", "F"}:
        return False
    # blame the smallest sub-expression that is itself a wrong predicate
    for s in sub_exprs(e):
        if oracle_meaning(ctx, u, S, spec, real, s, top=False):
            return True
    diff = have ^ want
    i = (diff & -diff).bit_length() - 1 if diff else next(i for i, c in enumerate(got["check"]) if c not in "TF")
    ctx.fail(f"meaning:{classify_atom(u, e)}",
             f"predicate {show(u, e)} on stack {show_stack(u, S.stacks[i])}: real checker says {got['check'][i]}, "
             f"documented meaning is {'T' if want >> i & 1 else 'F'}",
             {"suite": "meaning", "expr": e, "stack": S.stacks[i]})
    return True


def show_stack(u, st):
    out = []
    for l in st:
        s = f"{l['c']}({u.names[l['t']]}"
        if "f" in l:
            s += f", {l['f']!r}"
        if "g" in l:
            s += f", pos={l['g']}"
        out.append(s + ")")
    return "[" + ", ".join(out) + "]"


def suite_exprs(ctx: Ctx, u, S, drv, exprs, spec, real, label):
    """create / check / spec correspondences + meaning oracle for a list of expressions over the universe S"""
    replies = [None] * len(exprs)
    if drv:
        out = drv.batch([{"op": "setup", "world": u.world(), "stacks": S.stacks}] + [{"op": "pred", "expr": e} for e in exprs])
        if out[0].get("ok") != len(S):
            raise InfraError(f"driver setup failed: {out[0]}")
        replies = out[1:]
    nc = dc = nk = dk = ns = ds = 0
    for e, rep in zip(exprs, replies):
        got = real.get(e)
        nontrivial = "check" in got and "T" in got["check"] and "F" in got["check"]
        ctx.note_case({"expr": e, "universe": label}, nontrivial=nontrivial,
                      kind=f"{label}:" + ("rejected:" + got["exc"] if "exc" in got else f"nesting{min(nesting(e), 6)}"))
        ctx.dist["top:" + e["e"]] += 1
        ctx.sample({"suite": "check", "expr": show(u, e), "real": got if "exc" in got else
                    {"checker": got["checker"], "matches": got["check"].count("T"), "of": len(S)}}, every=397)
        oracle_meaning(ctx, u, S, spec, real, e)
        if rep is None:
            continue
        m = rep.get("ok")
        if m is None:
            nc += 1
            dc += 1
            ctx.disagree("create", {"expr": e}, got, rep)
            continue
        nc += 1
        if ("exc" in got) != ("exc" in m) or ("exc" in got and got["exc"] != m["exc"]) \
                or ("checker" in got and got["checker"] != m["checker"]):
            dc += 1
            ctx.disagree("create", {"expr": e, "shown": show(u, e)}, got.get("exc") or got["checker"], m.get("exc") or m["checker"])
            continue
        if "exc" in got:
            continue
        nk += len(S)
        if got["check"] != m["check"]:
            dk += 1
            i = next(i for i, (a, b) in enumerate(zip(got["check"], m["check"])) if a != b)
            ctx.disagree("check", {"expr": e, "shown": show(u, e), "stack": S.stacks[i]}, got["check"][i], m["check"][i])
        ns += len(S)
        if got["check"] != m["spec"]:
            ds += 1
            i = next(i for i, (a, b) in enumerate(zip(got["check"], m["spec"])) if a != b)
            ctx.disagree("spec", {"expr": e, "shown": show(u, e), "stack": S.stacks[i]}, got["check"][i], m["spec"][i])
    if drv:
        ctx.suite("create", nc, dc)
        ctx.suite("check", nk, dk)
        ctx.suite("spec", ns, ds)


# ---------------------------------------------------------------------------
# direct oracles for the algebra: combinators pointwise, the four documented identities
# ---------------------------------------------------------------------------

def oracle_algebra(ctx: Ctx, u, S, real: RealTruth, operands, names, type_atoms, prefixes):
    def truth(e):
        r = real.get(e)
        return None if "exc" in r else r["check"]

    def expect_equal(sig, what, lhs, rhs, case):
        a, b = truth(lhs), truth(rhs)
        ctx.note_case(case, nontrivial=a is not None and "T" in a and "F" in a, kind="algebra:" + sig.split(":")[1])
        if a is None or b is None:
            if (a is None) != (b is None):
                ctx.fail(sig + ":raises", f"{what}: {show(u, lhs)} and {show(u, rhs)}: one side raises "
                         f"({real.get(lhs).get('exc')} / {real.get(rhs).get('exc')})", case)
            return
        if a != b:
            i = next(i for i, (x, y) in enumerate(zip(a, b)) if x != y)
            ctx.fail(sig, f"{what}: {show(u, lhs)} says {a[i]} but {show(u, rhs)} says {b[i]} on {show_stack(u, S.stacks[i])}",
                     dict(case, stack=S.stacks[i]))

    # combinators are the pointwise boolean operations
    ops = {"or": lambda x, y: x | y, "and": lambda x, y: x & y, "xor": lambda x, y: x ^ y}
    for a, b in itertools.product(operands, repeat=2):
        ta, tb = truth(a), truth(b)
        if ta is None or tb is None:
            continue
        for op, f in ops.items():
            e = e_bin(op, a, b)
            t = truth(e)
            case = {"suite": "algebra", "law": op, "a": a, "b": b}
            ctx.note_case(case, nontrivial=True, kind="algebra:" + op)
            want = S.to_string(f(to_mask(ta), to_mask(tb)))
            if t is None:
                ctx.fail(f"combinator:{op}:raises", f"{show(u, e)} raises {real.get(e)['exc']}", case)
            elif t != want:
                i = next(i for i, (x, y) in enumerate(zip(t, want)) if x != y)
                ctx.fail(f"combinator:{op}", f"{show(u, e)} says {t[i]} on {show_stack(u, S.stacks[i])} but the operands say "
                         f"{ta[i]} and {tb[i]}", dict(case, stack=S.stacks[i]))
    for a in operands:
        ta = truth(a)
        if ta is None:
            continue
        t = truth(e_invert(a))
        case = {"suite": "algebra", "law": "invert", "a": a}
        ctx.note_case(case, nontrivial=True, kind="algebra:invert")
        want = S.to_string(S.all_mask & ~to_mask(ta))
        if t != want:
            ctx.fail("combinator:invert", f"~{show(u, a)} is not the complement of {show(u, a)}", case)

    # the four documented identities, for every prefix pattern where the identity is stated for one
    for n in names:
        for p in prefixes:
            expect_equal("identity:getitem-getattr", "P['n'] == P.n", e_getitem(p, e_str(n)), e_getattr(p, n),
                         {"suite": "algebra", "law": "getitem-getattr", "p": p, "n": n})
    for a in type_atoms:
        expect_equal("identity:P[A]-A", "P[A] == A", e_getitem(E_P, a), a, {"suite": "algebra", "law": "P[A]-A", "a": a})
        for n in names:
            expect_equal("identity:add-getattr", "P[A] + P.n == P[A].n", e_add(e_getitem(E_P, a), e_getattr(E_P, n)),
                         e_getattr(e_getitem(E_P, a), n), {"suite": "algebra", "law": "add-getattr", "a": a, "n": n})
        for b in type_atoms:
            expect_equal("identity:tuple-or", "P[A, B] == P[A] | P[B]", e_tuple(E_P, [a, b]),
                         e_bin("or", e_getitem(E_P, a), e_getitem(E_P, b)),
                         {"suite": "algebra", "law": "tuple-or", "a": a, "b": b})
    for p, q in itertools.product(prefixes, repeat=2):
        for n in names[:1]:
            expect_equal("identity:add-getattr", "p + q.n == (p + q).n", e_add(p, e_getattr(q, n)), e_getattr(e_add(p, q), n),
                         {"suite": "algebra", "law": "add-getattr-general", "p": p, "q": q, "n": n})


# ---------------------------------------------------------------------------
# checker classes built directly
# ---------------------------------------------------------------------------

def py_checker(u, c, st):
    """what each checker class is for, on a (possibly empty) stack — Python reference used as direct oracle for the
    classes that have a documented meaning of their own (size, any, the boolean ones, the end checker's offsets)"""
    k = c["k"]
    sub = lambda x, s=st: py_checker(u, x, s)
    if k == "any":
        return True
    if k == "size":
        return len(st) == c["v"]
    if k == "invert":
        return not sub(c["c"])
    if k == "or":
        return any(sub(x) for x in c["cs"])
    if k == "and":
        return all(sub(x) for x in c["cs"])
    if k == "xor":
        if not c["cs"]:
            raise TypeError("reduce() of empty iterable")
        return sum(bool(sub(x)) for x in c["cs"]) % 2 == 1
    if k == "end":
        n = len(c["cs"])
        return len(st) >= n and all(sub(x, st[:len(st) - (n - 1 - i)]) for i, x in enumerate(c["cs"]))
    if k == "user":
        spec = u.user_specs[c["v"]]
        return len(st) % spec["m"] == spec["r"] if spec["k"] == "len_mod" else bool(st) and st[0]["t"] == spec["t"]
    if not st:
        raise IndexError
    l = st[-1]
    if k == "exact_field":
        return l["c"] in FIELD_CLASSES and l["f"] == c["v"]
    if k == "re_field":
        pat = u.re_objs.get(c["v"]) or re.compile(c["v"])
        return l["c"] in FIELD_CLASSES and pat.fullmatch(l["f"]) is not None
    if k == "generic_param":
        return l["c"] == "GenericParamLoc" and l["g"] == c["v"]
    return None      # type checkers: meaning is covered through predicates (needs the normaliser)


def suite_checker_classes(ctx: Ctx, u, S, drv, n_random):
    stacks = [[]] + S.stacks
    reals = [u.lsf.LocStack()] + S.real
    step = max(1, len(stacks) // 400)
    idx = [0] + list(range(1, len(stacks), step))
    stacks, reals = [stacks[i] for i in idx], [reals[i] for i in idx]
    cases = [rand_checker(u, ctx.rng, ctx.rng.randint(0, 4)) for _ in range(n_random)]
    cases += [{"k": "xor", "cs": []}, {"k": "end", "cs": []}, {"k": "or", "cs": []}, {"k": "and", "cs": []},
              {"k": "end", "cs": [{"k": "xor", "cs": []}, {"k": "size", "v": 9}]},
              {"k": "or", "cs": [{"k": "any"}, {"k": "xor", "cs": []}]}, {"k": "and", "cs": [{"k": "size", "v": 9}, {"k": "xor", "cs": []}]}]
    replies = [None] * len(cases)
    if drv:
        out = drv.batch([{"op": "setup", "world": u.world(), "stacks": stacks}] + [{"op": "check", "checker": c} for c in cases])
        replies = out[1:]
    n = d = 0
    for c, rep in zip(cases, replies):
        ch = u.real_checker(c)
        truth = "".join(real_check(ch, rs) for rs in reals)
        ctx.note_case({"checker": c}, nontrivial="T" in truth and "F" in truth, kind="checker-classes:" + c["k"])
        for ch_ in set(truth) - {"T", "F"}:
            ctx.dist["checker-classes:raises-" + ch_] += 1
        # direct oracle on the classes with a self-evident meaning
        for st, t in zip(stacks, truth) if not (_py_type_checker_unknown(c) or _has_empty_xor(c)) else ():
            try:
                want = py_checker(u, c, st)
            except (IndexError, TypeError):
                continue
            if want is None or not st:
                continue
            if t != ("T" if want else "F"):
                what = f"{c['k']} checker says {t} on {show_stack(u, st)}, its documented role gives {'T' if want else 'F'}"
                ctx.fail(f"checker-class:{c['k']}", what, {"suite": "checker-classes", "checker": c, "stack": st})
                break
        if rep is None:
            continue
        n += len(stacks)
        if rep.get("ok") != truth:
            d += 1
            m = rep.get("ok") or ""
            i = next((i for i, (a, b) in enumerate(zip(truth, m)) if a != b), 0)
            ctx.disagree("checker-classes", {"checker": c, "stack": stacks[i]}, truth[i], m[i] if i < len(m) else rep)
    if drv:
        ctx.suite("checker-classes", n, d)


def _has_empty_xor(c):
    return (c["k"] == "xor" and not c["cs"]) or any(_has_empty_xor(x) for x in c.get("cs", []) + ([c["c"]] if "c" in c else []))


def _py_type_checker_unknown(c):
    return c["k"] in ("exact_type", "origin_subclass", "exact_origin") or any(
        _py_type_checker_unknown(x) for x in c.get("cs", []) + ([c["c"]] if "c" in c else []))


# ---------------------------------------------------------------------------
# bound(pred, provider)
# ---------------------------------------------------------------------------

def suite_bound(ctx: Ctx, u, S, drv, n_random):
    from adaptix import bound, loader
    from adaptix._internal.morphing.request_cls import LoaderRequest
    from adaptix._internal.provider.essential import Request, RequestChecker
    from adaptix._internal.provider.facade.provider import bound_by_any
    from adaptix._internal.provider.located_request import LocatedRequestChecker, LocStackBoundingProvider
    from adaptix._internal.provider.request_checkers import AlwaysTrueRequestChecker

    class Foreign(RequestChecker):
        def __init__(s, i, answer):
            s.i, s.answer = i, answer

        def check_request(s, mediator, request):
            return s.answer

    @dataclass(frozen=True)
    class PlainRequest(Request):
        pass

    step = max(1, len(S) // 150)
    idx = list(range(0, len(S), step))
    stacks, reals = [S.stacks[i] for i in idx], [S.real[i] for i in idx]

    def enc_rc(rc):
        if isinstance(rc, AlwaysTrueRequestChecker):
            return {"k": "always"}
        if isinstance(rc, LocatedRequestChecker):
            return {"k": "located", "c": u.json_checker(rc.loc_stack_checker)}
        if isinstance(rc, Foreign):
            return {"k": "other", "i": rc.i}
        return {"k": "unknown"}

    def run_rc(rc):
        out = []
        for rs in reals:
            try:
                out.append("T" if rc.check_request(None, LoaderRequest(loc_stack=rs)) else "F")
            except Exception as ex:
                out.append(exc_char(ex))
        return "".join(out)

    cases = []
    for _ in range(n_random):
        b = rand_checker(u, ctx.rng, 2)
        kind = ctx.rng.choice(["always", "located", "located", "other"])
        rc = {"k": "always"} if kind == "always" else {"k": "located", "c": rand_checker(u, ctx.rng, 2)} if kind == "located" \
            else {"k": "other", "i": ctx.rng.randrange(2)}
        cases.append({"bounding": b, "located": ctx.rng.random() < 0.8, "rc": rc, "other_true": [1]})
    replies = [None] * len(cases)
    if drv:
        out = drv.batch([{"op": "setup", "world": u.world(), "stacks": stacks}] + [dict(op="bound", **c) for c in cases])
        replies = out[1:]
    n = d = 0
    for c, rep in zip(cases, replies):
        bounding = u.real_checker(c["bounding"])
        own = AlwaysTrueRequestChecker() if c["rc"]["k"] == "always" else \
            LocatedRequestChecker(u.real_checker(c["rc"]["c"])) if c["rc"]["k"] == "located" else Foreign(c["rc"]["i"], c["rc"]["i"] in c["other_true"])
        prov = LocStackBoundingProvider(bounding, loader(int, int))
        res = prov._process_request_checker(LoaderRequest if c["located"] else PlainRequest, own)
        real = {"rc": enc_rc(res), "check": run_rc(res)}
        ctx.note_case({"bound": c}, nontrivial="T" in real["check"] and "F" in real["check"], kind=f"bound:{c['rc']['k']}:{'located' if c['located'] else 'plain'}")
        # direct oracle: a bound provider answers only where the bounding predicate and its own checker both hold
        if c["located"] and c["rc"]["k"] in ("always", "located"):
            tb = "".join(real_check(bounding, rs) for rs in reals)
            to = run_rc(own)
            for i, (x, y, z) in enumerate(zip(tb, to, real["check"])):
                if x in "TF" and y in "TF" and z != ("T" if x == "T" and y == "T" else "F"):
                    ctx.fail("bound:conjunction", f"bound checker says {z} on {show_stack(u, stacks[i])}; bounding predicate {x}, "
                             f"provider's own checker {y}", {"suite": "bound", "case": c, "stack": stacks[i]})
                    break
        if rep is None:
            continue
        n += 1
        if rep.get("ok") != real:
            d += 1
            ctx.disagree("bound", c, real, rep)

    # the public facade: bound(pred, loader(own, f)) and bound_by_any
    C, A = u.cls["C"], u.cls["A"]
    for pred_e, own_e in [(e_ty(u.named["A"]), e_str("a")), (e_getattr(e_getitem(E_P, e_ty(u.named["C"])), "a"), e_ty(u.named["G"])),
                          (e_str("a.*"), E_ANY), (e_invert(e_getitem(E_P, e_ty(u.named["Pr"]))), e_ty(u.named["PrImpl"]))]:
        prov = bound(u.real_value(pred_e), loader(u.real_value(own_e), lambda x: x))
        (req_cls, rc, _h), = prov.get_request_handlers()
        want = {"k": "located", "c": {"k": "and", "cs": [u.json_checker(u.lsf.create_loc_stack_checker(u.real_value(pred_e))),
                                                          u.json_checker(u.lsf.create_loc_stack_checker(u.real_value(own_e)))]}}
        ctx.note_case({"bound-facade": [pred_e, own_e]}, nontrivial=True, kind="bound:facade")
        if enc_rc(rc) != want:
            ctx.fail("bound:facade", f"bound({show(u, pred_e)}, loader({show(u, own_e)}, f)) is checked by {enc_rc(rc)}, not by the "
                     "conjunction of both predicates", {"suite": "bound-facade", "pred": pred_e, "own": own_e})
    any_cases = [[], [e_ty(u.named["C"])], [e_ty(u.named["C"]), e_str("a")], [e_str("a.*"), e_ty(u.named["A"]), E_ANY],
                 [e_ty(u.named["T"])], [e_ty(u.named["C"]), E_P]]
    reps = drv.batch([{"op": "setup", "world": u.world(), "stacks": []}] + [{"op": "bound_by_any", "exprs": es} for es in any_cases])[1:] \
        if drv else [None] * len(any_cases)
    inner = loader(int, int)
    for es, rep in zip(any_cases, reps):
        try:
            prov = bound_by_any([u.real_value(e) for e in es], inner)
            real = {"checker": None if prov is inner else u.json_checker(prov._loc_stack_checker)}
        except (ValueError, TypeError, AttributeError) as ex:
            real = {"exc": type(ex).__name__}
        ctx.note_case({"bound_by_any": es}, nontrivial=len(es) > 1, kind="bound:by_any")
        if rep is not None:
            n += 1
            if rep.get("ok") != real:
                d += 1
                ctx.disagree("bound", {"bound_by_any": es}, real, rep)
    if drv:
        ctx.suite("bound", n, d)


# ---------------------------------------------------------------------------
# end to end: Retort(recipe=[loader(pred, marker)]) / dumper(pred, marker)
# ---------------------------------------------------------------------------

MARK, DFLT = "MARK", "dflt"


class E2E:
    """Models whose fields sit at the probed locations.  The location stacks are not assumed: a spy checker placed
    first in the recipe records every stack the retort asks about."""

    def __init__(self, u: Universe):
        self.u = u
        c = u.cls
        self.leaves = [c["C"], c["CSub"], c["AImpl"], c["PrImpl"], c["G"][int], c["G"][str]]
        self.data_in = {"a": 0, "b": 0, "ab": 0, "inner": {"a": 0, "b": 0, "ab": 0}, "items": [0], "g": 0}
        self.data_out = c["Outer"](a=c["C"](), b=c["PrImpl"](), ab=c["CSub"](), inner=c["Inner"](a=c["C"](), b=c["AImpl"](), ab=c["G"]()),
                                   items=[c["C"]()], g=c["G"]())

    def observe(self, pred, direction):
        """-> (result structure, recorded stacks) or ("exc", name)"""
        from adaptix import Retort, dumper, loader
        u, log = self.u, []
        leaves = self.leaves

        class Spy(u.lsf.LocStackChecker):
            def check_loc_stack(s, mediator, loc_stack):
                log.append(loc_stack)
                return False

        class Leaf(u.lsf.LocStackChecker):
            def check_loc_stack(s, mediator, loc_stack):
                return any(loc_stack.last.type == t for t in leaves)

        mk = loader if direction == "load" else dumper
        retort = Retort(recipe=[mk(Spy(), lambda x: 1 / 0), mk(pred, lambda x: MARK), mk(Leaf(), lambda x: DFLT)])
        if direction == "load":
            res = retort.load(self.data_in, u.cls["Outer"])
        else:
            res = retort.dump(self.data_out)
        return res, log

    def flatten(self, res):
        """path (tuple of field ids / list index marker) -> MARK / DFLT"""
        out = {}

        def walk(x, path):
            if x == MARK or x == DFLT:
                out[path] = x
            elif isinstance(x, dict):
                for k, v in x.items():
                    walk(v, path + (k,))
            elif isinstance(x, list):
                for v in x:
                    walk(v, path + ("[]",))
            elif hasattr(x, "__dataclass_fields__"):
                for k in x.__dataclass_fields__:
                    walk(getattr(x, k), path + (k,))
            elif x is None:
                out[path] = None
            else:
                out[path] = repr(x)
        walk(res, ())
        return out

    @staticmethod
    def path_of(stack_json):
        return tuple(l["f"] if "f" in l else "[]" for l in stack_json[1:])


def suite_e2e(ctx: Ctx, u, drv, exprs):
    e2e = E2E(u)
    from adaptix import P
    # 1. record the stacks a retort really produces (a predicate that matches nothing)
    recorded = {}
    for direction in ("load", "dump"):
        try:
            _res, log = e2e.observe(~P.ANY, direction)
        except Exception as ex:      # the retort cannot serve a plain dataclass at all: the tie is broken, the other
            ctx.disagree("e2e", {"suite": "e2e", "stage": "record", "direction": direction},   # oracles decide
                         f"{type(ex).__name__}: {ex}"[:300], "a retort with a never-matching loader serves the model")
            ctx.suite("e2e", 1, 1)
            return
        recorded[direction] = [[u.json_loc(l) for l in st] for st in log]
    all_stacks = recorded["load"] + recorded["dump"]
    S = Stacks(u, all_stacks)
    spec = PySpec(u, S)
    real = RealTruth(u, S)
    replies = [None] * len(exprs)
    if drv:
        replies = drv.batch([{"op": "setup", "world": u.world(), "stacks": S.stacks}] + [{"op": "pred", "expr": e} for e in exprs])[1:]
    n = d = 0
    for e, rep in zip(exprs, replies):
        kind, checker = u.real_create(e)
        if kind == "exc":
            continue
        for direction in ("load", "dump"):
            stacks = recorded[direction]
            # the documented effect: walking down from the root, the first location the predicate matches is served
            # by the marker; below it nothing is requested
            try:
                m = spec.mask(e)
            except Invalid:
                m = None
            model_m = to_mask(rep["ok"]["spec"]) if rep is not None and "spec" in rep.get("ok", {}) else None

            def predict(mask):
                out = {}
                for st in sorted(stacks, key=len):
                    path = E2E.path_of(st)
                    if any(path[:k] in out and out[path[:k]] == MARK for k in range(len(path))):
                        continue
                    i = S.index[_canon(st)]
                    if mask >> i & 1:
                        out[path] = MARK
                    elif u.objs[st[-1]["t"]] in e2e.leaves:
                        out[path] = DFLT
                return out

            try:
                res, _log = e2e.observe(u.real_value(e), direction)
                seen = e2e.flatten(res)
            except Exception as ex:
                seen = {"exc": type(ex).__name__}
            case = {"suite": "e2e", "direction": direction, "expr": e}
            ctx.note_case(case, nontrivial=MARK in seen.values() and DFLT in seen.values(), kind=f"e2e:{direction}")
            ctx.sample({"suite": "e2e", "direction": direction, "expr": show(u, e), "marked": sorted(".".join(k) for k, v in seen.items() if v == MARK)}, every=53)
            if m is not None:
                want = predict(m)
                if seen != want:
                    ctx.fail("e2e:effect", f"{direction}er({show(u, e)}, marker): marker applied at "
                             f"{sorted('.'.join(k) for k, v in seen.items() if v == MARK) if 'exc' not in seen else seen}, documented meaning "
                             f"gives {sorted('.'.join(k) for k, v in want.items() if v == MARK)}", case)
            if model_m is not None:
                n += 1
                if seen != predict(model_m):
                    d += 1
                    ctx.disagree("e2e", case, {".".join(k): v for k, v in seen.items()} if "exc" not in seen else seen,
                                 {".".join(k): v for k, v in predict(model_m).items()})
    if drv:
        ctx.suite("e2e", n, d)


# ---------------------------------------------------------------------------
# entry points
# ---------------------------------------------------------------------------

def build_universe(ctx: Ctx, u, thorough, n_random_stacks, max_depth):
    locs = exhaustive_locs(u, thorough)
    stacks = []
    if thorough:
        small = locs[:7]
        for n in range(1, 5):
            stacks += [list(t) for t in itertools.product(small, repeat=n)]
    for n in range(1, 4):
        stacks += [list(t) for t in itertools.product(locs, repeat=n)]
    stacks += [rand_stack(u, ctx.rng, max_depth) for _ in range(n_random_stacks)]
    return Stacks(u, stacks)


def algebra_operands(u):
    C, A, Pr, G = (e_ty(u.named[n]) for n in ("C", "A", "Pr", "G"))
    pats = [e_getitem(E_P, C), e_getitem(E_P, A), e_getattr(E_P, "a"), e_getattr(e_getitem(E_P, C), "a"),
            e_getitem(e_getattr(e_getitem(E_P, A), "b"), Pr), e_getitem(E_P, e_str("a.*")), e_tuple(E_P, [C, G]),
            e_invert(e_getattr(E_P, "b")), e_generic_arg(E_P, 0, C)]
    chks = [E_ANY, e_create(A), e_create(e_str("b")), e_user(0), e_build(e_getattr(e_getitem(E_P, G), "ab"))]
    return pats, chks


def pattern_reuse_probes(ctx: Ctx):
    """a P chain is a value: deriving a longer pattern from a pattern OBJECT that has already been used as a predicate (its
    checker was built, it took part in | & ^ ~, it was given to loader / name_mapping) denotes the same predicate as the chain
    written inline from fresh objects"""
    import dataclasses

    from adaptix import P, Retort, loader, name_mapping
    from adaptix._internal.provider.loc_stack_filtering import create_loc_stack_checker

    @dataclasses.dataclass
    class RUser:
        name: str
        nick: str

    @dataclasses.dataclass
    class RHolder:
        user: RUser
    rng = ctx.rng
    uses = {
        "build": lambda p: create_loc_stack_checker(p), "or": lambda p: p | P[int], "and": lambda p: p & P[RUser], "invert": lambda p: ~p,
        "xor": lambda p: p ^ P[str], "loader": lambda p: loader(p, lambda x: x), "name_mapping": lambda p: name_mapping(p, skip=[]),
        "twice": lambda p: (create_loc_stack_checker(p), create_loc_stack_checker(p)),
    }
    bases = {"P[RUser]": lambda: P[RUser], "P[RHolder].user": lambda: P[RHolder].user, "P[RHolder]": lambda: P[RHolder],
             "P[RUser, RHolder]": lambda: P[RUser, RHolder]}
    derivations = {
        ".name": lambda p: p.name, "['name']": lambda p: p["name"], "['name', 'nick']": lambda p: p["name", "nick"],
        "+ P.name": lambda p: p + P.name, "+ P[str]": lambda p: p + P[str], ".generic_arg(0, int)": lambda p: p.generic_arg(0, int),
        "[RUser]": lambda p: p[RUser], ".user.name": lambda p: p.user.name,
    }
    from adaptix._internal.model_tools.definitions import NoDefault
    from adaptix._internal.provider import loc_stack_filtering as lsf
    from adaptix._internal.provider import location as L

    def fld(tp, name):
        return L.InputFieldLoc(type=tp, field_id=name, default=NoDefault(), metadata={}, is_required=True)
    th = L.TypeHintLoc
    stacks = [lsf.LocStack(*locs) for locs in (
        [th(type=RUser)], [th(type=RUser), fld(str, "name")], [th(type=RUser), fld(str, "nick")], [th(type=int), fld(str, "name")],
        [th(type=RHolder)], [th(type=RHolder), fld(RUser, "user")], [th(type=RHolder), fld(RUser, "user"), fld(str, "name")],
        [th(type=RHolder), fld(RUser, "user"), fld(str, "nick")], [th(type=str)], [th(type=RUser), fld(str, "name"), fld(str, "name")],
        [th(type=RUser), L.GenericParamLoc(type=int, generic_pos=0)], [th(type=RUser), fld(RUser, "user")],
        [th(type=RUser), th(type=RUser)], [th(type=RHolder), th(type=RUser)], [th(type=RUser), fld(str, "name"), th(type=str)],
    )]
    for bname, mk in bases.items():
        for uname, use in uses.items():
            for dname, derive in derivations.items():
                case = {"suite": "pattern-reuse", "base": bname, "use": uname, "derive": dname}
                ctx.note_case(case, nontrivial=True, kind="pattern-reuse")
                try:
                    fresh = create_loc_stack_checker(derive(mk()))
                    used = mk()
                    use(used)
                    reused = create_loc_stack_checker(derive(used))
                except Exception as e:  # noqa: BLE001
                    ctx.dist[f"pattern-reuse:raises:{type(e).__name__}"] += 1
                    continue
                a = "".join(real_check(fresh, st) for st in stacks)
                b = "".join(real_check(reused, st) for st in stacks)
                if a != b:
                    ctx.fail("pattern-reuse:derived-from-used-pattern", f"{bname}{dname} derived from a {bname} object that was used before "
                             f"({uname}) answers {b} on the probe stacks; written inline it answers {a}", case)
                    return
    # end to end
    user = P[RUser]
    r = Retort(recipe=[name_mapping(user, skip=[]), loader(user.name, str.upper)])
    try:
        got = r.load({"user": {"name": "alice", "nick": "al"}}, RHolder)
        if got != RHolder(RUser("ALICE", "al")):
            ctx.fail("pattern-reuse:derived-from-used-pattern", f"loader(user.name, str.upper) after name_mapping(user, ...) gives {got!r}",
                     {"suite": "pattern-reuse", "probe": "retort"})
    except Exception as e:  # noqa: BLE001
        ctx.fail("pattern-reuse:derived-from-used-pattern", f"loader(user.name, str.upper) after name_mapping(user, ...) raises "
                 f"{type(e).__name__}", {"suite": "pattern-reuse", "probe": "retort"})
    del rng


def run(ctx: Ctx):
    pattern_reuse_probes(ctx)
    u = Universe()
    drv = None
    if ctx.driver_ok:
        try:
            drv = Driver("drv_c10")
        except InfraError:
            drv = None
    thorough = ctx.tier == "thorough"
    S = build_universe(ctx, u, thorough, n_random_stacks=ctx.budget(250, 1500), max_depth=6)
    spec, real = PySpec(u, S), RealTruth(u, S)
    ctx.extra["universe"] = {"stacks": len(S), "objects": len(u.objs), "norms": len(u.norms), "field_ids": u.field_ids}

    # oracle tables are what the interpreter says: identifiers match by equality under the regex engine too
    for s_ in u.ident:
        for f in u.field_ids:
            if (re.fullmatch(s_, f) is not None) != (s_ == f):
                raise InfraError(f"regex oracle: identifier {s_!r} does not behave as a literal on {f!r}")

    exprs = exhaustive_exprs(u, thorough)
    n_exh = len(exprs)
    rnd = []
    while len(rnd) < ctx.budget(700, 8000):
        e = rand_expr(u, ctx.rng, ctx.rng.randint(1, 5), hostile=0.12)
        if in_model(e, u):
            rnd.append(e)
    suite_exprs(ctx, u, S, drv, exprs, spec, real, "exhaustive")
    suite_exprs(ctx, u, S, drv, rnd, spec, real, "random")

    pats, chks = algebra_operands(u)
    type_atoms = [e_ty(u.named[n]) for n in ("C", "A", "Pr", "G", "G[int]", "list[C]", "Union")] + [e_str("a"), e_str("a.*"), E_ANY]
    oracle_algebra(ctx, u, S, real, pats + chks, FIELD_IDS + ["zz"], type_atoms, [E_P] + pats[:6])

    suite_checker_classes(ctx, u, S, drv, n_random=ctx.budget(1200, 12000))
    suite_bound(ctx, u, S, drv, n_random=ctx.budget(300, 3000))
    e2e_exprs = [e for e in exprs if nesting(e) <= 1]
    pool = exprs + rnd
    e2e_exprs += [pool[ctx.rng.randrange(len(pool))] for _ in range(ctx.budget(120, 1500))]
    e2e_exprs += [e_getattr(e_getitem(E_P, e_ty(u.named["Outer"])), "a"), e_getattr(e_getitem(E_P, e_ty(u.named["Inner"])), "a"),
                  e_getitem(e_getattr(E_P, "items"), e_ty(u.named["C"])), e_getattr(e_getattr(e_getitem(E_P, e_ty(u.named["Outer"])), "inner"), "ab"),
                  e_generic_arg(e_getitem(E_P, e_ty(u.named["List[C]"])), 0, e_ty(u.named["C"])), e_ty(u.named["Inner"]), e_ty(u.named["list"])]
    suite_e2e(ctx, u, drv, e2e_exprs)
    ctx.extra["exhaustive"] = False
    ctx.extra["exhaustive_part"] = (f"{n_exh} predicate expressions = all of nesting <= 2 over the atoms x {len(S)} stacks "
                                    f"(all of depth <= 3 over {len(exhaustive_locs(u, thorough))} locations"
                                    + (", all of depth <= 4 over 7 locations" if thorough else "") + ", plus random stacks and their prefixes)")


def search(ctx: Ctx):
    """Directed search after a broken tie: the disagreeing cases first, then a larger budget of the direct oracles."""
    u = Universe()
    S = build_universe(ctx, u, False, n_random_stacks=1500, max_depth=7)
    spec, real = PySpec(u, S), RealTruth(u, S)
    for d in ctx.disagreements[:300]:
        e = d["case"].get("expr") if isinstance(d["case"], dict) else None
        if e is not None:
            oracle_meaning(ctx, u, S, spec, real, e)
    if ctx.failures:
        return
    suite_exprs(ctx, u, S, None, exhaustive_exprs(u, True), spec, real, "search")
    rnd = []
    while len(rnd) < 6000:
        e = rand_expr(u, ctx.rng, ctx.rng.randint(1, 6), hostile=0.1)
        if in_model(e, u):
            rnd.append(e)
    suite_exprs(ctx, u, S, None, rnd, spec, real, "search")
    pats, chks = algebra_operands(u)
    type_atoms = [e_ty(u.named[n]) for n in ("C", "A", "Pr", "G", "G[int]", "list[C]", "Union")] + [e_str("a"), e_str("a.*"), E_ANY]
    oracle_algebra(ctx, u, S, real, pats + chks, FIELD_IDS + ["zz"], type_atoms, [E_P] + pats[:6])
    suite_checker_classes(ctx, u, S, None, n_random=6000)
    suite_bound(ctx, u, S, None, n_random=1500)
    if not ctx.failures:
        suite_e2e(ctx, u, None, [e for e in exhaustive_exprs(u, False) if nesting(e) <= 1])


def replay(ctx: Ctx, case) -> bool:
    u = Universe()
    before = len(ctx.failures)
    suite = case.get("suite")
    if suite == "meaning":
        S = Stacks(u, [case["stack"]] if "stack" in case else [[loc(u, "TypeHintLoc", "C")]])
        oracle_meaning(ctx, u, S, PySpec(u, S), RealTruth(u, S), case["expr"])
    elif suite == "algebra":
        S = build_universe(ctx, u, False, 0, 1) if "stack" not in case else Stacks(u, [case["stack"]])
        real = RealTruth(u, S)
        ops = [case[k] for k in ("a", "b", "p", "q") if k in case and isinstance(case[k], dict)]
        names = [case["n"]] if "n" in case else []
        oracle_algebra(ctx, u, S, real, ops if case["law"] in ("or", "and", "xor", "invert") else [], names,
                       [case[k] for k in ("a", "b") if k in case] if case["law"] in ("P[A]-A", "add-getattr", "tuple-or") else [],
                       [case[k] for k in ("p", "q") if k in case])
    elif suite == "checker-classes":
        ch = u.real_checker(case["checker"])
        t = real_check(ch, u.real_stack(case["stack"]))
        try:
            want = py_checker(u, case["checker"], case["stack"])
        except (IndexError, TypeError):
            want = None
        if want is not None and t != ("T" if want else "F"):
            ctx.fail("checker-class", "still differs", case)
    elif suite in ("bound", "bound-facade"):
        S = Stacks(u, [case["stack"]]) if "stack" in case else build_universe(ctx, u, False, 0, 1)
        suite_bound(ctx, u, S, None, n_random=0)
        if suite == "bound":
            c = case["case"]
            from adaptix import loader
            from adaptix._internal.morphing.request_cls import LoaderRequest
            from adaptix._internal.provider.located_request import LocatedRequestChecker, LocStackBoundingProvider
            from adaptix._internal.provider.request_checkers import AlwaysTrueRequestChecker
            b = u.real_checker(c["bounding"])
            own = AlwaysTrueRequestChecker() if c["rc"]["k"] == "always" else LocatedRequestChecker(u.real_checker(c["rc"]["c"]))
            res = LocStackBoundingProvider(b, loader(int, int))._process_request_checker(LoaderRequest, own)
            rs = S.real[S.index[_canon(case["stack"])]]
            rq = LoaderRequest(loc_stack=rs)
            if bool(res.check_request(None, rq)) != (bool(b.check_loc_stack(None, rs)) and bool(own.check_request(None, rq))):
                ctx.fail("bound:conjunction", "still differs", case)
    elif suite == "e2e":
        suite_e2e(ctx, u, None, [case["expr"]])
    else:
        return False
    return len(ctx.failures) > before
