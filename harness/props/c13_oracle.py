"""C13 helper: (a) the real side — build providers / stubs from a JSON case and run the library;
(b) `py_spec` — a Python transcription of the documented linking algorithm (tutorial "Linking
algorithm", "Fields linking", extended usage "Link function", "Using default value for fields"),
written independently of the Lean text; it is the direct oracle of the property.
"""
import inspect

from harness.props.c13_world import FACTORY_KIND, LEAF_ANY, LEAF_PY, SUBCLASS_PAIRS, App, Universe

FACTORY_LITERALS = {"list": {"v": "seq", "kind": "list", "xs": []}, "dict": {"v": "dict", "kvs": []},
                    "tuple": {"v": "seq", "kind": "tuple", "xs": []},
                    "str": {"v": "atom", "tag": "str", "repr": "''"},
                    "bytes": {"v": "atom", "tag": "bytes", "repr": "b''"}, "NoneType": {"v": "none"}}
FACTORY_PY = {"list": list, "dict": dict, "tuple": tuple, "str": str, "bytes": bytes, "NoneType": type(None)}


# ---------------------------------------------------------------------------
# real side
# ---------------------------------------------------------------------------

class RealCase:
    def __init__(self, case):
        self.case = case
        self.u = Universe(case["classes"])
        self.funcs = {}

    # user functions -----------------------------------------------------------
    def one_arg_func(self, fid):
        def f(x):
            return App(fid, [x], [])
        f.__name__ = f"uf{fid}"
        return f

    def factory(self, prov):
        if prov.get("builtin"):
            return FACTORY_PY[prov["builtin"]]
        fid = prov["factory"]

        def fac():
            return App(fid, [], [])
        fac.__name__ = f"fac{fid}"
        return fac

    def link_func(self, prov):
        """a function with the given parameter list returning App(f, positional, keywords)"""
        ns = {"App": App, "Any": LEAF_PY[LEAF_ANY]}
        pos, kw, sig = [], [], []
        seen_kw = False
        for i, p in enumerate(prov["params"]):
            ann = ""
            if p.get("annotated"):
                ns[f"_a{i}"] = self.u.py_type(p["ty"])
                ann = f": _a{i}"
            if p["kind"] == "kw_only":
                if not seen_kw:
                    sig.append("*")
                    seen_kw = True
                kw.append(p["name"])
            else:
                pos.append(p["name"])
            sig.append(p["name"] + ann)
        if any(p["kind"] == "pos_only" for p in prov["params"]):
            n = sum(1 for p in prov["params"] if p["kind"] == "pos_only")
            sig.insert(n, "/")
        name = prov.get("fname") or f"lf{prov['f']}"
        src = (f"def {name}({', '.join(sig)}):\n"
               f"    return App({prov['f']}, [{', '.join(pos)}], [{', '.join(f'({k!r}, {k})' for k in kw)}])\n")
        exec(src, ns)  # noqa: S102
        self.funcs[id(ns[name])] = (prov["f"], ns[name])
        return ns[name]

    # predicates ---------------------------------------------------------------
    def pred(self, j):
        from adaptix import P
        from adaptix.conversion import from_param
        k = j["p"]
        if k == "name":
            return j["n"]
        if k == "names":
            return "|".join(j["ns"])
        if k == "from_param":
            return from_param(j["n"])
        if k == "any":
            return P.ANY
        if k == "origin":
            return self.origin_py(j["o"])
        if k == "end":
            pat = P
            for el in j["stack"]:
                if el["p"] == "garg":     # P[...].generic_arg(pos, pred)
                    pat = pat.generic_arg(el["pos"], self._as_inner_pred(self.pred(el["q"])))
                else:
                    pat = pat[self.pred(el)]
            return pat
        if k == "garg":                   # P.generic_arg(pos, pred): the position whatever the parent is
            return P.generic_arg(j["pos"], self._as_inner_pred(self.pred(j["q"])))
        if k == "or":
            ps = [self._as_pattern(self.pred(p)) for p in j["ps"]]
            out = ps[0]
            for p in ps[1:]:
                out = out | p
            return out
        if k == "not":
            return ~self._as_pattern(self.pred(j["q"]))
        raise ValueError(k)

    @staticmethod
    def _as_inner_pred(p):
        """a predicate usable *inside* a pattern element (a LocStackPattern is refused there)"""
        from adaptix._internal.provider.loc_stack_filtering import LocStackPattern
        return p.build_loc_stack_checker() if isinstance(p, LocStackPattern) else p

    def _as_pattern(self, p):
        from adaptix import P
        from adaptix._internal.provider.loc_stack_filtering import LocStackChecker, LocStackPattern
        if isinstance(p, (LocStackChecker, LocStackPattern)):
            return p
        return P[p]

    def origin_py(self, o):
        if o["o"] == "leaf":
            return LEAF_PY[o["n"]]
        if o["o"] == "cls":
            return self.u.real[o["c"]]
        if o["o"] == "dict":
            return dict
        if o["o"] == "union":
            import typing
            return typing.Union
        if o["o"] == "iter" and o["k"] in ("list", "tuple", "deque"):      # the concrete origins (ExactOriginLSC)
            import collections
            return {"list": list, "tuple": tuple, "deque": collections.deque}[o["k"]]
        raise ValueError(o)

    # providers ----------------------------------------------------------------
    def provider(self, prov):
        from adaptix import conversion as cv
        k = prov["k"]
        if k == "link":
            if prov.get("coercer") is not None:
                return cv.link(self.pred(prov["src"]), self.pred(prov["dst"]), coercer=self.one_arg_func(prov["coercer"]))
            return cv.link(self.pred(prov["src"]), self.pred(prov["dst"]))
        if k == "link_constant":
            if "factory" in prov and prov["factory"] is not None:
                return cv.link_constant(self.pred(prov["dst"]), factory=self.factory(prov))
            return cv.link_constant(self.pred(prov["dst"]), value=self.u.from_json(prov["value"]))
        if k == "link_function":
            return cv.link_function(self.link_func(prov), self.pred(prov["dst"]))
        if k == "policy":
            fn = cv.allow_unlinked_optional if prov["allowed"] else cv.forbid_unlinked_optional
            if prov.get("pred") is None:
                return fn()
            if prov["pred"]["p"] == "or" and prov.get("spread"):
                return fn(*[self.pred(p) for p in prov["pred"]["ps"]])
            return fn(self.pred(prov["pred"]))
        if k == "coercer":
            return cv.coercer(self.pred(prov["src"]), self.pred(prov["dst"]), self.one_arg_func(prov["f"]))
        raise ValueError(k)

    # stub / converter ---------------------------------------------------------
    def make_stub(self):
        sig = self.case["sig"]
        ns = {}
        parts = []
        kinds = [p["kind"] for p in sig["params"]]
        for i, p in enumerate(sig["params"]):
            if p["kind"] == "kw_only" and (i == 0 or kinds[i - 1] not in ("kw_only", "var_pos")):
                parts.append("*")
            ns[f"_t{i}"] = self.u.py_type(p["ty"])
            s = f"{p['name']}: _t{i}"
            if p["kind"] == "var_pos":
                s = "*" + p["name"]
            elif p["kind"] == "var_kw":
                s = "**" + p["name"]
            elif p.get("default") is not None:
                ns[f"_d{i}"] = self.u.from_json(p["default"])
                s += f" = _d{i}"
            parts.append(s)
            if p["kind"] == "pos_only" and (i + 1 == len(kinds) or kinds[i + 1] != "pos_only"):
                parts.append("/")
        ns["_ret"] = self.u.py_type(sig["ret"])
        name = self.case.get("fname") or "conv"
        src = f"def {name}({', '.join(parts)}) -> _ret:\n    ...\n"
        exec(src, ns)  # noqa: S102
        return ns[name]

    def create(self):
        """-> ("ok", converter, stub|None) | ("not_found",) | ("error", exc class name)"""
        from adaptix import ProviderNotFoundError
        from adaptix import conversion as cv
        case = self.case
        recipe = [self.provider(p) for p in case["recipe"]]
        api = case.get("api", "impl_converter")
        sig = case["sig"]
        stub = None
        try:
            if api in ("get_converter", "retort.get_converter", "convert"):
                src_t, dst_t = self.u.py_type(sig["params"][0]["ty"]), self.u.py_type(sig["ret"])
                if api == "get_converter":
                    conv = cv.get_converter(src_t, dst_t, recipe=recipe, name=case.get("fname"))
                elif api == "retort.get_converter":
                    k = case.get("split", 0)
                    retort = cv.ConversionRetort(recipe=recipe[k:])
                    conv = retort.get_converter(src_t, dst_t, recipe=recipe[:k], name=case.get("fname"))
                else:
                    def conv(src_obj, _dst=dst_t, _recipe=recipe):
                        return cv.convert(src_obj, _dst, recipe=_recipe)
            else:
                stub = self.make_stub()
                if api == "impl_converter":
                    conv = cv.impl_converter(recipe=recipe)(stub) if recipe or case.get("force_paren") \
                        else cv.impl_converter(stub)
                elif api == "retort.impl_converter":
                    k = case.get("split", 0)
                    retort = cv.ConversionRetort(recipe=recipe[k:])
                    conv = retort.impl_converter(recipe=recipe[:k])(stub) if k else retort.impl_converter(stub)
                elif api == "retort.extend":
                    k = case.get("split", 0)
                    retort = cv.ConversionRetort(recipe=recipe[k:]).extend(recipe=recipe[:k])
                    conv = retort.impl_converter(stub)
                else:
                    raise ValueError(api)
        except ProviderNotFoundError:
            return ("not_found",)
        except Exception as e:  # noqa: BLE001
            return ("error", type(e).__name__)
        return ("ok", conv, stub)

    # histories: several requests on one retort ---------------------------------------------
    def new_retort(self, recipe_json):
        from adaptix import conversion as cv
        return cv.ConversionRetort(recipe=[self.provider(p) for p in recipe_json])

    def extend_retort(self, retort, recipe_json):
        return retort.extend(recipe=[self.provider(p) for p in recipe_json])

    def request(self, retort, step, sig):
        """one request of a history, made exactly as a user writes it: `retort` is a ConversionRetort, or None
        for the module-level functions of adaptix.conversion (the global retort); the providers of the per-call
        recipe are built anew for every request. Same result triple as `create`."""
        from adaptix import ProviderNotFoundError
        from adaptix import conversion as cv
        target = cv if retort is None else retort
        recipe = [self.provider(p) for p in step["recipe"]]
        src_t, dst_t = self.u.py_type(sig["params"][0]["ty"]), self.u.py_type(sig["ret"])
        op = step["op"]
        stub = None
        try:
            if op == "get":
                if recipe:
                    conv = target.get_converter(src_t, dst_t, recipe=recipe, name=step.get("name"))
                else:
                    conv = target.get_converter(src_t, dst_t, name=step.get("name"))
            elif op == "convert":
                if recipe:
                    def conv(src_obj, _dst=dst_t, _recipe=recipe):
                        return target.convert(src_obj, _dst, recipe=_recipe)
                else:
                    def conv(src_obj, _dst=dst_t):
                        return target.convert(src_obj, _dst)
            elif op == "impl":
                self.case = {**self.case, "sig": sig, "fname": step.get("name")}
                stub = self.make_stub()
                conv = target.impl_converter(recipe=recipe)(stub) if recipe else target.impl_converter(stub)
            else:
                raise ValueError(op)
        except ProviderNotFoundError:
            return ("not_found",)
        except Exception as e:  # noqa: BLE001
            return ("error", type(e).__name__)
        return ("ok", conv, stub)

    def observe_linkings(self):
        """the linkings ModelCoercerProvider fetches for the *top-level* model pair, observed by a subclass
        placed at the head of the recipe (it is the same provider, only recording); None when no converter"""
        from adaptix import ProviderNotFoundError
        from adaptix import conversion as cv
        from adaptix._internal.conversion.model_coercer_provider import ModelCoercerProvider
        from adaptix._internal.conversion.request_cls import ConstantLinking, FieldLinking, FunctionLinking
        from adaptix._internal.model_tools.definitions import DefaultValue
        seen = {}
        real = self

        def source_json(request, source):
            if source in request.ctx.loc_stacks:
                return {"s": "param", "i": request.ctx.loc_stacks.index(source), "name": source.last.field_id}
            return {"s": "field", "id": source.last.field_id}

        def linking_json(request, res):
            if res is None:
                return {"l": "skipped"}
            lk = res.linking
            if isinstance(lk, FieldLinking):
                return {"l": "field", "src": source_json(request, lk.source), "coercer": lk.coercer is not None}
            if isinstance(lk, ConstantLinking):
                if isinstance(lk.constant, DefaultValue):
                    return {"l": "const", "value": real.u.to_json(lk.constant.value)}
                return {"l": "factory"}
            if isinstance(lk, FunctionLinking):
                args = []
                for sp in lk.param_specs:
                    if isinstance(sp.linking.linking, FieldLinking):
                        args.append({"name": sp.field.id, "src": source_json(request, sp.linking.linking.source)})
                    else:
                        args.append({"name": sp.field.id, "s": "model"})
                return {"l": "func", "f": real.funcs.get(id(lk.func), (None,))[0], "args": args}
            return {"l": "?"}

        class Recorder(ModelCoercerProvider):
            def _fetch_linkings(self, mediator, request, dst_shape, src_shape):
                out = list(super()._fetch_linkings(mediator, request, dst_shape, src_shape))
                if len(request.dst) == 1:
                    seen["top"] = [[f.id, linking_json(request, res)] for f, res in out]
                return out

        recipe = [self.provider(p) for p in self.case["recipe"]]
        stub = self.make_stub()
        try:
            cv.ConversionRetort(recipe=[*recipe, Recorder()]).impl_converter(stub)
        except ProviderNotFoundError:
            return None
        return seen.get("top")

    def call(self, conv, call):
        args = [self.u.from_json(a) for a in call["args"]]
        kwargs = {k: self.u.from_json(v) for k, v in call["kwargs"]}
        before = [self.u.to_json(a) for a in args] + [self.u.to_json(v) for v in kwargs.values()]
        try:
            res = conv(*args, **kwargs)
        except Exception as e:  # noqa: BLE001
            out = {"exc": type(e).__name__}
        else:
            out = {"value": self.u.to_json(res)}
        after = [self.u.to_json(a) for a in args] + [self.u.to_json(v) for v in kwargs.values()]
        out["src_unchanged"] = before == after
        return out

    def signature_report(self, conv, stub):
        """None when the produced function has the stub's signature, else a description"""
        try:
            s_conv, s_stub = inspect.signature(conv), inspect.signature(stub)
        except Exception as e:  # noqa: BLE001
            return f"inspect.signature raised {type(e).__name__}"
        if list(s_conv.parameters) != list(s_stub.parameters):
            return f"parameters {list(s_conv.parameters)} != {list(s_stub.parameters)}"
        for name, p in s_stub.parameters.items():
            q = s_conv.parameters[name]
            if p.kind != q.kind or p.annotation is not q.annotation and p.annotation != q.annotation:
                return f"parameter {name}: {q} != {p}"
            if p.default is not q.default:
                return f"default of {name} is not the stub's object"
        if s_conv.return_annotation != s_stub.return_annotation:
            return "return annotation differs"
        if getattr(conv, "__name__", None) != stub.__name__:
            return f"__name__ {getattr(conv, '__name__', None)!r} != {stub.__name__!r}"
        return None


# ---------------------------------------------------------------------------
# Python transcription of the documented algorithm (the direct oracle)
# ---------------------------------------------------------------------------

class Undefined(Exception):
    """the documented algorithm does not define a value (ill-typed input); the oracle then demands nothing"""


class Unlinked(Undefined):
    """the documented rules leave a destination field without a link (required, or optional while the policy
    forbids skipping): the documentation says no converter exists then.
    `below_same_tagged_hint`: the model pair that cannot be linked is (or lies below) a source / destination pair
    declared with one and the same *tagged* hint (`Annotated[M, ...]`, `NotRequired[M]`): the call site where the
    library, instead of refusing, lets SameTypeCoercerProvider pass the whole value as is"""

    def __init__(self, msg, below_same_tagged_hint=False):
        super().__init__(msg)
        self.below_same_tagged_hint = below_same_tagged_hint


class Spec:
    """Locations are dicts {"kind","ty","field","pos"}; stacks are lists, bottom first (as in adaptix)."""

    def __init__(self, case, universe: Universe, tagged_as_is=False):
        self.case = case
        self.u = universe
        # NOT the documented algorithm: with tagged_as_is the transcription passes a model declared with the same
        # tagged hint on both sides through unchanged. Used only to *name* a failure already established against
        # the documented algorithm (signature suffix `same-tagged-hint-passed-as-is`), never to accept a result.
        self.tagged_as_is = tagged_as_is
        self.cls = universe.logical
        self.recipe = case["recipe"]
        self.sig = case["sig"]
        self.extra = self.sig["params"][1:]
        # evidence: which regions of the value space the conversions of this case went through
        import collections
        self.stats = collections.Counter()
        self.tag_decided = False

    @staticmethod
    def falsy(value):
        """Python treats the value as false although it is not None"""
        if value is None:
            return False
        try:
            return not value
        except Exception:  # noqa: BLE001
            return False

    def real_coercer_needed(self, src_stack, dst_stack):
        """the pair at the top of the stacks is converted by a real coercer (user coercer, model, iterable, dict,
        Optional around one of those), not passed as is"""
        s, d = src_stack[-1]["ty"], dst_stack[-1]["ty"]
        if self.user_coercer(src_stack, dst_stack) is not None:
            return True
        if self.is_model(s) and self.is_model(d):
            return True
        if (s["t"], d["t"]) in (("iter", "iter"), ("dict", "dict")):
            return True
        if s["t"] == "opt" and d["t"] == "opt":
            gp = lambda ty: {"kind": "gparam", "ty": ty, "pos": 0}  # noqa: E731
            return self.real_coercer_needed(src_stack + [gp(s["a"])], dst_stack + [gp(d["a"])])
        return False

    # -- predicates --------------------------------------------------------
    @staticmethod
    def origin_of(ty):
        t = ty["t"]
        if t == "leaf":
            return {"o": "leaf", "n": ty["n"]}
        if t == "model":
            return {"o": "cls", "c": ty["cls"]}
        if t == "opt":
            return {"o": "union"}
        if t == "iter":
            return {"o": "iter", "k": ty["o"]}
        return {"o": "dict"}

    def pred(self, p, stack, hide=False):
        """`hide`: the last location carries a type hint tag (NotRequired[T] / Annotated[T, ...]) and the request is
        posed with the declared hint - a predicate on the *type* of that location sees the tag, not T (the origin of
        NotRequired[str] is not str); names, ANY and the enclosing locations are unaffected"""
        k = p["p"]
        last = stack[-1]
        is_field = last["kind"] in ("field", "in", "out", "func")
        if k == "name":
            return is_field and last["field"] == p["n"]
        if k == "names":
            return is_field and last["field"] in p["ns"]
        if k == "from_param":
            return len(stack) == 1 and last.get("field") == p["n"]
        if k == "any":
            return True
        if k == "origin":
            bare = self.origin_of(last["ty"]) == p["o"]
            if hide and bare:
                # the tag changed the truth value of a predicate: the Lean model has no tags, so the request is
                # outside its universe (oracle only, counted)
                self.tag_decided = True
            return not hide and bare
        if k == "garg":       # P.generic_arg(pos, q) = GenericParamLSC(pos) & q: the last location is the pos-th
            #                   type argument of its parent (dict key 0 / value 1, element 0, Optional's type 0)
            return last["kind"] == "gparam" and last["pos"] == p["pos"] and self.pred(p["q"], stack, hide)
        if k == "end":
            els = p["stack"]
            if len(stack) < len(els):
                return False
            return all(self.pred(el, stack[:len(stack) - i], hide and i == 0) for i, el in enumerate(reversed(els)))
        if k == "or":
            return any(self.pred(q, stack, hide) for q in p["ps"])
        if k == "not":
            return not self.pred(p["q"], stack, hide)
        raise ValueError(k)

    # -- type hint tags (Annotated / NotRequired) of a field declaration: invisible to every rule, recorded on
    #    the locations only to name the call site of a failure -----------------------------------------------
    @staticmethod
    def field_tag(cls, f):
        tags = []
        if cls["kind"] == "typeddict" and f.get("not_required"):
            tags.append("NotRequired")
        if f.get("annotated") is not None and not (cls.get("generic") is not None and f.get("tvar")):
            tags.append(f"Annotated:{f['annotated']}")
        return "+".join(tags) or None

    def out_loc(self, cls, f):
        return {"kind": "out", "ty": f["ty"], "field": f["id"], "tag": self.field_tag(cls, f)}

    @staticmethod
    def below_same_tagged_hint(src_stack, dst_stack):
        """some pair of locations the two stacks were extended by together carries the same tagged hint"""
        for s, d in zip(reversed(src_stack), reversed(dst_stack)):
            if s.get("tag") is not None and s.get("tag") == d.get("tag") and s["ty"] == d["ty"]:
                return True
        return False

    # -- linking: which source feeds a destination field -----------------------
    def param_locs(self):
        return [{"kind": "field", "ty": p["ty"], "field": p["name"]} for p in self.extra]

    def link(self, src_stack, src_cls, dst_field_stack):
        """-> ("field", src_field) | ("param", i) , coercer | ("const", prov) | ("func", prov, args) | None"""
        target = dst_field_stack[-1]["field"]
        src_fields = [(f, src_stack + [self.out_loc(src_cls, f)]) for f in src_cls["fields"]]
        params = list(enumerate(self.param_locs()))
        # linking predicates are evaluated on the field locations as declared: a tag (NotRequired / Annotated) hides the
        # type from a predicate on the type, and nothing unwraps it here (unlike the coercer request)
        hd = dst_field_stack[-1].get("tag") is not None
        for prov in self.recipe:
            k = prov["k"]
            if k == "link":
                if not self.pred(prov["dst"], dst_field_stack, hd):
                    continue
                for f, st in src_fields:                      # the fields of the source model ...
                    if self.pred(prov["src"], st, st[-1].get("tag") is not None):
                        return ("field", f, prov.get("coercer"))
                for i, loc in reversed(params):               # ... then the extra parameters, right to left
                    if self.pred(prov["src"], [loc]):
                        return ("param", i, prov.get("coercer"))
                continue
            if k == "link_constant":
                if self.pred(prov["dst"], dst_field_stack, hd):
                    return ("const", prov)
                continue
            if k == "link_function":
                if not self.pred(prov["dst"], dst_field_stack, hd):
                    continue
                args = []
                for idx, p in enumerate(prov["params"]):
                    if p["kind"] == "kw_only":                # keyword-only -> model field of that name
                        cand = [f for f, _ in src_fields if f["id"] == p["name"]]
                        if not cand:
                            return None                       # the error is final: later providers are not asked
                        args.append((p, ("field", cand[-1])))
                    elif idx == 0:
                        args.append((p, ("model",)))          # first positional -> the whole model
                    else:                                     # others -> converter parameter of that name
                        cand = [i for i, loc in params if loc["field"] == p["name"]]
                        if not cand:
                            return None
                        args.append((p, ("param", cand[-1])))
                return ("func", prov, args)
        # default: same name; parameters (right to left) before fields, for top-level destination fields only
        if len(dst_field_stack) == 2:
            for i, loc in reversed(params):
                if loc["field"] == target:
                    return ("param", i, None)
        for f, _ in src_fields:
            if f["id"] == target:
                return ("field", f, None)
        return None

    def unlinked_allowed(self, dst_field_stack):
        for prov in self.recipe:
            if prov["k"] == "policy" and (prov.get("pred") is None or
                                          self.pred(prov["pred"], dst_field_stack, dst_field_stack[-1].get("tag") is not None)):
                return prov["allowed"]
        return False

    # -- values --------------------------------------------------------------
    def read_field(self, data, cls, f):
        if cls["kind"] == "typeddict":
            return data[f["id"]]
        return getattr(data, f["id"])

    def user_coercer(self, src_stack, dst_stack):
        # A field declared NotRequired[T] / Annotated[T, ...] is first requested with the declared hint: recipe entries
        # are asked in order with the tag in place (a predicate on the type T does not hold of the tagged hint; names,
        # ANY and parents do). Only when no entry takes it does the builtin unwrapping provider (last in the recipe) pose
        # the request again for the bare types. So an earlier type-bound coercer can lose to a later type-agnostic one
        # on a tagged field - first match in recipe order for the request as posed (C09 / C10 semantics of predicates).
        hide_s, hide_d = src_stack[-1].get("tag") is not None, dst_stack[-1].get("tag") is not None
        if hide_s or hide_d:
            for prov in self.recipe:
                if prov["k"] == "coercer" and self.pred(prov["src"], src_stack, hide_s) and self.pred(prov["dst"], dst_stack, hide_d):
                    self.stats["val-user-coercer:matched-the-tagged-hint"] += 1
                    return prov["f"]
        for prov in self.recipe:
            if prov["k"] == "coercer" and self.pred(prov["src"], src_stack) and self.pred(prov["dst"], dst_stack):
                return prov["f"]
        return None

    def is_model(self, ty):
        return ty["t"] == "model"

    def coerce(self, value, src_stack, dst_stack, pvals):
        """value converted from the type at src_stack[-1] to the type at dst_stack[-1]"""
        s, d = src_stack[-1]["ty"], dst_stack[-1]["ty"]
        f = self.user_coercer(src_stack, dst_stack)
        if f is not None:
            self.stats["val-user-coercer:" + ("falsy-arg" if self.falsy(value) else "none-arg" if value is None
                                              else "truthy-arg")] += 1
            chosen = next(p for p in self.recipe if p["k"] == "coercer" and p["f"] == f)
            if "garg" in repr(chosen["src"]) or "garg" in repr(chosen["dst"]):
                self.stats["val-user-coercer:chosen-by-generic-position"] += 1
            matching = [p["f"] for p in self.recipe if p["k"] == "coercer" and self.pred(p["src"], src_stack)
                        and self.pred(p["dst"], dst_stack)]
            if len(matching) > 1:
                self.stats["val-user-coercer:shadows-a-later-matching-coercer"] += 1
            return App(f, [value], [])
        if self.is_model(s) and self.is_model(d):
            if self.tagged_as_is and self.below_same_tagged_hint(src_stack[-1:], dst_stack[-1:]):
                return value
            if self.falsy(value):
                self.stats["val-model:falsy-instance"] += 1
            return self.convert_model(value, src_stack, dst_stack, pvals)
        gp = lambda ty, pos: {"kind": "gparam", "ty": ty, "pos": pos}  # noqa: E731
        if s["t"] == "iter" and d["t"] == "iter":
            self.stats["val-iter:" + ("empty" if self.falsy(value) else "non-empty")] += 1
            factory = {"list": list, "tuple": tuple, "deque": __import__("collections").deque}[FACTORY_KIND[d["o"]]]
            return factory(self.coerce(x, src_stack + [gp(s["a"], 0)], dst_stack + [gp(d["a"], 0)], pvals)
                           for x in value)
        if s["t"] == "dict" and d["t"] == "dict":
            self.stats["val-dict:" + ("empty" if self.falsy(value) else "non-empty")] += 1
            if value and (s["k"], d["k"]) == (s["v"], d["v"]):
                # key and value carry the same pair of types; which recipe entry serves each position is still
                # decided per position (by this transcription's own evaluation of the predicates)
                fk = self.user_coercer(src_stack + [gp(s["k"], 0)], dst_stack + [gp(d["k"], 0)])
                fv = self.user_coercer(src_stack + [gp(s["v"], 1)], dst_stack + [gp(d["v"], 1)])
                self.stats["val-dict-equal-key-and-value-pair:" +
                           ("same-coercer-at-both-positions" if fk == fv else "different-coercers-by-position")] += 1
            return {self.coerce(k, src_stack + [gp(s["k"], 0)], dst_stack + [gp(d["k"], 0)], pvals):
                    self.coerce(x, src_stack + [gp(s["v"], 1)], dst_stack + [gp(d["v"], 1)], pvals)
                    for k, x in value.items()}
        if s["t"] == "opt" and d["t"] == "opt":
            inner = "coerced" if self.real_coercer_needed(src_stack, dst_stack) else "as-is"
            what = "none" if value is None else "falsy" if self.falsy(value) else "truthy"
            self.stats[f"val-optional-{inner}:{what}"] += 1
            if value is None:
                return None
            return self.coerce(value, src_stack + [gp(s["a"], 0)], dst_stack + [gp(d["a"], 0)], pvals)
        if self.falsy(value):
            self.stats["val-as-is:falsy"] += 1
        return value      # passed as is

    def convert_model(self, data, src_stack, dst_stack, pvals):
        src_cls = self.cls[src_stack[-1]["ty"]["cls"]]
        dst_cls = self.cls[dst_stack[-1]["ty"]["cls"]]
        out = []
        for f in dst_cls["fields"]:
            in_shape_field = next(x for x in self.u.in_shape(dst_cls)["fields"] if x["id"] == f["id"])
            dloc = {"kind": "in", "ty": f["ty"], "field": f["id"], "tag": self.field_tag(dst_cls, f)}
            fstack = dst_stack + [dloc]
            lk = self.link(src_stack, src_cls, fstack)
            if lk is None:
                if in_shape_field["required"] or not self.unlinked_allowed(fstack):
                    raise Unlinked(f"{dst_cls['name']}.{f['id']}", self.below_same_tagged_hint(src_stack, dst_stack))
                if in_shape_field["default"] is not None:
                    out.append((f["id"], self.u.from_json(in_shape_field["default"])))
                continue
            out.append((f["id"], self.linked_value(lk, data, src_stack, src_cls, dst_stack, dloc, pvals)))
        return ("obj", dst_cls["id"], out)

    def source_value(self, lk, data, src_stack, src_cls, pvals):
        if lk[0] == "field":
            f = lk[1]
            return self.read_field(data, src_cls, f), src_stack + [self.out_loc(src_cls, f)]
        i = lk[1]
        return pvals[self.extra[i]["name"]], [self.param_locs()[i]]

    def linked_value(self, lk, data, src_stack, src_cls, dst_stack, dloc, pvals):
        if lk[0] == "const":
            prov = lk[1]
            if prov.get("builtin"):
                return FACTORY_PY[prov["builtin"]]()
            if prov.get("factory") is not None:
                return App(prov["factory"], [], [])
            return self.u.from_json(prov["value"])
        if lk[0] == "func":
            prov, args = lk[1], lk[2]
            pos, kw = [], []
            for p, a in args:
                if a[0] == "model":
                    v = data
                else:
                    raw, sst = self.source_value(a, data, src_stack, src_cls, pvals)
                    ploc = {"kind": "func", "ty": p["ty"], "field": p["name"]}
                    v = self.coerce(raw, sst, dst_stack + [ploc], pvals)
                (kw if p["kind"] == "kw_only" else pos).append((p["name"], v))
            return App(prov["f"], [v for _, v in pos], kw)
        raw, sst = self.source_value(lk, data, src_stack, src_cls, pvals)
        if lk[2] is not None:
            return App(lk[2], [raw], [])
        return self.coerce(raw, sst, dst_stack + [dloc], pvals)

    def to_json(self, x):
        """spec results use ("obj", cls, [(field, value)]) for constructed destinations"""
        if type(x) is tuple and len(x) == 3 and x[0] == "obj" and type(x[2]) is list:
            return {"v": "obj", "cls": x[1], "fields": [[k, self.to_json(v)] for k, v in x[2]]}
        if isinstance(x, App):
            return {"v": "app", "f": x.f, "pos": [self.to_json(p) for p in x.pos],
                    "kw": [[k, self.to_json(p)] for k, p in x.kw]}
        import collections
        if type(x) in (list, tuple, collections.deque):
            kind = {list: "list", tuple: "tuple", collections.deque: "deque"}[type(x)]
            return {"v": "seq", "kind": kind, "xs": [self.to_json(e) for e in x]}
        if type(x) is dict:
            return {"v": "dict", "kvs": [[self.to_json(k), self.to_json(e)] for k, e in x.items()]}
        return self.u.to_json(x)

    def bind(self, args, kwargs):
        """Python call binding against the stub signature -> {name: value} (TypeError -> None)"""
        params = self.sig["params"]
        bound = {}
        positional = [p for p in params if p["kind"] in ("pos_only", "pos_or_kw")]
        if len(args) > len(positional):
            return None
        for p, a in zip(positional, args):
            bound[p["name"]] = a
        for k, v in kwargs:
            p = next((p for p in params if p["name"] == k), None)
            if p is None or p["kind"] == "pos_only" or k in bound:
                return None
            bound[k] = v
        for p in params:
            if p["name"] not in bound:
                if p.get("default") is None:
                    return None
                bound[p["name"]] = self.u.from_json(p["default"])
        return bound

    def expected(self, args, kwargs):
        """documented result (canonical JSON) of calling the converter; raises Undefined"""
        bound = self.bind(args, kwargs)
        if bound is None:
            raise Undefined("call does not match the signature")
        first = self.sig["params"][0]
        src_stack = [{"kind": "field", "ty": first["ty"], "field": first["name"]}]
        dst_stack = [{"kind": "type", "ty": self.sig["ret"]}]
        pvals = {p["name"]: bound[p["name"]] for p in self.extra}
        try:
            return self.to_json(self.coerce(bound[first["name"]], src_stack, dst_stack, pvals))
        except Undefined:
            raise
        except (AttributeError, KeyError, TypeError, IndexError) as e:
            raise Undefined(f"ill-typed source value: {type(e).__name__}")
