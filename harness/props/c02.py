"""C02 — non-model loaders and dumpers implement exactly the documented per-type rules.

Lean: Props/C02.lean — the documentation transcribed as the inductive relations LoadsTo / Rejects / DumpsTo (and the functional
specLoad / specDump, none of which mentions debug_trail, folds, trails or error objects) proved equivalent to the model's
load / dump in the reference mode DISABLE for ALL data; union soundness/completeness; strict exclusions; minimal concrete
containers; documented class dispatch of the union dumper. The other modes follow by C06.
Tie: `load` and `dump` correspondences of the morphing model + the translator for the scalar leaves.
Direct oracle (real code only): a Python transcription of the documented rules evaluated on every (type, datum): the real
DISABLE loader must return exactly the prescribed value or reject; the real dumper must produce the documented outer form.
"""
import base64
import collections
import collections.abc
import decimal
import fractions
import typing

from extract import doctable, scalars
from harness import morph
from harness.core import Ctx

ID = "C02"
PROPS_FILE = "AdaptixProofs/Props/C02.lean"
LEAN_TARGETS = ["AdaptixProofs.Props.C02", "drv_morph"]
EXTRACT = [scalars.emit, doctable.emit]
CLAIM = {
    "technique": "Lean 4 proof (model load/dump ⟺ an independent transcription of the documented rules, for all data) + "
                 "model/code correspondence; direct oracle = documented rules in Python vs the real library",
    "text": (
        "Props/C02.lean states the documented rules of specific-types-behavior.rst as relations independent of the loaders' "
        "algorithm and proves, for all model-free types and ALL data (well-typed or not), that the model's DISABLE loader "
        "returns v iff the rules prescribe v and raises a LoadError iff they prescribe rejection (under the explicit "
        "'settled' hypotheses: no escapes, hashable set elements); a union returns the result of an accepting case and fails "
        "iff all fail; strict iterables/tuples exclude Mapping and str; abstract collections load as their minimal concrete "
        "class; the union dumper's dispatch is the documented nearest-class rule. Scalar leaves are the translated closures "
        "(their documented strict origins are Props/C07Leaves.lean). The model is tied to the code by the load and dump "
        "correspondences; the direct oracle evaluates an independent Python transcription of the rules on every case."
    ),
    "note": (
        "What a scalar constructor returns (int('12') == 12, Decimal('1.5')) is stdlib semantics: an oracle parameter. "
        "Documented deviations proved in Lean and accepted as the docs call them undefined: the Optional shortcut returns None "
        "for None even when another lax case would accept it; Optional[T] dumps a non-None value with T's dumper without class "
        "lookup. Models are C03. NewType / Annotated / alias transparency is observed by the oracle (the harness builds the "
        "model type from the normalised hint, so wrappers are transparent by construction there)."
    ),
    "design_ref": "DESIGN.md §4 C02",
}
RULE = ("generated non-model types x (valid | corrupted | hostile) data x 2 coercion modes, reference mode DISABLE; "
        "NewType/Annotated wrappers on a sample; non-trivial = ill-typed datum or nested container")
ASSUMPTIONS = ["scalar constructor values are stdlib semantics (oracle)", "union cases with overlapping acceptance are undefined by the docs"]
TRUSTED = ["translator extract/scalars.py, extract/doctable.py"]

UNKNOWN = object()
REJECT = ("reject",)
FACTORY = {"list": list, "tuple": tuple, "set": set, "frozenset": frozenset, "deque": collections.deque}


def spec_load(eng, spec: morph.Spec, d, strict: bool):
    """the documented rule; -> ("ok", encoded value) | REJECT | UNKNOWN (docs leave it undefined / not a C02 type)"""
    k = spec.kind
    if k.startswith("scalar"):
        out = morph.run_real(eng.real.loader("DISABLE", strict, spec.hint), morph.materialise(d))
        if out["r"] == "ok":
            return ("ok", out["v"])
        return REJECT if out["r"] == "err" else UNKNOWN
    if k == "any":
        return ("ok", morph.enc(d))
    if k == "literal":
        vals = [morph_dec(v) for v in spec.ty[1]]
        sensitive = any(type(v) is bool or (type(v) is int and v in (0, 1)) for v in vals)
        try:
            for v in vals:
                if v == d and (not (strict and sensitive) or type(v) is type(d)):
                    return ("ok", morph.enc(d))
        except Exception:  # noqa: BLE001
            return UNKNOWN
        return REJECT
    if k.startswith("iter") or k == "tuple":
        if strict and (isinstance(d, collections.abc.Mapping) or type(d) is str):
            return REJECT
        if isinstance(d, (morph.IterDatum, morph.FreshDatum)):
            elems = list(d.make())
        else:
            try:
                elems = list(iter(d))
            except TypeError:
                return REJECT
        if k == "tuple":
            if len(elems) != len(spec.children):
                return REJECT
            kids = spec.children
        else:
            kids = [spec.children[0]] * len(elems)
        items = []
        for c, el in zip(kids, elems):
            r = spec_load(eng, c, el, strict)
            if r is UNKNOWN or r is REJECT:
                return r
            items.append(r[1])
        if k == "tuple":
            return ("ok", ["t", items])
        tagmap = {"list": "l", "tuple": "t", "set": "S", "frozenset": "F", "deque": "q"}
        if spec.ty[1] in ("set", "frozenset"):
            ded = []
            for it in items:
                if not any(py_eq_enc(it, o) for o in ded):
                    ded.append(it)
            items = ded
        return ("ok", [tagmap[spec.ty[1]], items])
    if k == "dict":
        if not hasattr(d, "items") or isinstance(d, type):
            return REJECT
        out = []
        for key, v in d.items():
            rk = spec_load(eng, spec.children[0], key, strict)
            rv = spec_load(eng, spec.children[1], v, strict)
            for r in (rk, rv):
                if r is UNKNOWN or r is REJECT:
                    return r
            for p in out:
                if py_eq_enc(p[0], rk[1]):
                    p[1] = rv[1]
                    break
            else:
                out.append([rk[1], rv[1]])
        return ("ok", ["d", out])
    if k == "union":
        accepting = []
        for c in spec.children:
            r = spec_load(eng, c, d, strict)
            if r is UNKNOWN:
                return UNKNOWN
            if r is not REJECT:
                accepting.append(r)
        if not accepting:
            return REJECT
        if len(accepting) > 1:
            return UNKNOWN       # documented: "the return value is undefined" when several cases accept
        return accepting[0]
    return UNKNOWN               # models: C03


def morph_dec(j):
    """decode the few Val forms a Literal lists"""
    k = j[0]
    return {"n": lambda: None, "b": lambda: j[1], "i": lambda: int(j[1]), "s": lambda: j[1]}[k]()


def spec_enc(r):
    return morph.canon_val(r[1])


def py_eq_enc(a, b):
    """Python == on encoded scalars (enough for set/dict-key dedup of scalar-ish elements)"""
    num = {"b", "i", "f"}

    def number(j):
        if j[0] in num:
            return num_val(j)
        if j[0] == "a" and j[1] in ("decimal.Decimal", "fractions.Fraction", "complex"):
            try:
                return {"decimal.Decimal": decimal.Decimal, "fractions.Fraction": fractions.Fraction, "complex": complex}[j[1]](j[2])
            except Exception:  # noqa: BLE001
                return None
        return None
    na, nb = number(a), number(b)
    if na is not None and nb is not None:
        try:
            return bool(na == nb)       # Decimal('-0') == Decimal('0'), Fraction(1) == 1 ...
        except Exception:  # noqa: BLE001
            return False
    return morph.canon_val(a) == morph.canon_val(b)


def num_val(j):
    if j[0] == "b":
        return int(j[1])
    if j[0] == "i":
        return int(j[1])
    if len(j) == 2:
        return {"nan": float("nan"), "inf": float("inf"), "-inf": float("-inf"), "-0": 0}[j[1]]
    return fractions.Fraction(int(j[1])) * fractions.Fraction(2) ** int(j[2])


def spec_has_model(spec, seen=None):
    seen = seen if seen is not None else set()
    if id(spec) in seen:
        return False
    seen.add(id(spec))
    return spec.kind == "model" or any(spec_has_model(c, seen) for c in spec.children)


def oracle_load(ctx: Ctx, eng, rec: morph.LoadRecord):
    if spec_has_model(rec.spec):
        return
    ev = morph.enc(rec.datum)
    if morph.has_iter(ev) and morph.spec_has_union(rec.spec):
        return
    if morph.numeric_mix(rec.spec.ty):
        # Decimal(1) / complex(1) merge with 1 / 1.0 inside a set or as dict keys: the encoded documented value keeps them apart
        ctx.dist["spec:numeric-mix-in-set"] += 1
        return
    for strict in (True, False):
        real = rec.real[("DISABLE", strict)]
        if real["r"] in ("escape", "no-loader"):
            continue
        try:
            want = spec_load(eng, rec.spec, rec.datum, strict)
        except Exception:  # noqa: BLE001
            ctx.dist["spec:raised"] += 1
            continue
        if want is UNKNOWN:
            ctx.dist["spec:undefined-by-docs"] += 1
            continue
        case = {"hint": repr(rec.spec.hint)[:300], "ty": rec.spec.ty, "datum": ev, "strict": strict, "origin": rec.origin}
        if want is REJECT:
            if real["r"] == "ok":
                ctx.fail(f"accepts-undocumented:{rec.spec.kind.split(':')[0]}",
                         f"the documented rule rejects this datum for {repr(rec.spec.hint)[:120]} (strict={strict}) but load returned a value", case)
        else:
            try:
                we = spec_enc(want)
            except Exception:  # noqa: BLE001
                ctx.dist["spec:unencodable"] += 1
                continue
            if real["r"] != "ok":
                ctx.fail(f"rejects-documented:{rec.spec.kind.split(':')[0]}",
                         f"the documented rule accepts this datum for {repr(rec.spec.hint)[:120]} (strict={strict}) but load raised "
                         f"{real['e']['cls']}", case)
            elif morph.canon_val(real["v"]) != we:
                ctx.fail(f"wrong-value:{rec.spec.kind.split(':')[0]}",
                         f"load returned a value other than the documented one for {repr(rec.spec.hint)[:120]} (strict={strict})",
                         dict(case, real=real["v"], documented=we))


def documented_dump(spec: morph.Spec, x):
    """documented outer form of a well-typed value"""
    k = spec.kind
    if k.startswith("scalar"):
        name = spec.ty[1]
        if name in ("int", "float", "str", "bool", "none", "literalstring"):
            return x
        if name in ("decimal", "fraction", "complex", "uuid") or name.startswith("ip"):
            return str(x)
        if name in ("bytes", "bytearray"):
            return base64.b64encode(bytes(x)).decode()
        if name in ("datetime", "date", "time"):
            return x.isoformat()
        if name == "timedelta":
            return x.total_seconds()
        if name == "pattern":
            return x.pattern
        if "path" in name:
            return x.__fspath__()
        return UNKNOWN
    if k in ("any", "literal"):
        return x
    if k.startswith("iter"):
        items = [documented_dump(spec.children[0], e) for e in x]
        if any(i is UNKNOWN for i in items):
            return UNKNOWN
        return list(items) if spec.ty[2] else tuple(items)
    if k == "tuple":
        items = [documented_dump(c, e) for c, e in zip(spec.children, x)]
        return UNKNOWN if any(i is UNKNOWN for i in items) else tuple(items)
    if k == "dict":
        out = {}
        for key, v in x.items():
            dk, dv = documented_dump(spec.children[0], key), documented_dump(spec.children[1], v)
            if dk is UNKNOWN or dv is UNKNOWN:
                return UNKNOWN
            out[dk] = dv
        return out
    return UNKNOWN   # unions: the documented class dispatch is checked by the correspondence + Lean; models: C03


def union_dump_oracle(ctx: Ctx, eng, rec):
    """documented: a union is dumped by the runtime class of the value, falling back to the NEAREST ancestor among the cases.
    Checked for top-level unions whose cases are keyed by classes: the union dumper must give what the dumper of that case gives"""
    spec, x = rec["spec"], rec["value"]
    if spec.kind != "union" or rec["origin"] != "typed":
        return
    members = getattr(spec, "literal_members", None)
    if members is not None and any(type(x) is type(v) and x == v for v in members):
        # a member of one of the Literal hints of the union: dumped by the Literal rule (as is for None/bool/int/str values)
        ctx.note_case({"t": spec.ty, "x": morph.enc(x)}, nontrivial=True, kind="union-dump:literal-member")
        for m in morph.MODES:
            got = rec["real"][m]
            if got["r"] != "ok" or got["v"] != morph.canon_val(morph.enc(x)):
                ctx.fail("union-dump:literal-member", f"[{m}] the member {x!r} of a Literal hint of {repr(spec.hint)[:140]} is not dumped "
                         f"as is: {str(got)[:120]}", {"hint": repr(spec.hint)[:300], "value": morph.enc(x), "mode": m, "got": got})
                return
        return
    if any(c.kind == "literal" for c in spec.children):
        return
    table = {}
    for i, k in enumerate(spec.key_classes):
        table[k] = i            # a later case replaces an earlier one with the same class
    pick = next((table[c] for c in type(x).__mro__ if c in table), None)
    if pick is None:
        return                  # virtual subclasses (ABCs): the fallback order is covered by the model correspondence
    exact = type(x) in table
    ctx.note_case({"t": spec.ty, "x": morph.enc(x)}, nontrivial=not exact, kind="union-dump:" + ("exact-class" if exact else "subclass"))
    for m in morph.MODES:
        want = morph.canon_outcome(eng.real.dump(m, True, spec.children[pick].hint, x))
        got = rec["real"][m]
        if want["r"] == "ok" and got != want:
            ctx.fail("union-dump:nearest-ancestor", f"[{m}] a {type(x).__name__} value is not dumped by the dumper of its nearest "
                     f"ancestor case {spec.key_classes[pick].__name__} of {repr(spec.hint)[:120]}",
                     {"hint": repr(spec.hint)[:300], "value": morph.enc(x), "mode": m, "got": got, "want": want})
            return


def builtin_subclass_union_probes(ctx: Ctx, eng):
    """the same rule on stdlib classes with subclass values (outside the model's value universe: real code only)"""
    import datetime
    from collections.abc import Sequence
    from typing import Union

    class MyDT(datetime.datetime):
        pass

    class MyStr(str):
        pass

    class MyDate(datetime.date):
        pass

    class MyInt(int):
        pass
    probes = [
        (Union[datetime.date, datetime.datetime], MyDT(2020, 1, 2, 3, 4, 5), datetime.datetime),
        (Union[datetime.date, datetime.datetime, None], MyDT(2020, 1, 2, 3, 4, 5), datetime.datetime),
        (Union[datetime.date, datetime.datetime], MyDate(2020, 1, 2), datetime.date),
        (Union[Sequence[int], str], MyStr("abc"), str),
        (Union[Sequence[str], str, None], MyStr("abc"), str),
        (Union[int, bool, str], MyInt(5), int),
        (Union[float, int, bool], True, bool),
        # an Any case takes every value whose class is no other case (Any is a class since 3.11, but in no MRO)
        (Union[typing.Any, list[int]], "x", typing.Any),
        (Union[typing.Any, list[int]], [1, 2], list[int]),
        (Union[typing.Any, dict[str, int], None], 1.5, typing.Any),
        (Union[typing.Any, datetime.date], MyDate(2020, 1, 2), datetime.date),
    ]
    for hint, x, case in probes:
        for m in morph.MODES:
            got = morph.canon_outcome(eng.real.dump(m, True, hint, x))
            want = morph.canon_outcome(eng.real.dump(m, True, case, x))
            ctx.note_case({"p": repr(hint), "x": repr(x), "m": m}, nontrivial=True, kind="union-dump:builtin-subclass")
            if want["r"] == "ok" and got != want:
                ctx.fail("union-dump:nearest-ancestor", f"[{m}] {x!r} ({type(x).__name__}) through {hint!r} is not dumped by the "
                         f"dumper of its nearest ancestor case {getattr(case, '__name__', case)}: {got}",
                         {"hint": repr(hint), "value": repr(x), "mode": m})
                break


def newtype_probes(ctx: Ctx, eng):
    """NewType / Annotated / Final are processed as the wrapped type"""
    from typing import Annotated, NewType
    base = [(int, 5, "5"), (list[int], [1, 2], "ab"), (dict[str, int], {"a": 1}, [1]), (decimal.Decimal, "1.5", 1.5)]
    for hint, good, bad in base:
        for wrap in (lambda t: NewType("NT", t), lambda t: Annotated[t, "meta"], lambda t: Annotated[NewType("N2", t), 1]):
            w = wrap(hint)
            for strict in (True, False):
                for d in (good, bad):
                    a = eng.real.load("DISABLE", strict, hint, d)
                    b = eng.real.load("DISABLE", strict, w, d)
                    ctx.note_case({"w": repr(w), "d": repr(d), "s": strict}, nontrivial=True, kind="wrapper-transparency")
                    if morph.canon_outcome(a)["r"] != morph.canon_outcome(b)["r"] or (a["r"] == "ok" and a != b):
                        ctx.fail("wrapper-not-transparent", f"{w!r} is not processed as {hint!r} on {d!r}", {"hint": repr(w), "datum": repr(d)})


def type_alias_probes(ctx: Ctx, eng):
    """PEP 695 aliases are processed as their value with the arguments bound to the DECLARED parameters - whatever order the
    parameters appear in inside the value, and also when the value does not use all of them"""
    ns: dict = {}
    exec("type Swapped[K, V] = dict[V, K]\n"                    # noqa: S102
         "type Tri[A, B] = tuple[B, A, B]\n"
         "type Half[K, V] = list[K]\n"
         "type Plain[T] = list[T]\n"
         "type Nested[A, B] = dict[A, list[tuple[B, A]]]\n", ns)
    cases = [
        (ns["Swapped"][str, int], dict[int, str], [{1: "a"}, {"a": 1}, {}]),
        (ns["Tri"][str, int], tuple[int, str, int], [(1, "a", 1), ("a", 1, "a")]),
        (ns["Half"][str, int], list[str], [["a"], [1]]),
        (ns["Plain"][int], list[int], [[1], ["a"]]),
        (ns["Nested"][str, int], dict[str, list[tuple[int, str]]], [{"k": [(1, "a")]}, {"k": [("a", 1)]}]),
        # several parametrisations of ONE alias are different cases of a union: each stays reachable
        (typing.Union[ns["Plain"][int], ns["Plain"][str], None], typing.Union[list[int], list[str], None], [[1], ["a", "b"], None, [1.5]]),
        (dict[str, typing.Union[ns["Swapped"][str, int], ns["Swapped"][str, str], int]],
         dict[str, typing.Union[dict[int, str], dict[str, str], int]], [{"x": {1: "v"}}, {"x": {"k": "v"}}, {"x": 3}]),
    ]
    for alias, plain, data in cases:
        for d in data:
            for m in morph.MODES:
                a = morph.canon_outcome(eng.real.load(m, True, alias, d))
                b = morph.canon_outcome(eng.real.load(m, True, plain, d))
                ctx.note_case({"alias": repr(alias), "d": repr(d), "m": m}, nontrivial=True, kind="type-alias:" + b["r"])
                if a["r"] != b["r"] or (a["r"] == "ok" and a != b):
                    ctx.fail("type-alias:argument-binding", f"{alias!r} is not processed as {plain!r}: load({d!r}) gives {a['r']}, the "
                             f"plain spelling {b['r']} [{m}]", {"alias": repr(alias), "plain": repr(plain), "datum": repr(d), "mode": m})
                    break


B64_ALPHABET = frozenset("ABCDEFGHIJKLMNOPQRSTUVWXYZabcdefghijklmnopqrstuvwxyz0123456789+/")
B64_NEAR = "-_ \n\t\r.,:;*~$%é１Ａ\x00\x7f"      # url-safe alphabet, white space, punctuation, non-ASCII letters and digits


def base64_rule_probes(ctx: Ctx, eng, n_random: int):
    """bytes-like types are "represented as base64 encoded string" (RFC 4648 standard alphabet).  Independent of the library:
      * b64encode(b) is accepted and gives b back;
      * an accepted string consists of alphabet characters and `=` only, and the result is its base64 decoding
        (no character is ever silently dropped);
    for bytes / bytearray / BytesIO / Literal[b"..."], alone and as container elements, both coercion modes.  Strings: the
    one-character neighbourhood (insert / replace, every position) of canonical encodings with near-miss characters, and
    random strings over alphabet + near-miss characters."""
    import binascii
    import io
    from typing import Literal
    rng = ctx.rng
    payloads = [b"", b"a", b"ab", b"abc", b"\xff\xfe\xfd", b"\xfb\xff", bytes(range(7))]
    strings = []
    for b in payloads:
        e = base64.b64encode(b).decode()
        strings.append(e)
        for i in range(len(e) + 1):
            for c in B64_NEAR:
                strings.append(e[:i] + c + e[i:])
                if i < len(e):
                    strings.append(e[:i] + c + e[i + 1:])
    chars = "".join(sorted(B64_ALPHABET))[::5] + "=" + B64_NEAR
    for _ in range(n_random):
        strings.append("".join(rng.choice(chars) for _ in range(rng.choice([2, 3, 4, 4, 5, 8, 8, 9, 12]))))
    targets = [("bytes", bytes, lambda v: v), ("bytearray", bytearray, bytes), ("BytesIO", io.BytesIO, lambda v: v.getvalue()),
               ("Literal[b'abc']", Literal[b"abc"], lambda v: v), ("list[bytes]", list[bytes], lambda v: v[0]),
               ("dict[str, bytearray]", dict[str, bytearray], lambda v: bytes(v["k"]))]
    wrap = {"list[bytes]": lambda s_: [s_], "dict[str, bytearray]": lambda s_: {"k": s_}}
    for name, hint, unwrap in targets:
        for strict in (True, False):
            ld = eng.real.loader("DISABLE", strict, hint)
            for s_ in strings:
                out = _run_keep(ld, wrap.get(name, lambda x: x)(s_))
                clean = all(c in B64_ALPHABET or c == "=" for c in s_)
                ctx.note_case({"t": name, "s": s_}, nontrivial=not clean, kind="base64-rule:" + ("alphabet-only" if clean else "foreign-character"))
                case = {"suite": "base64-rule", "type": name, "strict": strict, "string": [ord(c) for c in s_]}
                if out[0] == "ok":
                    if not clean:
                        ctx.fail("base64-rule:accepts-foreign-character",
                                 f"load({s_!r}, {name}) (strict={strict}) is accepted ({unwrap(out[1])!r}) although the string is not "
                                 f"base64: it contains characters outside the standard alphabet", case)
                        break
                    try:
                        want = binascii.a2b_base64(s_)
                    except binascii.Error:
                        want = None
                    if want is None or bytes(unwrap(out[1])) != want:
                        ctx.fail("base64-rule:wrong-bytes", f"load({s_!r}, {name}) (strict={strict}) gives {unwrap(out[1])!r}, the base64 "
                                 f"decoding is {want!r}", case)
                        break
                elif out[0] == "err":
                    canonical = clean and s_ in {base64.b64encode(b).decode() for b in payloads}
                    if canonical and not (name.startswith("Literal") and s_ != "YWJj"):
                        ctx.fail("base64-rule:rejects-canonical", f"load({s_!r}, {name}) (strict={strict}) is rejected although it is the "
                                 f"base64 encoding of a bytes value", case)
                        break
                else:
                    ctx.fail("base64-rule:escape", f"load({s_!r}, {name}) (strict={strict}) raised {out[1]}", case)
                    break


def _run_keep(ld, datum):
    """-> ("ok", value) | ("err", class name) | ("escape", class name)"""
    from adaptix.load_error import LoadError
    try:
        return ("ok", ld(datum))
    except LoadError as e:
        return ("err", type(e).__name__)
    except Exception as e:  # noqa: BLE001
        return ("escape", type(e).__name__)


def run(ctx: Ctx):
    eng = morph.Engine(ctx)
    type_alias_probes(ctx, eng)
    specs = eng.gen_specs(ctx.budget(180, 2500), 3 if ctx.tier == "quick" else 4, related=True, literal_unions=True, iter_matrix=True)
    recs = eng.load_records(specs, suite="load", n_valid=2, n_corrupt=3, n_hostile=3)
    for rec in recs:
        ill = rec.origin != "valid"
        ctx.note_case({"t": rec.spec.ty, "d": morph.enc(rec.datum)}, nontrivial=ill or rec.spec.children != [],
                      kind=f"load-{rec.origin}:" + rec.real[("DISABLE", True)]["r"])
        oracle_load(ctx, eng, rec)
        if ill and len(ctx.samples) < 5 and not spec_has_model(rec.spec):
            ctx.sample({"hint": repr(rec.spec.hint)[:120], "datum": morph.enc(rec.datum), "strict": rec.real[("DISABLE", True)]["r"],
                        "lax": rec.real[("DISABLE", False)]["r"]})
    drecs = eng.dump_records(specs, suite="dump", n_values=2)
    builtin_subclass_union_probes(ctx, eng)
    for rec in drecs:
        union_dump_oracle(ctx, eng, rec)
        if rec["origin"] not in ("typed", "typed-alt") or spec_has_model(rec["spec"]) or morph.spec_has_union(rec["spec"]):
            continue
        want = documented_dump(rec["spec"], rec["value"])
        ctx.note_case({"t": rec["spec"].ty, "x": morph.enc(rec["value"])}, nontrivial=rec["spec"].children != [],
                      kind="dump-form" + (":other-container" if rec["origin"] == "typed-alt" else ""))
        if want is UNKNOWN:
            continue
        real = rec["real"]["DISABLE"]
        try:
            we = morph.canon_val(morph.enc(want))
        except morph.Unencodable:
            continue
        if real["r"] != "ok" or morph.canon_val(real["v"]) != we:
            ctx.fail(f"dump-form:{rec['spec'].kind.split(':')[0]}", f"dump of a value of {repr(rec['spec'].hint)[:120]} is not the documented "
                     f"outer form", {"hint": repr(rec["spec"].hint)[:300], "value": morph.enc(rec["value"]), "real": real, "documented": we})
    newtype_probes(ctx, eng)
    base64_rule_probes(ctx, eng, ctx.budget(400, 8000))


def search(ctx: Ctx):
    eng = morph.Engine(ctx)
    eng.drv = None
    specs = eng.gen_specs(2000, 4, related=True, literal_unions=True, iter_matrix=True)
    for rec in eng.load_records(specs, n_valid=2, n_corrupt=4, n_hostile=4):
        oracle_load(ctx, eng, rec)
    builtin_subclass_union_probes(ctx, eng)
    type_alias_probes(ctx, eng)
    for rec in eng.dump_records(specs, n_values=2):
        union_dump_oracle(ctx, eng, rec)
    newtype_probes(ctx, eng)
    base64_rule_probes(ctx, eng, 8000)


def replay(ctx: Ctx, case) -> bool:
    return False
