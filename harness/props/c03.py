"""C03 — generated model loaders/dumpers honour the configured outer layout exactly.

Lean side: AdaptixModel/Layout/{Basic,Overlay,Paths,Crown,ModelLoad,ModelDump}.lean (model),
AdaptixProofs/Lemmas/Layout*.lean, AdaptixProofs/Props/C03.lean (theorems).

Tie (correspondence at three levels, so that a divergence is localised):
  * layout-inp / layout-out : crown + extra_move computed by the real BuiltinNameLayoutProvider
        (InputNameLayoutRequest / OutputNameLayoutRequest sent through a real Retort) for generated
        (model, name_mapping recipe) programs                         vs  `provideInputLayout/provideOutputLayout`
  * pathof-spec             : the harness' Python transcription of the documented path rule
                                                                       vs  the Lean specification `pathOf`
  * gen-load / gen-dump     : real compiled loader/dumper for hand-made crowns (shape + name layout injected
        with ValueProvider, as the unit tests do) on systematic inputs  vs  `loadModel` / `dumpModel`
  * model-load / model-dump : Retort.get_loader / get_dumper on real dataclass / TypedDict / class models with
        a name_mapping recipe, on systematic inputs, 3 debug_trail x 2 strict_coercion
                                                                       vs  layout model + `loadModel` / `dumpModel`
  * nested-filter / nested-filter-spec (c03_nested.py): truth table of every skip / only / omit_default predicate as the
        real name-layout provider applies it to the request of a model NESTED in other models (request location
        stack of 2-6 locations, through fields and List / Optional / Dict arguments)
                                                                       vs  `applyLsc` of Layout/LocPred.lean (checker run on
        request.loc_stack + field location)  vs  the oracle's Python reading of the pattern on the documented stack
Direct oracle (real code only, Python): the loaded object's field equals what was placed at the
documented path, the dumped data holds the field at that path (or omits it iff it equals its default),
the unknown-key policy delivers exactly the unknown keys, gaps of list layouts are None; a field the layout does not
present is not read.  Nested models (c03_nested.py): skip / only / omit_default given as location patterns of 1-7
elements rooted at the outermost model, an intermediate owner, the model itself, a field or a foreign model are
evaluated on the FULL documented location stack of every occurrence, and the whole Retort.load / Retort.dump of
the outer models is checked against the layout these truth tables prescribe.
"""

import dataclasses
import itertools
import re
import typing
from dataclasses import dataclass, field as dc_field
from typing import Any, Optional

from harness.core import Ctx, Driver, InfraError

ID = "C03"
CLAIM = {
    "technique": "Lean 4 proof over an executable model of the name-layout pipeline and of the semantics of the "
                 "generated loader/dumper code + model/code correspondence at three levels + direct oracle",
    "text": (
        "Proved in Lean for all schemas, shapes, crowns, data, debug modes, coercion modes and extra policies "
        "(no bound on sizes or nesting): the mapping step of the code equals the documented path rule `pathOf` "
        "(code_path_is_documented_path) with map > name_style/trim/as_list, skip > only, first map entry wins, earlier "
        "name_mapping providers and child classes override later ones / parents, maps concatenated; the crown the "
        "provider builds (sort + group-by builder, gap filling, decoration) has a field leaf at path p iff a field of the "
        "shape has pathOf = p, all other leaves being gap fillers at list positions (crown_places_fields, "
        "out_crown_places_fields); the semantics of the generated loader reaches the constructor call iff the datum has "
        "the shape the crown asks for, and then passes for every field leaf exactly loader(value at the leaf's path) / the "
        "default of an absent optional field / nothing else, identically in the three debug modes "
        "(loader_refines_reading, loadCrown_reads_exact_path, loadCrown_args_only_from_paths, load_reads_documented_path); "
        "ExtraSkip ignores unknown keys, ExtraForbid rejects them with exactly the unknown key set, collecting policies "
        "deliver exactly the unknown items (key and value untouched) in a skeleton mirroring nested nodes; a missing "
        "required key of a flat layout is reported with exactly the missing keys; the generated dumper writes every "
        "extracted field at the path of its leaf, omits an omit_default field iff its raw value equals the default "
        "(identity for None/True/False, == otherwise), writes None at gaps and no key outside the crown; dumping then "
        "loading through the same crown returns the field values (dump_load_roundtrip). The truth tables of skip / only / "
        "omit_default are the documented meaning of the predicate (specMatches, C10) on request.loc_stack + field "
        "location: apply_lsc never raises for an accepted predicate and answers the specification on the full stack "
        "(filter_checked_on_full_stack, filter_table_is_spec), a k-element location pattern matches the last k "
        "locations of that stack (pattern_filter_matches_tail, three_element_pattern_reads_enclosing_location), and a "
        "field so matched by skip / not matched by only has no path, a defaulted field so matched by omit_default gets "
        "a sieve (skip_on_full_stack_hides_field, only_on_full_stack_filters, omit_default_on_full_stack)."
    ),
    "note": (
        "The theorems are about the hand-written Lean model; it is tied to /repo on every run by correspondences "
        "(real BuiltinNameLayoutProvider crowns vs the model's, real compiled loaders/dumpers vs loadModel/dumpModel on "
        "systematic inputs for hand-made crowns and for real dataclass/TypedDict/class models with name_mapping "
        "recipes, 3 debug_trail x 2 strict_coercion) and by a Lean-independent direct oracle built from a Python "
        "transcription of the documented rule; for models nested in other models the real provider's filter tables on "
        "the nested request are compared with applyLsc and with the oracle's reading of the patterns, and whole "
        "Retort.load / dump of the outer models is checked by the oracle. omit_default is modelled with the repaired comparison "
        "(fixes/C03-omit-default-compare.patch); with ExtraKwargs and nested layouts the known branch keys reach "
        "**kwargs (known finding, negation proved as extra_kwargs_only_unknown_fails, flat case proved). Not proved: "
        "well-formedness of built output crowns (distinct keys) is a hypothesis of the dumper theorems and is checked "
        "by the correspondence; in Props/C03.lean the name style conversion is an abstract function of the field name, the "
        "conversion itself (convert_snake_style, 16 styles, ASCII names) is modelled in Layout/NameStyle.lean with "
        "Props/C03NameStyle.lean (a style changes only case and separator; distinct lower-case names keep distinct keys "
        "under separator styles) and the exhaustive name-style correspondence; predicates are truth tables (C10); "
        "constructor-call planning is C08."
    ),
    "design_ref": "DESIGN.md §4 C03",
}
PROPS_FILE = "AdaptixProofs/Props/C03.lean"
EXTRA_PROPS_FILES = ["AdaptixProofs/Props/C03NameStyle.lean"]
LEAN_TARGETS = ["AdaptixProofs.Props.C03", "AdaptixProofs.Props.C03NameStyle", "drv_c03"]
RULE = ("programs = (model, name_mapping recipe) pairs with 1-5 fields over dataclass (incl. inheritance) / TypedDict / class with "
        "**kwargs, and hand-made (shape, crown, extra move) triples; per program the systematic inputs: valid datum, each "
        "leaf absent / ill-typed, each container node replaced by 7-9 wrong kinds / emptied / shortened / a str, unknown "
        "keys and extra items at each node, 2-3 fault combinations; x 3 debug_trail x 2 strict_coercion. A case is "
        "non-trivial when it is not the plain valid datum of a failed-creation program; nested programs = 2-4 dataclass "
        "models (an inner model held directly / in List / Optional / Dict by one or two fields of two different owners, "
        "optionally one more level) x 1-3 name_mapping providers (unbound / bound to the inner or outer model) whose skip / "
        "only / omit_default are location patterns of 1-7 elements (suffixes of the full owner chain, re-rooted at foreign "
        "models / fields, P[a, b], generic_arg, P.ANY, ~, |) x objects (all distinct from / equal to defaults, mixed) and "
        "data (valid, optional absent, keys of filtered-out fields present, unknown key) x debug_trail x strict_coercion")
ASSUMPTIONS = [
    "input data are JSON-like: None/bool/int/str/list/dict with str keys, plus opaque objects without __getitem__/.get "
    "(a dict with integer keys or a user Mapping with raising methods is outside the model)",
    "field loaders/dumpers, saturator and extractor are total, mode independent parameters; predicates of name_mapping are "
    "given as truth tables over the fields (predicate semantics is C10, routing of map entries C09)",
    "unknown keys of a *nested* dict node are delivered at the mirrored position of the extra mapping (the upstream test "
    "suite pins this skeleton for ExtraTargets); 'exactly the unknown keys' is read per dict node. For ExtraKwargs, where "
    "the keys become keyword arguments, the branch keys are reported as a known finding",
    "omit_default 'equals its default' is read with the generated code's comparison: identity for the None/True/False "
    "literals, Python == otherwise, applied to the raw field value (repaired behaviour)",
    "location stack of a nested model (oracle reading of 'P[Foo].name[Bar].age matches field age located at model Bar, "
    "situated at field name, placed at model Foo'): [root model, field, (argument of the container: position 0 for List / "
    "Optional, 1 for the values of Dict)?, field, ...]; a pattern describes the END of that stack",
    "the Python compiler / exec of the generated source is trusted; the model gives the meaning of the generated code "
    "construct by construct and the gen-load / gen-dump correspondences validate it per generated program",
]
TRUSTED = [
    "well-formedness of output crowns built by the provider (distinct keys per dict node, sieves on field children, "
    "required fields at list positions) is a hypothesis of dumpCrown_writes_exact_path / dump_load_roundtrip, not "
    "proved for the builder; the driver evaluates it on every output crown of the layout correspondence "
    "(suite out-crown-wellformed)",
    "Python str ordering = Lean String ordering by code point (crown builder's sort), validated by the layout correspondence",
]

# ---------------------------------------------------------------------------
# value encoding (Val of Layout/Basic.lean)
# ---------------------------------------------------------------------------


class Opaque:
    """an object that is neither a Mapping nor a Sequence and has no .get / __getitem__"""

    def __init__(self, tag):
        self.tag = tag

    def __eq__(self, other):
        return isinstance(other, Opaque) and other.tag == self.tag

    def __hash__(self):
        return hash(("Opaque", self.tag))

    def __repr__(self):
        return f"Opaque({self.tag!r})"


def fn_list():
    return []


def fn_dict():
    return {}


# default factories: the classes `list` / `dict` (the generators inline them as `[]` / `{}`) and plain functions producing equal
# values (called by the generated code: `value != dfl()`)
FACTORIES = {"list": list, "dict": dict, "fn_list": fn_list, "fn_dict": fn_dict}


def factory_value(name):
    return FACTORIES[name]()


def enc_val(v):
    if v is None or type(v) in (bool, int, str):
        return v
    if type(v) in (list, tuple):
        return [enc_val(x) for x in v]
    if isinstance(v, dict):
        for k in v:
            if type(k) is not str:
                raise ValueError(f"non-str dict key {k!r}")
        return {"dict": [[k, enc_val(x)] for k, x in v.items()]}
    if isinstance(v, Opaque):
        return {"opaque": v.tag}
    raise ValueError(f"value outside the modelled universe: {v!r}")


def dec_val(j):
    if j is None or type(j) in (bool, int, str):
        return j
    if type(j) is list:
        return [dec_val(x) for x in j]
    if "dict" in j:
        return {k: dec_val(x) for k, x in j["dict"]}
    return Opaque(j["opaque"])


def canon_val(j):
    """canonical comparison form of an encoded Val: dicts as sorted mappings"""
    if type(j) is list:
        return [canon_val(x) for x in j]
    if type(j) is dict:
        if "dict" in j:
            return {"dict": sorted(([k, canon_val(x)] for k, x in j["dict"]), key=lambda kv: kv[0])}
        return j
    return j


# ---------------------------------------------------------------------------
# independent Python transcription of the documented rules (oracle side)
# ---------------------------------------------------------------------------

STYLE_TABLE = {
    # name -> (separator, first word, other words)   -- docs: NameStyle members show the convention
    "LOWER_SNAKE": ("_", str.lower, str.lower), "CAMEL_SNAKE": ("_", str.lower, str.title),
    "PASCAL_SNAKE": ("_", str.title, str.title), "UPPER_SNAKE": ("_", str.upper, str.upper),
    "LOWER_KEBAB": ("-", str.lower, str.lower), "CAMEL_KEBAB": ("-", str.lower, str.title),
    "PASCAL_KEBAB": ("-", str.title, str.title), "UPPER_KEBAB": ("-", str.upper, str.upper),
    "LOWER": ("", str.lower, str.lower), "CAMEL": ("", str.lower, str.title),
    "PASCAL": ("", str.title, str.title), "UPPER": ("", str.upper, str.upper),
    "LOWER_DOT": (".", str.lower, str.lower), "CAMEL_DOT": (".", str.lower, str.title),
    "PASCAL_DOT": (".", str.title, str.title), "UPPER_DOT": (".", str.upper, str.upper),
}


def py_style(name: str, style: str) -> str:
    """snake_case -> style for names whose words are separated by single underscores"""
    sep, first, other = STYLE_TABLE[style]
    m = re.fullmatch(r"(_*)(.*?)(_*)", name)
    front, core, back = m.groups()
    words = core.split("_")
    return front + first(words[0]) + "".join(sep + other(w) for w in words[1:]) + back


def py_trim(name: str) -> str:
    """docs: 'Retort trims trailing underscore automatically' (from_ -> from); a double underscore is kept"""
    if name.endswith("_") and not name.endswith("__"):
        return name[:-1]
    return name


def pred_holds(pred, fld) -> bool:
    """truth value of an abstract predicate descriptor on a field descriptor"""
    if "name" in pred:
        return fld["id"] == pred["name"]
    if "type" in pred:
        return fld["type"] == pred["type"]
    if "regex" in pred:
        return re.fullmatch(pred["regex"], fld["id"]) is not None
    if "ids" in pred:
        # a predicate already evaluated on the full location stack of every field (nested-model suite)
        return fld["id"] in pred["ids"]
    raise KeyError(pred)


def preds_hold(preds, fld) -> bool:
    return any(pred_holds(p, fld) for p in preds)


FUNCS = {
    # the user callables `func(shape, field) -> MapResult` of (pred, func) map entries
    "upper": lambda fid: fid.upper(),
    "nest": lambda fid: ("nested", fid),
    "dots": lambda fid: ("fn", ...),
    "none_if_long": lambda fid: None if len(fid) > 5 else fid + "_f",
}


def norm_result(r):
    """a MapResult as a list of raw keys (None = skip)"""
    if r is None:
        return None
    if r is ... or isinstance(r, (str, int)):
        return [r]
    return list(r)


def providers_for(prog, cls: str):
    """providers whose predicate matches a request for class `cls` ('own' | 'parent' | 'object'), recipe order,
    the builtin default name_mapping last"""
    out = []
    for p in prog["providers"]:
        if p["pred"] == "any" or p["pred"] == cls:
            out.append(p)
    out.append(BUILTIN_DEFAULT)
    return out


BUILTIN_DEFAULT = {
    "pred": "any", "chain": None, "builtin": True,
    "skip": [], "only": "ANY", "map": [{"k": "skip_private"}], "trim": True, "style": None, "as_list": False,
    "omit_default": False, "extra_in": "skip", "extra_out": "skip",
}
PARAMS = ("skip", "only", "trim", "style", "as_list", "omit_default", "extra_in", "extra_out")


def mro_classes(prog):
    return ["own"] + (["parent"] if prog.get("has_parent") else []) + (["dict"] if prog["kind"] == "typeddict" else []) \
        + ["object"]


def py_effective(prog):
    """Documented merge ('the first provider overrides parameters of next providers', 'a new map does not replace
    others, the new iterable is concatenated to the previous', child class over parent class).  Only defined for
    recipes whose user providers all use the default chain (Chain.FIRST); returns None otherwise."""
    eff = {}
    maps = []
    for cls in mro_classes(prog):
        for p in providers_for(prog, cls if cls in ("own", "parent") else "object"):
            if p.get("chain", "first") != "first" and not p.get("builtin"):
                return None
            for k in PARAMS:
                if k in p and k not in eff:
                    eff[k] = p[k]
            maps.extend(p.get("map", []))
            if p.get("builtin"):
                break
    eff["map"] = maps
    return eff


def py_omit_holds(eff, fld) -> bool:
    od = eff["omit_default"]
    if isinstance(od, bool):
        return od
    return preds_hold(od, fld)


def py_extra_targets(extra) -> list:
    if isinstance(extra, dict) and "targets" in extra:
        return list(extra["targets"])
    return []


def py_path_of(prog, eff, direction: str, fld):
    """The documented path of a field: None if it is not presented."""
    fields = prog["fields"]
    targets = py_extra_targets(eff["extra_in"] if direction == "inp" else eff["extra_out"])
    if fld["id"] in targets:
        return None
    if preds_hold(eff["skip"], fld):
        return None
    if eff["only"] != "ANY" and not preds_hold(eff["only"], fld):
        return None
    if eff["as_list"]:
        generated = [f["id"] for f in fields].index(fld["id"])
    else:
        generated = fld["id"]
        if eff["trim"]:
            generated = py_trim(generated)
        if eff["style"] is not None:
            generated = py_style(generated, eff["style"])
    for entry in eff["map"]:
        k = entry["k"]
        if k == "skip_private":
            if direction == "out" and fld["id"].startswith("_"):
                return None
            continue
        if k == "dict":
            tbl = dict((a, b) for a, b in entry["tbl"])
            if fld["id"] not in tbl:
                continue
            res = tbl[fld["id"]]
        elif k == "const":
            if not preds_hold([entry["pred"]], fld):
                continue
            res = entry["r"]
        else:
            if not preds_hold([entry["pred"]], fld):
                continue
            res = norm_result(FUNCS[entry["fn"]](fld["id"]))
            res = None if res is None else [{"ellipsis": True} if x is ... else x for x in res]
        if res is None:
            return None
        return [generated if (isinstance(x, dict) and "ellipsis" in x) else x for x in res]
    return [generated]


# ---------------------------------------------------------------------------
# program generator: (model shape, name_mapping recipe)
# ---------------------------------------------------------------------------

NAME_POOL = ["a", "b_", "first_name", "c1", "from_", "some_long_name", "x", "y2_z", "d__", "val", "_priv", "ab_cd_"]
KEY_POOL = ["k1", "K2", "x", "y", "nested", "first_name", "a", "data"]
TYPE_POOL = ["any", "any", "int", "str", "neg"]
STYLES = list(STYLE_TABLE)


def gen_fields(rng, kind, n=None, p_default=0.5):
    n = n or rng.choice([1, 2, 2, 3, 3, 4, 5])
    names = rng.sample(NAME_POOL, n)
    fields = []
    for name in names:
        tp = rng.choice(TYPE_POOL)
        if kind == "typeddict":
            fields.append({"id": name, "required": rng.random() < 1.1 - p_default, "default": None, "type": tp})
            continue
        r = rng.random()
        if r < 1 - p_default:
            dflt = None
        elif tp in ("int", "neg"):
            dflt = {"v": rng.choice([0, 1, 7])}
        elif tp == "str":
            dflt = {"v": rng.choice(["", "s"])}
        else:
            dflt = rng.choice([{"v": None}, {"v": True}, {"v": 0}, {"v": "d"}, {"factory": "list"}, {"factory": "dict"},
                               {"v": 1}, {"v": False}, {"factory": "fn_list"}, {"factory": "fn_dict"}])
        fields.append({"id": name, "required": dflt is None, "default": dflt, "type": tp})
    return fields


def gen_pred(rng, fields):
    r = rng.random()
    if r < 0.55:
        return {"name": rng.choice(fields)["id"] if rng.random() < 0.9 else "zz"}
    if r < 0.8:
        return {"type": rng.choice(["int", "str"])}
    a, b = rng.choice(fields)["id"], rng.choice(fields)["id"]
    return {"regex": rng.choice([f"{a}|{b}", ".*_", "[a-c].*", ".*name.*"])}


def gen_preds(rng, fields):
    return [gen_pred(rng, fields) for _ in range(rng.choice([1, 1, 2]))]


def gen_tree_paths(rng, ids, allow_list=True, prefix=(), depth=0):
    """distinct, prefix-free, kind-consistent paths for `ids` below `prefix` (valid by construction)"""
    if not ids:
        return {}
    is_list = allow_list and rng.random() < (0.3 if depth else 0.15)
    ids = list(ids)
    rng.shuffle(ids)
    paths = {}
    slots = []
    i = 0
    while i < len(ids):
        if depth < 2 and len(ids) - i >= 1 and rng.random() < 0.35:
            k = rng.randint(1, min(3, len(ids) - i))
            slots.append(ids[i:i + k])
            i += k
        else:
            slots.append(ids[i])
            i += 1
    if is_list:
        positions = list(range(len(slots) + rng.choice([0, 0, 1, 2])))   # gaps
        keys = sorted(rng.sample(positions, len(slots)))
    else:
        keys = rng.sample(KEY_POOL + [f"q{j}" for j in range(len(slots))], len(slots))
    for key, slot in zip(keys, slots):
        if isinstance(slot, list):
            paths.update(gen_tree_paths(rng, slot, allow_list, (*prefix, key), depth + 1))
        else:
            paths[slot] = (*prefix, key)
    return paths


def raw_of_path(rng, path, ellipsis_ok=True):
    out = []
    for el in path:
        out.append(el)
    if len(out) == 1 and rng.random() < 0.6:
        return out
    return out


def gen_map(rng, fields, allow_list=True):
    """a `map` argument: list of entries (first match wins)"""
    entries = []
    r = rng.random()
    ids = [f["id"] for f in fields]
    if r < 0.45:
        # a valid tree layout for a subset of the fields, as one dict
        subset = [i for i in ids if rng.random() < 0.7]
        paths = gen_tree_paths(rng, subset, allow_list)
        tbl = []
        for fid, p in paths.items():
            res = list(p)
            if rng.random() < 0.2:
                res[rng.randrange(len(res))] = {"ellipsis": True}
            tbl.append([fid, res])
        if rng.random() < 0.2 and ids:
            tbl.append([rng.choice(ids), None])
        seen = set()
        tbl = [kv for kv in tbl if not (kv[0] in seen or seen.add(kv[0]))]
        entries.append({"k": "dict", "tbl": tbl})
    else:
        for _ in range(rng.choice([1, 1, 2, 3])):
            kind = rng.random()
            if kind < 0.4:
                tbl = []
                for fid in rng.sample(ids, rng.randint(1, len(ids))):
                    tbl.append([fid, gen_result(rng, allow_list)])
                entries.append({"k": "dict", "tbl": tbl})
            elif kind < 0.75:
                entries.append({"k": "const", "pred": gen_pred(rng, fields), "r": gen_result(rng, allow_list, for_many=True)})
            else:
                entries.append({"k": "func", "pred": gen_pred(rng, fields), "fn": rng.choice(list(FUNCS))})
    return entries


def gen_result(rng, allow_list=True, for_many=False):
    r = rng.random()
    if r < 0.08:
        return None
    if r < 0.35 and not for_many:
        return [rng.choice(KEY_POOL)]
    if r < 0.45:
        return [{"ellipsis": True}]
    if r < 0.55 and allow_list and not for_many:
        return [rng.randrange(3)]
    n = rng.choice([2, 2, 3])
    out = []
    for i in range(n):
        rr = rng.random()
        if i == n - 1 and (for_many or rr < 0.4):
            out.append({"ellipsis": True})
        elif rr < 0.2 and allow_list and i > 0:
            out.append(rng.randrange(3))
        else:
            out.append(rng.choice(KEY_POOL[:5]))
    return out


def gen_program(rng, kind=None, oracle_friendly=False):
    kind = kind or rng.choice(["dataclass", "dataclass", "dataclass", "typeddict", "kwclass"])
    want_list = rng.random() < 0.22          # list layouts need required fields
    fields = gen_fields(rng, kind, p_default=0.12 if want_list else 0.5)
    has_parent = kind == "dataclass" and len(fields) >= 2 and rng.random() < 0.3
    if has_parent:
        k = rng.randint(1, len(fields) - 1)
        for i, f in enumerate(fields):
            f["parent"] = i < k
    ids = [f["id"] for f in fields]

    # effective parameters, then distributed over 1..3 providers
    eff = {}
    extra_in = "skip"
    r = rng.random()
    any_ids = [f["id"] for f in fields if f["type"] == "any"]
    if kind == "kwclass":
        extra_in = rng.choice(["kwargs", "kwargs", "skip", "forbid"])
    elif r < 0.25:
        extra_in = "forbid"
    elif r < 0.4 and kind == "dataclass":
        extra_in = "saturate"
    elif r < 0.6 and any_ids:
        extra_in = {"targets": rng.sample(any_ids, rng.choice([1, 1, 2]) if len(any_ids) > 1 else 1),
                    "form": rng.choice(["str", "list"])}
        if len(extra_in["targets"]) > 1:
            extra_in["form"] = "list"
    if want_list and extra_in not in ("skip", "forbid") and rng.random() < 0.9:
        extra_in = rng.choice(["skip", "forbid"])       # only ExtraSkip / ExtraForbid can be used with lists
    collect = extra_in not in ("skip", "forbid")
    allow_list = not collect or rng.random() < 0.1
    if rng.random() < 0.7:
        eff["extra_in"] = extra_in
    if kind != "kwclass":
        r = rng.random()
        if r < 0.2 and any_ids:
            t = rng.sample(any_ids, 1 if len(any_ids) == 1 else rng.choice([1, 2]))
            eff["extra_out"] = {"targets": t, "form": "str" if len(t) == 1 and rng.random() < 0.5 else "list"}
        elif r < 0.3:
            eff["extra_out"] = "extract"
        elif r < 0.4:
            eff["extra_out"] = "skip"
    if want_list or rng.random() < 0.1:
        eff["as_list"] = allow_list and (want_list or rng.random() < 0.5)
        if eff["as_list"] and rng.random() < 0.35:
            # "You can override the order of fields using map": positions with gaps
            pos = rng.sample(range(len(fields) + 2), len(fields))
            eff.setdefault("map", []).append({"k": "dict", "tbl": [[f["id"], [i]] for f, i in zip(fields, pos) if rng.random() < 0.8]})
    if rng.random() < 0.45:
        eff["style"] = rng.choice(STYLES + [None])
    if rng.random() < 0.3:
        eff["trim"] = rng.random() < 0.5
    if rng.random() < 0.3:
        eff["skip"] = gen_preds(rng, fields)
    if rng.random() < 0.2:
        eff["only"] = gen_preds(rng, fields) + [{"name": i} for i in ids if rng.random() < 0.6]
    if rng.random() < 0.6 and "map" not in eff:
        eff["map"] = gen_map(rng, fields, allow_list)
    if rng.random() < 0.45:
        eff["omit_default"] = rng.choice([True, True, False]) if rng.random() < 0.6 else gen_preds(rng, fields)

    n_prov = rng.choice([1, 1, 2, 2, 3])
    provs = [{"pred": "own", "chain": "first"} for _ in range(n_prov)]
    for p in provs:
        r = rng.random()
        if r < 0.15:
            p["pred"] = "any"
        elif r < 0.35 and has_parent:
            p["pred"] = "parent"
        if not oracle_friendly:
            r = rng.random()
            if r < 0.12:
                p["chain"] = "last"
            elif r < 0.17:
                p["chain"] = None
    for k, v in eff.items():
        i = rng.randrange(n_prov)
        if k == "map":
            # split the entries over providers
            for e in v:
                provs[rng.randrange(n_prov)].setdefault("map", []).append(e)
            continue
        provs[i][k] = v
        # noise: another provider sets the same parameter to something else
        if n_prov > 1 and rng.random() < 0.4:
            j = rng.choice([x for x in range(n_prov) if x != i])
            provs[j][k] = noise_value(rng, k, fields, v)
    prog = {"kind": kind, "fields": fields, "has_parent": has_parent, "providers": provs}
    return prog


def noise_value(rng, k, fields, v):
    if k == "as_list":
        return not v
    if k == "style":
        return rng.choice(STYLES + [None])
    if k == "trim":
        return not v
    if k in ("skip", "only"):
        return gen_preds(rng, fields)
    if k == "omit_default":
        return rng.choice([True, False])
    if k == "extra_in":
        return rng.choice(["skip", "forbid"])
    if k == "extra_out":
        return "skip"
    return v


# ---------------------------------------------------------------------------
# Lean requests
# ---------------------------------------------------------------------------

def lean_field(f, direction="inp"):
    out = {"id": f["id"], "required": f["required"] if direction == "inp" else f.get("out_required", True)}
    d = f.get("default")
    if d is not None:
        out["default"] = {"v": enc_val(factory_value(d["factory"]) if "factory" in d else d["v"])}
    return out


def lean_pred(preds, fields):
    if preds == "ANY":
        return {"ids": [f["id"] for f in fields]}
    return {"ids": [f["id"] for f in fields if preds_hold(preds, f)]}


def lean_extra(e):
    if isinstance(e, dict):
        return {"targets": list(e["targets"])}
    return e


def lean_map_entry(e, fields):
    k = e["k"]
    if k == "dict":
        return {"k": "dict", "tbl": e["tbl"]}
    if k == "const":
        return {"k": "const", "pred": lean_pred([e["pred"]], fields), "r": e["r"]}
    if k == "func":
        tbl = []
        for f in fields:
            res = norm_result(FUNCS[e["fn"]](f["id"]))
            tbl.append([f["id"], None if res is None else [{"ellipsis": True} if x is ... else x for x in res]])
        return {"k": "func", "pred": lean_pred([e["pred"]], fields), "tbl": tbl}
    return {"k": "skip_private"}


def lean_prov(p, fields):
    out = {"chain": p.get("chain"), "map": [lean_map_entry(e, fields) for e in p.get("map", [])]}
    if "skip" in p:
        out["skip"] = lean_pred(p["skip"], fields)
    if "only" in p:
        out["only"] = lean_pred(p["only"], fields)
    if "trim" in p:
        out["trim"] = p["trim"]
    if "style" in p:
        out["style"] = {"v": p["style"]}
    if "as_list" in p:
        out["as_list"] = p["as_list"]
    if "omit_default" in p:
        od = p["omit_default"]
        out["omit_default"] = {"ids": [f["id"] for f in fields] if od is True else []} if isinstance(od, bool) \
            else lean_pred(od, fields)
    if "extra_in" in p:
        out["extra_in"] = lean_extra(p["extra_in"])
    if "extra_out" in p:
        out["extra_out"] = lean_extra(p["extra_out"])
    return out


def style_tables(fields):
    names = set()
    for f in fields:
        names.add(f["id"])
        names.add(py_trim(f["id"]))
    return {st: {n: py_style(n, st) for n in names} for st in STYLES}


def lean_stack(prog, direction="inp"):
    fields = prog["fields"]
    classes = mro_classes(prog)
    stacks = []
    for cls in classes:
        stacks.append([lean_prov(p, fields) for p in providers_for(prog, cls if cls in ("own", "parent") else "object")])
    return {"fields": [lean_field(f, direction) for f in fields], "own": stacks[0], "parents": stacks[1:],
            "styles": style_tables(fields)}


# ---------------------------------------------------------------------------
# real side
# ---------------------------------------------------------------------------

class Neg(int):
    """marker type: a field of this type has a non-identity codec (loader and dumper negate)"""


class Real:
    def __init__(self):
        import adaptix
        from adaptix import (
            Chain,
            DebugTrail,
            ExtraForbid,
            ExtraKwargs,
            ExtraSkip,
            NameStyle,
            Retort,
            dumper,
            loader,
            name_mapping,
        )
        from adaptix._internal.model_tools.definitions import DefaultFactory, DefaultValue, NoDefault
        from adaptix._internal.morphing.model import crown_definitions as cd
        from adaptix._internal.morphing.model.basic_gen import CodeGenAccumulator
        from adaptix._internal.provider.loc_stack_filtering import LocStack, P
        from adaptix._internal.provider.location import TypeHintLoc
        from adaptix._internal.provider.shape_provider import InputShapeRequest, OutputShapeRequest
        from adaptix._internal.provider.value_provider import ValueProvider
        from adaptix._internal.special_cases_optimization import get_default_clause
        from adaptix.load_error import LoadError, TypeLoadError

        self.adaptix = adaptix
        self.Chain, self.DebugTrail, self.NameStyle, self.Retort = Chain, DebugTrail, NameStyle, Retort
        self.ExtraForbid, self.ExtraKwargs, self.ExtraSkip = ExtraForbid, ExtraKwargs, ExtraSkip
        self.dumper, self.loader, self.name_mapping = dumper, loader, name_mapping
        self.DefaultFactory, self.DefaultValue, self.NoDefault = DefaultFactory, DefaultValue, NoDefault
        self.cd = cd
        self.CodeGenAccumulator = CodeGenAccumulator
        self.LocStack, self.P, self.TypeHintLoc = LocStack, P, TypeHintLoc
        self.InputShapeRequest, self.OutputShapeRequest = InputShapeRequest, OutputShapeRequest
        self.ValueProvider = ValueProvider
        self.get_default_clause = get_default_clause
        self.LoadError, self.TypeLoadError = LoadError, TypeLoadError

        def strict_int(data):
            if type(data) is not int:
                raise TypeLoadError(int, data)
            return data

        def strict_str(data):
            if type(data) is not str:
                raise TypeLoadError(str, data)
            return data

        def neg_loader(data):
            if type(data) is not int:
                raise TypeLoadError(int, data)
            return -data

        class DumpMarkerError(Exception):
            pass

        self.DumpMarkerError = DumpMarkerError

        def int_dumper(data):
            if data == "FAIL":
                raise DumpMarkerError("FAIL")
            return data

        def neg_dumper(data):
            if data == "FAIL":
                raise DumpMarkerError("FAIL")
            return -data

        # field codecs are parameters of the property: fixed, total, mode independent functions
        self.codec_recipe = [
            loader(int, strict_int), loader(str, strict_str), loader(Neg, neg_loader),
            dumper(int, int_dumper), dumper(str, int_dumper), dumper(Neg, neg_dumper),
        ]
        self.py_type = {"any": Any, "int": int, "str": str, "neg": Neg}

    # -- classes -----------------------------------------------------------
    def py_default(self, f):
        d = f.get("default")
        if d is None:
            return dataclasses.MISSING, dataclasses.MISSING
        if "factory" in d:
            return dataclasses.MISSING, FACTORIES[d["factory"]]
        return d["v"], dataclasses.MISSING

    def build_classes(self, prog):
        """returns (own class, parent class or None)"""
        fields = prog["fields"]
        kind = prog["kind"]
        if kind == "typeddict":
            # required keys in a total base, optional ones in a total=False subclass (no Required[] wrappers
            # in the field types, so that type predicates see the plain type)
            ns = {"Any": Any, "Neg": Neg, "TypedDict": typing.TypedDict}
            tpn = {"any": "Any", "int": "int", "str": "str", "neg": "Neg"}
            req = "\n".join(f"    {f['id']}: {tpn[f['type']]}" for f in fields if f["required"]) or "    pass"
            opt = "\n".join(f"    {f['id']}: {tpn[f['type']]}" for f in fields if not f["required"]) or "    pass"
            exec(f"class TDBase(TypedDict):\n{req}\nclass TD(TDBase, total=False):\n{opt}\n", ns)  # noqa: S102
            return ns["TD"], None
        if kind == "kwclass":
            # plain class whose __init__ takes **kwargs (the only place where ExtraKwargs is meaningful)
            params = []
            ordered = [f for f in fields if f["default"] is None] + [f for f in fields if f["default"] is not None]
            ns = {"Any": Any, "Neg": Neg, "_dfl": {}}
            for f in ordered:
                tp = {"any": "Any", "int": "int", "str": "str", "neg": "Neg"}[f["type"]]
                if f["default"] is None:
                    params.append(f"{f['id']}: {tp}")
                else:
                    d = f["default"]
                    if "factory" in d:
                        ns["_dfl"][f["id"]] = factory_value(d["factory"])
                    else:
                        ns["_dfl"][f["id"]] = d["v"]
                    params.append(f"{f['id']}: {tp} = _dfl[{f['id']!r}]")
            body = "\n".join(f"        self.{f['id']} = {f['id']}" for f in ordered)
            src = (f"class KW:\n    def __init__(self, {', '.join(params)}, **kwargs):\n{body}\n"
                   f"        self.kwargs_ = kwargs\n")
            exec(src, ns)  # noqa: S102 - harness-generated source from a fixed template
            # parameter order differs from field order: report the order adaptix will see
            prog["fields"] = ordered
            return ns["KW"], None

        def mk(name, flds, bases=()):
            specs = []
            need_kw = False
            seen_default = False
            for f in flds:
                dv, df = self.py_default(f)
                has = dv is not dataclasses.MISSING or df is not dataclasses.MISSING
                if seen_default and not has:
                    need_kw = True
                seen_default = seen_default or has
                kw = {}
                if dv is not dataclasses.MISSING:
                    kw["default"] = dv
                if df is not dataclasses.MISSING:
                    kw["default_factory"] = df
                specs.append((f["id"], self.py_type[f["type"]], dc_field(**kw)))
            return specs, need_kw

        if prog.get("has_parent"):
            pf = [f for f in fields if f.get("parent")]
            cf = [f for f in fields if not f.get("parent")]
            specs_p, kw_p = mk("Parent", pf)
            specs_c, kw_c = mk("Child", cf)
            kw = kw_p or kw_c or (any(f["default"] is not None for f in pf) and any(f["default"] is None for f in cf))
            parent = dataclasses.make_dataclass("Parent", specs_p, kw_only=kw)
            child = dataclasses.make_dataclass("Child", specs_c, bases=(parent,), kw_only=kw)
            return child, parent
        specs, kw = mk("Model", fields)
        return dataclasses.make_dataclass("Model", specs, kw_only=kw), None

    def prepare(self, prog):
        """build the classes and align the abstract description with the shapes adaptix derives from them
        (field order, is_required of the input and of the output shape); introspection itself is C17"""
        own, parent = self.build_classes(prog)
        retort = self.Retort()
        loc_stack = self.LocStack(self.TypeHintLoc(type=own))
        inp = retort._facade_provide(self.InputShapeRequest(loc_stack=loc_stack), error_message="shape")
        by_id = {f["id"]: f for f in prog["fields"]}
        if set(by_id) != {f.id for f in inp.fields}:
            raise InfraError(f"shape fields {[f.id for f in inp.fields]} differ from the description {list(by_id)}")
        prog["fields"] = [by_id[f.id] for f in inp.fields]
        for f in inp.fields:
            if by_id[f.id]["required"] != f.is_required:
                raise InfraError(f"is_required of {f.id} differs from the description")
        if prog["kind"] != "kwclass":
            out = retort._facade_provide(self.OutputShapeRequest(loc_stack=loc_stack), error_message="shape")
            if [f.id for f in out.fields] != [f.id for f in inp.fields]:
                raise InfraError("input and output shapes order their fields differently")
            for f in out.fields:
                by_id[f.id]["out_required"] = f.is_required
        return own, parent

    # -- providers ---------------------------------------------------------
    def real_pred(self, pred):
        if "name" in pred:
            return pred["name"]
        if "type" in pred:
            return {"int": int, "str": str}[pred["type"]]
        return pred["regex"]

    def real_result(self, res):
        if res is None:
            return None
        out = [... if (isinstance(x, dict) and "ellipsis" in x) else x for x in res]
        if len(out) == 1:
            return out[0]
        return tuple(out)

    def real_map(self, entries):
        if len(entries) == 1 and entries[0]["k"] == "dict":
            return {fid: self.real_result(r) for fid, r in entries[0]["tbl"]}
        out = []
        for e in entries:
            if e["k"] == "dict":
                out.append({fid: self.real_result(r) for fid, r in e["tbl"]})
            elif e["k"] == "const":
                out.append((self.real_pred(e["pred"]), self.real_result(e["r"])))
            else:
                fn = FUNCS[e["fn"]]
                out.append((self.real_pred(e["pred"]), (lambda fn_: lambda shape, fld: fn_(fld.id))(fn)))
        return out

    def real_extra_in(self, e):
        if e == "skip":
            return self.ExtraSkip()
        if e == "forbid":
            return self.ExtraForbid()
        if e == "kwargs":
            return self.ExtraKwargs()
        if e == "saturate":
            return saturator
        return e["targets"][0] if e.get("form") == "str" else list(e["targets"])

    def real_extra_out(self, e):
        if e == "skip":
            return self.ExtraSkip()
        if e == "extract":
            return extractor
        return e["targets"][0] if e.get("form") == "str" else list(e["targets"])

    def real_provider(self, p, own, parent):
        kw = {}
        if "skip" in p:
            kw["skip"] = [self.real_pred(x) for x in p["skip"]]
        if "only" in p:
            kw["only"] = [self.real_pred(x) for x in p["only"]]
        if "map" in p:
            kw["map"] = self.real_map(p["map"])
        if "trim" in p:
            kw["trim_trailing_underscore"] = p["trim"]
        if "style" in p:
            kw["name_style"] = None if p["style"] is None else self.NameStyle[p["style"]]
        if "as_list" in p:
            kw["as_list"] = p["as_list"]
        if "omit_default" in p:
            od = p["omit_default"]
            kw["omit_default"] = od if isinstance(od, bool) else [self.real_pred(x) for x in od]
        if "extra_in" in p:
            kw["extra_in"] = self.real_extra_in(p["extra_in"])
        if "extra_out" in p:
            kw["extra_out"] = self.real_extra_out(p["extra_out"])
        kw["chain"] = {"first": self.Chain.FIRST, "last": self.Chain.LAST, None: None}[p.get("chain", "first")]
        if p["pred"] == "any":
            return self.name_mapping(**kw)
        return self.name_mapping(own if p["pred"] == "own" else parent, **kw)

    def retort(self, prog, own, parent, debug_trail="all", strict=True, extra_recipe=()):
        dt = {"disable": self.DebugTrail.DISABLE, "first": self.DebugTrail.FIRST, "all": self.DebugTrail.ALL}[debug_trail]
        return self.Retort(
            recipe=[*extra_recipe, *(self.real_provider(p, own, parent) for p in prog["providers"]), *self.codec_recipe],
            debug_trail=dt, strict_coercion=strict,
        )

    # -- layouts -----------------------------------------------------------
    def layouts(self, prog, own, parent):
        """(input layout | error, output layout | error) from the real BuiltinNameLayoutProvider"""
        from adaptix._internal.provider.shape_provider import provide_generic_resolved_shape  # noqa: F401
        retort = self.retort(prog, own, parent)
        loc_stack = self.LocStack(self.TypeHintLoc(type=own))
        out = []
        for shape_req, layout_req, enc in (
            (self.InputShapeRequest, self.cd.InputNameLayoutRequest, self.enc_inp_layout),
            (self.OutputShapeRequest, self.cd.OutputNameLayoutRequest, self.enc_out_layout),
        ):
            try:
                shape = retort._facade_provide(shape_req(loc_stack=loc_stack), error_message="shape")
            except Exception as e:  # noqa: BLE001
                out.append({"error": "no-shape", "detail": type(e).__name__})
                continue
            try:
                layout = retort._facade_provide(layout_req(loc_stack=loc_stack, shape=shape), error_message="layout")
            except Exception as e:  # noqa: BLE001
                out.append(self.classify_layout_error(e))
                continue
            out.append(enc(layout))
        return out

    def classify_layout_error(self, exc):
        texts = []

        def walk(e, depth=0):
            if e is None or depth > 8:
                return
            texts.append(f"{type(e).__name__}: {e}")
            for sub in getattr(e, "exceptions", ()) or ():
                walk(sub, depth + 1)
            walk(e.__cause__, depth + 1)
            if e.__context__ is not e.__cause__:
                walk(e.__context__, depth + 1)

        walk(exc)
        blob = "\n".join(texts)
        table = [
            ("are skipped", "requiredSkipped"), ("Inconsistent path elements", "inconsistent"),
            ("pointed to several fields", "duplicates"), ("must not be a prefix", "prefix"),
            ("can not be mapped to list elements", "optionalAtList"),
            ("Can not use collecting extra_in with list mapping", "collectWithList"),
            ("overlay contains omitted values", "schema:omittedValues"),
        ]
        for needle, kind in table:
            if needle in blob:
                return {"error": kind}
        return {"error": "other", "detail": blob[:300]}

    def enc_policy(self, p):
        return {self.cd.ExtraSkip(): "skip", self.cd.ExtraForbid(): "forbid", self.cd.ExtraCollect(): "collect"}[p]

    def enc_inp_crown(self, c):
        cd = self.cd
        if isinstance(c, cd.InpDictCrown):
            return {"t": "dict", "map": [[k, self.enc_inp_crown(v)] for k, v in c.map.items()],
                    "policy": self.enc_policy(c.extra_policy)}
        if isinstance(c, cd.InpListCrown):
            return {"t": "list", "map": [self.enc_inp_crown(v) for v in c.map], "policy": self.enc_policy(c.extra_policy)}
        if isinstance(c, cd.InpFieldCrown):
            return {"t": "field", "id": c.id}
        if isinstance(c, cd.InpNoneCrown):
            return {"t": "none"}
        raise TypeError(c)

    def sieve_default(self, sieve):
        clause = self.get_default_clause(sieve)
        if isinstance(clause, self.DefaultValue):
            return enc_val(clause.value)
        if isinstance(clause, self.DefaultFactory):
            return enc_val(clause.factory())
        raise TypeError(clause)

    def enc_out_crown(self, c):
        cd = self.cd
        if isinstance(c, cd.OutDictCrown):
            return {"t": "dict", "map": [[k, self.enc_out_crown(v)] for k, v in c.map.items()],
                    "sieves": sorted([k, self.sieve_default(s)] for k, s in c.sieves.items())}
        if isinstance(c, cd.OutListCrown):
            return {"t": "list", "map": [self.enc_out_crown(v) for v in c.map]}
        if isinstance(c, cd.OutFieldCrown):
            return {"t": "field", "id": c.id}
        if isinstance(c, cd.OutNoneCrown):
            ph = c.placeholder
            return {"t": "none", "placeholder": enc_val(ph.value if isinstance(ph, self.DefaultValue) else ph.factory())}
        raise TypeError(c)

    def enc_inp_layout(self, layout):
        cd = self.cd
        m = layout.extra_move
        move = None if m is None else "kwargs" if m == cd.ExtraKwargs() else \
            {"targets": list(m.fields)} if isinstance(m, cd.ExtraTargets) else "saturate"
        return {"crown": self.enc_inp_crown(layout.crown), "move": move}

    def enc_out_layout(self, layout):
        cd = self.cd
        m = layout.extra_move
        move = None if m is None else {"targets": list(m.fields)} if isinstance(m, cd.ExtraTargets) else "extract"
        return {"crown": self.enc_out_crown(layout.crown), "move": move}


def saturator(obj, extra):
    obj.saturated_ = extra


class ExtractMarkerError(Exception):
    pass


def extractor(obj):
    res = getattr(obj, "extract_result_", None)
    if res is None:
        return {"xk": 1}
    if "err" in res:
        raise ExtractMarkerError("extract")
    return dict(res["v"])


def canon_layout(j):
    """order-insensitive parts of a layout reply made canonical"""
    if j is None or "error" in j:
        if j and j.get("error") in ("requiredSkipped", "optionalAtList"):
            return {"error": j["error"]}
        return {"error": j["error"]} if j else j

    def crown(c):
        if c["t"] == "dict":
            out = {"t": "dict", "map": [[k, crown(v)] for k, v in c["map"]]}
            if "policy" in c:
                out["policy"] = c["policy"]
            if "sieves" in c:
                out["sieves"] = sorted([k, canon_val(d)] for k, d in c["sieves"])
            return out
        if c["t"] == "list":
            out = {"t": "list", "map": [crown(v) for v in c["map"]]}
            if "policy" in c:
                out["policy"] = c["policy"]
            return out
        if c["t"] == "none" and "placeholder" in c:
            return {"t": "none", "placeholder": canon_val(c["placeholder"])}
        return c

    return {"crown": crown(j["crown"]), "move": j["move"]}


# ---------------------------------------------------------------------------
# suite (a): layouts
# ---------------------------------------------------------------------------

def program_kinds(prog):
    kinds = [f"model-{prog['kind']}"]
    for p in prog["providers"]:
        for k in p:
            if k not in ("pred", "chain"):
                kinds.append(f"param-{k}")
        if p.get("chain", "first") != "first":
            kinds.append(f"chain-{p.get('chain')}")
        if p["pred"] != "own":
            kinds.append(f"pred-{p['pred']}")
    if len(prog["providers"]) > 1:
        kinds.append("chained-providers")
    return kinds


def suite_layouts(ctx: Ctx, real: Real, drv, n_programs: int):
    progs = []
    for i in range(n_programs):
        prog = gen_program(ctx.rng, oracle_friendly=(i % 2 == 0))
        try:
            own, parent = real.prepare(prog)
        except Exception as e:  # noqa: BLE001 - a generator slip must be loud
            raise InfraError(f"cannot build classes for {prog}: {e!r}")
        progs.append((prog, own, parent))
    requests, meta = [], []
    for prog, own, parent in progs:
        for d in ("inp", "out"):
            if d == "out" and prog["kind"] == "kwclass":
                continue     # a plain class has no output shape
            st = lean_stack(prog, d)
            requests.append({"op": "layout", "dir": d, **st})
            meta.append((prog, own, parent, d, "layout"))
            requests.append({"op": "path_of", "dir": d, **st})
            meta.append((prog, own, parent, d, "path_of"))
    replies = drv.batch(requests) if drv else [None] * len(requests)
    n = {"layout-inp": 0, "layout-out": 0, "pathof-spec": 0, "out-crown-wellformed": 0}
    bad = {"layout-inp": 0, "layout-out": 0, "pathof-spec": 0, "out-crown-wellformed": 0}
    cache = {}
    for (prog, own, parent, d, what), rep in zip(meta, replies):
        key = id(prog)
        if key not in cache:
            cache = {key: real.layouts(prog, own, parent)}
        real_inp, real_out = cache[key]
        real_l = real_inp if d == "inp" else real_out
        case = {"suite": f"layout-{d}", "prog": prog}
        if what == "layout":
            ok = "error" not in real_l
            ctx.note_case(case, nontrivial=ok and len(prog["fields"]) >= 2, kind=f"layout-{d}-{'ok' if ok else real_l['error']}")
            if d == "inp":
                for k in program_kinds(prog):
                    ctx.dist[k] += 1
            ctx.sample({"suite": f"layout-{d}", "prog": prog, "real": real_l}, every=173)
            if real_l.get("error") in ("other", "no-shape"):
                # the real provider failed in a way the model has no name for: outside the modelled domain
                ctx.dist[f"layout-{d}-unmodelled-error"] += 1
                if rep is not None:
                    n[f"layout-{d}"] += 1
                    bad[f"layout-{d}"] += 1
                    ctx.disagree(f"layout-{d}", case, real_l, rep)
                continue
            if rep is not None:
                n[f"layout-{d}"] += 1
                if "ok" not in rep or canon_layout(rep["ok"]) != canon_layout(real_l):
                    bad[f"layout-{d}"] += 1
                    ctx.disagree(f"layout-{d}", case, canon_layout(real_l), rep)
                elif d == "out" and ok:
                    # hypothesis of the dumper theorems (`OutCrown.wf`: distinct keys per dict node, sieves on field
                    # children, required fields at list positions) evaluated by the driver on the crown, which
                    # equals the real one
                    n["out-crown-wellformed"] += 1
                    if rep["ok"].get("wf") is not True:
                        bad["out-crown-wellformed"] += 1
                        ctx.disagree("out-crown-wellformed", case, "well-formed output crown expected", rep)
        else:
            eff = py_effective(prog)
            if eff is None or rep is None:
                continue
            mine = [[f["id"], py_path_of(prog, eff, d, f)] for f in prog["fields"]]
            n["pathof-spec"] += 1
            if rep.get("ok") != mine:
                bad["pathof-spec"] += 1
                ctx.disagree("pathof-spec", {"suite": "pathof-spec", "prog": prog, "dir": d}, mine, rep)
    if drv:
        for k in n:
            ctx.suite(k, n[k], bad[k])


# ---------------------------------------------------------------------------
# systematic inputs for a crown (JSON form): each mapped key present / absent / ill-typed,
# each container node of right / wrong kind, extra keys present / absent
# ---------------------------------------------------------------------------

GOOD = {"any": ["v", 3, None, [1], {"z": 1}], "int": [5, 0, -2], "str": ["s", ""], "neg": [4, -1]}
BAD = {"int": ["x", None, True, [1]], "str": [1, None], "neg": ["x", None, [2]]}


def crown_sites(crown, path=()):
    """(path, crown) of every node, root first"""
    yield path, crown
    if crown["t"] == "dict":
        for k, c in crown["map"]:
            yield from crown_sites(c, (*path, k))
    elif crown["t"] == "list":
        for i, c in enumerate(crown["map"]):
            yield from crown_sites(c, (*path, i))


def base_datum(crown, kinds, rng, salt=0):
    t = crown["t"]
    if t == "dict":
        return {k: base_datum(c, kinds, rng, salt) for k, c in crown["map"]}
    if t == "list":
        return [base_datum(c, kinds, rng, salt) for c in crown["map"]]
    if t == "field":
        pool = GOOD[kinds.get(crown["id"], "any")]
        return pool[(salt + len(crown["id"])) % len(pool)]
    return rng.choice(["gap", None, 0])


def get_at(data, path):
    for el in path:
        data = data[el]
    return data


def set_at(data, path, value):
    """returns a new datum with `value` at `path` (path must exist)"""
    if not path:
        return value
    head, rest = path[0], path[1:]
    if isinstance(data, dict):
        out = dict(data)
        out[head] = set_at(data[head], rest, value)
        return out
    out = list(data)
    out[head] = set_at(data[head], rest, value)
    return out


def del_at(data, path):
    """remove the element: a dict key is deleted, a list is truncated at the index"""
    parent = get_at(data, path[:-1])
    if isinstance(parent, dict):
        new = {k: v for k, v in parent.items() if k != path[-1]}
    else:
        new = list(parent[:path[-1]])
    return set_at(data, path[:-1], new)


WRONG_FOR_DICT = [None, 5, "text", [], [1, 2], True, Opaque("o")]
WRONG_FOR_LIST = [None, 5, {}, {"a": 1}, True, Opaque("o"), "text", "", "abcdefgh"]


def mutations(crown, kinds, base):
    """list of (label, datum) : one fault per datum"""
    out = [("valid", base)]
    for path, c in crown_sites(crown):
        t = c["t"]
        ps = "/".join(map(str, path))
        if path:
            out.append((f"absent:{t}@{ps}", del_at(base, path)))
        if t == "field":
            for i, bad in enumerate(BAD.get(kinds.get(c["id"], "any"), [])):
                out.append((f"illtyped{i}@{ps}", set_at(base, path, bad)))
        elif t == "dict":
            for i, w in enumerate(WRONG_FOR_DICT):
                out.append((f"wrongkind{i}:dict@{ps}", set_at(base, path, w)))
            cur = get_at(base, path)
            out.append((f"extra1@{ps}", set_at(base, path, {**cur, "zz_Unknown": 1})))
            out.append((f"extra2@{ps}", set_at(base, path, {"U_first": [1], **cur, "zz_Unknown": None})))
            out.append((f"empty:dict@{ps}", set_at(base, path, {})))
        elif t == "list":
            for i, w in enumerate(WRONG_FOR_LIST):
                out.append((f"wrongkind{i}:list@{ps}", set_at(base, path, w)))
            cur = get_at(base, path)
            out.append((f"extraitem@{ps}", set_at(base, path, [*cur, "more"])))
            out.append((f"extraitems@{ps}", set_at(base, path, [*cur, 1, 2])))
            out.append((f"empty:list@{ps}", set_at(base, path, [])))
            if cur:
                out.append((f"short@{ps}", set_at(base, path, cur[:-1])))
            if all(x["t"] in ("field", "none") for x in c["map"]) and cur:
                out.append((f"strseq@{ps}", set_at(base, path, "x" * len(cur))))
        else:
            out.append((f"gapvalue@{ps}", set_at(base, path, {"any": "thing"})))
    return out


def combined_mutations(rng, crown, kinds, base, singles, n):
    """n data with two or three independent faults (exercises error accumulation of DebugTrail.ALL)"""
    out = []
    sites = list(crown_sites(crown))
    for _ in range(n):
        datum = base
        labels = []
        for _ in range(rng.choice([2, 2, 3])):
            path, c = rng.choice(sites)
            try:
                get_at(datum, path)
            except (KeyError, IndexError, TypeError):
                continue
            t = c["t"]
            r = rng.random()
            try:
                if t == "field":
                    bad = BAD.get(kinds.get(c["id"], "any"))
                    if bad and r < 0.6:
                        datum = set_at(datum, path, rng.choice(bad))
                        labels.append("illtyped")
                    elif path:
                        datum = del_at(datum, path)
                        labels.append("absent")
                elif t == "dict":
                    cur = get_at(datum, path)
                    if r < 0.4 and isinstance(cur, dict):
                        datum = set_at(datum, path, {**cur, f"Zz{len(labels)}": 0})
                        labels.append("extra")
                    elif r < 0.7:
                        datum = set_at(datum, path, rng.choice(WRONG_FOR_DICT))
                        labels.append("wrongkind")
                    elif path:
                        datum = del_at(datum, path)
                        labels.append("absent")
                elif t == "list":
                    cur = get_at(datum, path)
                    if r < 0.3 and isinstance(cur, list):
                        datum = set_at(datum, path, [*cur, "more"])
                        labels.append("extraitem")
                    elif r < 0.5 and isinstance(cur, list) and cur:
                        datum = set_at(datum, path, cur[:-1])
                        labels.append("short")
                    elif r < 0.8:
                        datum = set_at(datum, path, rng.choice(WRONG_FOR_LIST))
                        labels.append("wrongkind")
                    elif path:
                        datum = del_at(datum, path)
                        labels.append("absent")
            except (KeyError, IndexError, TypeError):
                continue
        if len(labels) >= 2:
            out.append(("combo:" + "+".join(labels), datum))
    return out


# ---------------------------------------------------------------------------
# canonical outcomes
# ---------------------------------------------------------------------------

def safe_enc(v):
    try:
        return canon_val(enc_val(v))
    except ValueError:
        return {"repr": repr(v)[:80]}


def canon_real_error(real: "Real", e):
    from adaptix import load_error as le
    from adaptix.struct_trail import get_trail
    collections_abc = __import__("collections.abc").abc
    trail = []
    for el in get_trail(e):
        trail.append(el if isinstance(el, (str, int)) else repr(el))
    out = {"cls": type(e).__name__, "trail": trail}
    if isinstance(e, le.ExcludedTypeLoadError):
        return out                               # field order of this class is C05/C06's subject
    if isinstance(e, le.TypeLoadError):
        ex = e.expected_type
        out["expected"] = "Mapping" if ex is collections_abc.Mapping else "Sequence" if ex is collections_abc.Sequence \
            else getattr(ex, "__name__", repr(ex))
        out["input"] = safe_enc(e.input_value)
    elif isinstance(e, (le.NoRequiredFieldsLoadError, le.ExtraFieldsLoadError)):
        out["fields"] = sorted(e.fields)
        out["input"] = safe_enc(e.input_value)
    elif isinstance(e, (le.NoRequiredItemsLoadError, le.ExtraItemsLoadError)):
        out["len"] = e.expected_len
        out["input"] = safe_enc(e.input_value)
    elif hasattr(e, "input_value"):
        out["input"] = safe_enc(e.input_value)
    return out


def canon_model_error(e):
    out = {"cls": e["cls"], "trail": e["trail"]}
    if e["cls"] == "ExcludedTypeLoadError":
        return out
    for k in ("expected", "len"):
        if k in e:
            out[k] = e[k]
    if "fields" in e:
        out["fields"] = sorted(e["fields"])
    if "input" in e:
        out["input"] = canon_val(e["input"])
    return out


def sort_errors(es):
    import json
    return sorted(es, key=lambda x: json.dumps(x, sort_keys=True, default=repr))


def canon_model_load(rep):
    if rep is None or "ok" not in rep:
        return rep
    r = rep["ok"]
    if r["r"] == "ok":
        out = {"r": "ok", "args": {k: canon_val(v) for k, v in r["args"]}}
        if "extra" in r:
            out["extra"] = canon_val(r["extra"])
        return out
    if r["r"] == "error":
        return {"r": "error", "e": canon_model_error(r["e"])}
    if r["r"] == "aggregate":
        return {"r": "aggregate", "es": sort_errors([canon_model_error(e) for e in r["es"]])}
    return r


def run_real_loader(real: "Real", loader_fn, datum, mode, observe):
    """canonical outcome of a real loader call; `observe(obj)` extracts {'args':..., 'extra':...}"""
    from adaptix.load_error import AggregateLoadError, LoadError
    try:
        obj = loader_fn(datum)
    except AggregateLoadError as e:
        if mode != "all":
            return {"r": "error", "e": {"cls": "AggregateLoadError(unexpected mode)"}}
        return {"r": "aggregate", "es": sort_errors([canon_real_error(real, x) for x in e.exceptions])}
    except LoadError as e:
        return {"r": "error", "e": canon_real_error(real, e)}
    except Exception as e:  # noqa: BLE001
        return {"r": "escape", "cls": type(e).__name__, "detail": str(e)[:120]}
    return {"r": "ok", **observe(obj)}


# ---------------------------------------------------------------------------
# suite (b1): generated code for hand-made crowns (shape and layout injected like the unit tests do)
# ---------------------------------------------------------------------------

@dataclass
class Gauge:
    kwargs: dict
    saturated: Optional[dict] = None


def gauge(**kwargs):
    return Gauge(kwargs)


def gauge_saturator(obj, extra):
    obj.saturated = extra


def gen_crown_program(rng):
    """a random InputShape/OutputShape + crown + extra move, not restricted to what name_mapping can produce"""
    n = rng.choice([1, 2, 3, 3, 4, 5])
    ids = rng.sample(["a", "b", "c", "d", "e", "f"], n)
    fields = []
    for fid in ids:
        tp = rng.choice(TYPE_POOL)
        r = rng.random()
        if r < 0.5:
            fields.append({"id": fid, "type": tp, "required": True, "default": None})
        elif r < 0.8:
            dflt = {"int": 7, "neg": 7, "str": "dflt", "any": rng.choice([None, True, 0, "d", [], {}])}[tp]
            fields.append({"id": fid, "type": tp, "required": False, "default": {"v": dflt}})
        else:
            fields.append({"id": fid, "type": tp, "required": False, "default": None})       # packed
    move = rng.choice([None, None, None, "kwargs", "saturate", "targets", "targets"])
    targets = []
    if move == "targets":
        cands = [f for f in fields if f["type"] == "any"]
        if cands and len(fields) > 1:
            targets = [f["id"] for f in rng.sample(cands, 1 if len(cands) == 1 else rng.choice([1, 1, 2]))]
            move = {"targets": targets}
        else:
            move = None
    can_collect = move is not None
    in_crown = [f for f in fields if f["id"] not in targets and (f["required"] or rng.random() < 0.85)]

    def policy():
        return rng.choice(["skip", "forbid", "collect"] if can_collect else ["skip", "forbid"])

    def build(fs, depth, under_list=False):
        is_list = rng.random() < 0.3 and all(f["required"] for f in fs)
        if depth == 0 and move == "kwargs":
            is_list = False      # `**extra` needs a mapping; the provider refuses collecting policies with lists
        children = []
        fs = list(fs)
        rng.shuffle(fs)
        i = 0
        while i < len(fs):
            if depth < 2 and rng.random() < 0.3:
                k = rng.randint(1, min(3, len(fs) - i))
                children.append(build(fs[i:i + k], depth + 1))
                i += k
            else:
                children.append({"t": "field", "id": fs[i]["id"]})
                i += 1
        while rng.random() < 0.2:
            children.insert(rng.randint(0, len(children)), {"t": "none"})
        if depth < 2 and rng.random() < 0.08:
            children.append(build([], depth + 1))
        if is_list:
            return {"t": "list", "map": children, "policy": rng.choice(["skip", "forbid"])}
        keys = rng.sample(["k", "x", "y", "z", "w", "q", "m", "n2", "o", "p"], len(children))
        return {"t": "dict", "map": [[k, c] for k, c in zip(keys, children)], "policy": policy()}

    crown = build(in_crown, 0)
    if targets and crown.get("policy") != "collect" and any(not f["required"] for f in fields if f["id"] in targets):
        # ExtraTargets with a non-collecting root and an optional target is not producible by the name-layout
        # provider (targets imply ExtraCollect); the generated code then references an unassigned `f_<target>`
        # (NameError) — recorded in notes/C03.md, outside the property's quantifier
        if crown["t"] == "dict":
            crown["policy"] = "collect"
        else:
            for f in fields:
                if f["id"] in targets:
                    f["required"], f["default"] = True, None
    return {"fields": fields, "move": move, "crown": crown}


class CrownReal:
    """real loaders/dumpers for hand-made crowns"""

    def __init__(self, real: Real):
        from adaptix import bound
        from adaptix._internal.model_tools.definitions import (
            InputField,
            InputShape,
            OutputField,
            OutputShape,
            Param,
            ParamKind,
            ParamKwargs,
            create_attr_accessor,
            create_key_accessor,
        )
        from adaptix._internal.morphing.model.dumper_provider import ModelDumperProvider
        from adaptix._internal.morphing.model.loader_provider import ModelLoaderProvider
        self.real = real
        self.bound = bound
        self.InputField, self.InputShape, self.Param, self.ParamKind, self.ParamKwargs = \
            InputField, InputShape, Param, ParamKind, ParamKwargs
        self.OutputField, self.OutputShape = OutputField, OutputShape
        self.create_attr_accessor, self.create_key_accessor = create_attr_accessor, create_key_accessor
        self.ModelDumperProvider, self.ModelLoaderProvider = ModelDumperProvider, ModelLoaderProvider

    def default(self, f):
        r = self.real
        d = f.get("default")
        if d is None:
            return r.NoDefault()
        v = d["v"]
        if v == [] and type(v) is list:
            return r.DefaultFactory(list)
        if v == {} and type(v) is dict:
            return r.DefaultFactory(dict)
        return r.DefaultValue(v)

    def inp_crown(self, c):
        cd = self.real.cd
        pol = {"skip": cd.ExtraSkip(), "forbid": cd.ExtraForbid(), "collect": cd.ExtraCollect()}
        if c["t"] == "dict":
            return cd.InpDictCrown({k: self.inp_crown(v) for k, v in c["map"]}, extra_policy=pol[c["policy"]])
        if c["t"] == "list":
            return cd.InpListCrown(tuple(self.inp_crown(v) for v in c["map"]), extra_policy=pol[c["policy"]])
        if c["t"] == "field":
            return cd.InpFieldCrown(c["id"])
        return cd.InpNoneCrown()

    def loader(self, prog, mode, strict):
        r = self.real
        cd = r.cd
        fields = prog["fields"]
        shape = self.InputShape(
            fields=tuple(
                self.InputField(id=f["id"], type=r.py_type[f["type"]], default=self.default(f), metadata={},
                                is_required=f["required"], original=None)
                for f in fields
            ),
            params=tuple(self.Param(field_id=f["id"], name=f["id"], kind=self.ParamKind.KW_ONLY) for f in fields),
            constructor=gauge,
            kwargs=self.ParamKwargs(Any),
            overriden_types=frozenset(f["id"] for f in fields),
        )
        mv = prog["move"]
        move = None if mv is None else cd.ExtraKwargs() if mv == "kwargs" else \
            cd.ExtraSaturate(gauge_saturator) if mv == "saturate" else cd.ExtraTargets(tuple(mv["targets"]))
        layout = cd.InputNameLayout(crown=self.inp_crown(prog["crown"]), extra_move=move)
        dt = {"disable": r.DebugTrail.DISABLE, "first": r.DebugTrail.FIRST, "all": r.DebugTrail.ALL}[mode]
        retort = r.Retort(
            recipe=[
                r.ValueProvider(r.InputShapeRequest, shape),
                r.ValueProvider(cd.InputNameLayoutRequest, layout),
                *r.codec_recipe,
            ],
            debug_trail=dt, strict_coercion=strict,
        )
        return retort.get_loader(Gauge)

    def observe(self, prog):
        ids = {f["id"] for f in prog["fields"]}
        mv = prog["move"]

        def obs(obj: Gauge):
            args = {k: safe_enc(v) for k, v in obj.kwargs.items() if k in ids}
            out = {"args": args}
            if mv == "kwargs":
                out["extra"] = safe_enc({k: v for k, v in obj.kwargs.items() if k not in ids})
            elif mv == "saturate":
                out["extra"] = safe_enc(obj.saturated)
            return out
        return obs


def load_request(prog, mode, strict, datum):
    return {"op": "load", "mode": mode, "strict": strict, "move": prog["move"],
            "fields": [lean_field(f) for f in prog["fields"]],
            "loaders": {f["id"]: f["type"] for f in prog["fields"]},
            "crown": prog["crown"], "data": enc_val(datum)}


MODES = ("disable", "first", "all")
NESTED_QUICK, NESTED_THOROUGH = 120, 1500


def oracle_crown_load(ctx, prog, label, datum, mode, strict, real_out, suite="gen-load", case=None):
    """direct oracle for an explicit crown (real code only): a field is read from exactly the path of its
    leaf; absent optional fields take their default / are not passed; a field the layout does not present is
    not read at all; the unknown keys of every dict node go where the policy sends them and nowhere else"""
    if case is None:
        case = {"suite": suite, "prog": prog, "mode": mode, "strict": strict, "label": label, "data": safe_enc(datum)}
    kinds = {f["id"]: f["type"] for f in prog["fields"]}
    by_id = {f["id"]: f for f in prog["fields"]}
    leaves = [(p, c) for p, c in crown_sites(prog["crown"]) if c["t"] == "field"]
    branch_keys = {k for k, c in prog["crown"]["map"] if c["t"] in ("dict", "list")} if prog["crown"]["t"] == "dict" else set()

    def py_loader(kind, v):
        if kind == "any":
            return True, v
        if kind == "int":
            return type(v) is int, v
        if kind == "str":
            return type(v) is str, v
        if kind == "neg":
            return type(v) is int, (-v if type(v) is int else None)
        raise KeyError(kind)

    def navigate(data, path):
        """value at path | 'absent' | 'badkind'; a node is of the right kind iff dict for str keys, list (or, in
        lax mode, str) for int keys"""
        for el in path:
            if isinstance(el, str):
                if type(data) is not dict:
                    return "badkind", None
                if el not in data:
                    return "absent", None
                data = data[el]
            else:
                if type(data) is str and not strict:
                    if el >= len(data):
                        return "absent", None
                    data = data[el]
                    continue
                if type(data) is not list:
                    return "badkind", None
                if el >= len(data):
                    return "absent", None
                data = data[el]
        return "found", data

    if real_out["r"] == "ok":
        for path, c in leaves:
            fid = c["id"]
            st, v = navigate(datum, path)
            f = by_id[fid]
            if st == "found":
                ok, expected = py_loader(kinds[fid], v)
                if not ok:
                    ctx.fail(f"{suite}:ill-typed-accepted", f"{mode}/{strict}: field {fid} at {list(path)} holds {v!r}, "
                             f"its loader rejects it, but the model loader succeeded", case)
                    return
                if real_out["args"].get(fid, "<not passed>") != safe_enc(expected):
                    ctx.fail(f"{suite}:wrong-path", f"{mode}/{strict}: field {fid} must be read from path {list(path)} "
                             f"(value {expected!r}) but the constructor got {real_out['args'].get(fid, '<not passed>')!r}", case)
                    return
            elif st == "absent":
                if f["required"]:
                    ctx.fail(f"{suite}:missing-required-accepted", f"{mode}/{strict}: required field {fid} absent at "
                             f"{list(path)} but loading succeeded", case)
                    return
                if f["default"] is not None:
                    if real_out["args"].get(fid, "<not passed>") != safe_enc(f["default"]["v"]):
                        ctx.fail(f"{suite}:absent-optional-default", f"{mode}/{strict}: absent optional field {fid} did not "
                                 f"get its default: {real_out['args'].get(fid, '<not passed>')!r}", case)
                        return
                elif fid in real_out["args"]:
                    ctx.fail(f"{suite}:absent-optional-passed", f"{mode}/{strict}: absent optional field {fid} without default "
                             f"was passed to the constructor", case)
                    return
            else:
                ctx.fail(f"{suite}:wrong-kind-accepted", f"{mode}/{strict}: a container on the path {list(path)} of field "
                         f"{fid} has the wrong kind but loading succeeded", case)
                return
        # a field without a leaf (skipped / not selected by `only` / mapped to None) has no path: nothing of the
        # datum may reach it, it keeps its default / is not passed
        leaf_ids = {c["id"] for _, c in leaves}
        mv_targets = prog["move"]["targets"] if isinstance(prog["move"], dict) else []
        for f in prog["fields"]:
            fid = f["id"]
            if fid in leaf_ids or fid in mv_targets:
                continue
            if prog["move"] == "kwargs" and type(datum) is dict and fid in datum:
                continue    # `constructor(**extra)`: an extra key named like a parameter binds it (see kwargs_binding)
            got = real_out["args"].get(fid, "<not passed>")
            allowed = ["<not passed>"] + ([safe_enc(f["default"]["v"])] if f["default"] is not None else [])
            if got not in allowed:
                ctx.fail(f"{suite}:unpresented-field-read", f"{mode}/{strict}: field {fid} is not presented by the "
                         f"documented layout (skip / only / map None) but the constructor got {got!r} for it", case)
                return
        # unknown keys
        expected_extra = py_extra_skeleton(prog["crown"], datum)
        if not py_datum_valid(prog, datum, strict):
            # (reported above as wrong-kind / missing-required / ill-typed accepted)
            return
        mv = prog["move"]
        root_collect = prog["crown"].get("policy") == "collect"
        if mv == "kwargs" and branch_keys:
            # keyword arguments are named by the unknown keys: nothing but unknown keys may be passed
            got = real_out.get("extra")
            spurious = sorted(k for k, _ in got["dict"] if k in branch_keys) if isinstance(got, dict) and "dict" in got else []
            if spurious:
                ctx.fail("extra-kwargs:nested-branch-keys", f"{mode}/{strict}: with ExtraKwargs and a nested layout the "
                         f"constructor receives the known branch keys {spurious} as keyword arguments "
                         f"(kwargs = {got!r}); only unknown keys may be delivered", case)
                return
        if mv in ("kwargs", "saturate"):
            if real_out.get("extra") != safe_enc(expected_extra):
                ctx.fail(f"{suite}:extra-{mv}", f"{mode}/{strict}: extra delivered to {mv} is {real_out.get('extra')!r}, "
                         f"the unknown keys (per node) are {expected_extra!r}", case)
                return
        elif isinstance(mv, dict):
            for t in mv["targets"]:
                want = expected_extra if root_collect else ({} if by_id[t]["required"] else None)
                got = real_out["args"].get(t, None if want is None else "<not passed>")
                if want is None:
                    if t in real_out["args"] and by_id[t]["default"] is None:
                        ctx.fail(f"{suite}:extra-target", f"{mode}/{strict}: optional target {t} was passed {got!r} "
                                 f"although nothing is collected", case)
                        return
                elif got != safe_enc(want):
                    ctx.fail(f"{suite}:extra-target", f"{mode}/{strict}: extra target {t} got {got!r}, "
                             f"the unknown keys are {want!r}", case)
                    return
        # forbid: success means no unknown key at forbidding nodes
        for path, c in crown_sites(prog["crown"]):
            if c["t"] == "dict" and c["policy"] == "forbid":
                st, v = navigate(datum, path)
                if st == "found" and type(v) is dict and set(v) - {k for k, _ in c["map"]}:
                    ctx.fail(f"{suite}:forbid-accepted", f"{mode}/{strict}: unknown keys at {list(path)} accepted by ExtraForbid", case)
                    return
    else:
        if real_out["r"] in ("error", "aggregate") and py_datum_valid(prog, datum, strict):
            ctx.fail(f"{suite}:valid-datum-rejected", f"{mode}/{strict}: the datum is valid for the layout (every field "
                     f"present at its path with an acceptable value, nothing forbidden) but loading raised {real_out}", case)
            return
        errs = real_out.get("es") or ([real_out["e"]] if "e" in real_out else [])
        for e in errs:
            if e.get("cls") == "ExtraFieldsLoadError":
                # carries exactly the unknown keys of the dict node its trail points to
                trail = e["trail"] if mode != "disable" else None
                ok = False
                for path, c in crown_sites(prog["crown"]):
                    if c["t"] != "dict" or c["policy"] != "forbid":
                        continue
                    if trail is not None and list(path) != trail:
                        continue
                    st, v = navigate(datum, path)
                    if st == "found" and type(v) is dict and sorted(set(v) - {k for k, _ in c["map"]}) == e["fields"] \
                            and e["fields"]:
                        ok = True
                if not ok:
                    ctx.fail(f"{suite}:forbid-wrong-set", f"{mode}/{strict}: ExtraFieldsLoadError {e} does not carry exactly "
                             f"the unknown keys of a forbidding dict node", case)
                    return
            if e.get("cls") == "NoRequiredFieldsLoadError":
                trail = e["trail"] if mode != "disable" else None
                ok = False
                for path, c in crown_sites(prog["crown"]):
                    if c["t"] != "dict" or (trail is not None and list(path) != trail):
                        continue
                    st, v = navigate(datum, path)
                    if st != "found" or type(v) is not dict:
                        continue
                    req = sorted(k for k, sub in c["map"]
                                 if not (sub["t"] == "field" and not by_id[sub["id"]]["required"]) and k not in v)
                    if req and req == e["fields"]:
                        ok = True
                if not ok:
                    ctx.fail(f"{suite}:missing-wrong-set", f"{mode}/{strict}: NoRequiredFieldsLoadError {e} does not name "
                             f"exactly the missing required keys of a dict node", case)
                    return
        if real_out["r"] == "escape":
            if prog["move"] == "kwargs" and branch_keys and real_out["cls"] == "TypeError":
                ctx.fail("extra-kwargs:nested-branch-keys", f"{mode}/{strict}: with ExtraKwargs and a nested layout the "
                         f"known branch keys {sorted(branch_keys)} are passed as keyword arguments and the constructor "
                         f"call fails: {real_out.get('detail')}", case)
            else:
                ctx.fail(f"{suite}:escape", f"{mode}/{strict}: {real_out['cls']} escaped from the generated loader: "
                         f"{real_out.get('detail')}", case)


def py_extra_skeleton(crown, data):
    """Unknown keys per dict node, delivered at the mirrored position (see ASSUMPTIONS): for a dict node the
    items of the datum whose key is not in the node's map (only if the node collects), plus one entry per
    nested branch; for a list node one entry per element ({} for leaves).  `MISSHAPEN` where the datum does not
    have the shape of the crown (then a successful load is reported by the path checks, not here)."""
    if crown["t"] == "dict":
        if type(data) is not dict:
            return MISSHAPEN
        out = {}
        for k, c in crown["map"]:
            if c["t"] in ("dict", "list"):
                if k not in data:
                    return MISSHAPEN
                out[k] = py_extra_skeleton(c, data[k])
        if crown["policy"] == "collect":
            known = {k for k, _ in crown["map"]}
            for k, v in data.items():
                if k not in known:
                    out[k] = v
        return out
    if crown["t"] == "list":
        if type(data) not in (list, str) or len(data) < len(crown["map"]):
            return MISSHAPEN
        return [py_extra_skeleton(c, data[i]) if c["t"] in ("dict", "list") else {} for i, c in enumerate(crown["map"])]
    return {}


MISSHAPEN = Opaque("datum does not have the shape of the documented layout")


def py_datum_valid(prog, datum, strict) -> bool:
    """the datum is valid for the documented layout: every container of the right kind, every required element
    present, every field value accepted by its loader, no unknown key / extra item at a forbidding node"""
    by_id = {f["id"]: f for f in prog["fields"]}
    kinds = {f["id"]: f["type"] for f in prog["fields"]}

    def ok(c, d):
        t = c["t"]
        if t == "dict":
            if type(d) is not dict:
                return False
            for k, sub in c["map"]:
                if sub["t"] == "none":
                    continue
                if k not in d:
                    if sub["t"] == "field" and not by_id[sub["id"]]["required"]:
                        continue
                    return False
                if not ok(sub, d[k]):
                    return False
            return c["policy"] != "forbid" or not (set(d) - {k for k, _ in c["map"]})
        if t == "list":
            if type(d) is not list:
                return False
            if len(d) < len(c["map"]) or (c["policy"] == "forbid" and len(d) != len(c["map"])):
                return False
            return all(ok(sub, d[i]) for i, sub in enumerate(c["map"]))
        if t == "field":
            kind = kinds[c["id"]]
            return kind == "any" or (kind == "str" and type(d) is str) or (kind in ("int", "neg") and type(d) is int)
        return True
    return ok(prog["crown"], datum)


def suite_gen_load(ctx: Ctx, real: Real, drv, n_programs: int, n_combo: int):
    cr = CrownReal(real)
    work = []
    for _ in range(n_programs):
        prog = gen_crown_program(ctx.rng)
        kinds = {f["id"]: f["type"] for f in prog["fields"]}
        base = base_datum(prog["crown"], kinds, ctx.rng, salt=ctx.rng.randrange(5))
        singles = mutations(prog["crown"], kinds, base)
        data = singles + combined_mutations(ctx.rng, prog["crown"], kinds, base, singles, n_combo)
        work.append((prog, data))
    requests, meta = [], []
    for prog, data in work:
        for mode in MODES:
            for strict in (True, False):
                for label, datum in data:
                    requests.append(load_request(prog, mode, strict, datum))
                    meta.append((prog, mode, strict, label, datum))
    replies = drv.batch(requests) if drv else [None] * len(requests)
    n = bad = 0
    cache_key, loaders = None, {}
    for (prog, mode, strict, label, datum), rep in zip(meta, replies):
        if cache_key != id(prog):
            cache_key, loaders = id(prog), {}
        if (mode, strict) not in loaders:
            try:
                loaders[(mode, strict)] = cr.loader(prog, mode, strict)
            except Exception as e:  # noqa: BLE001
                raise InfraError(f"cannot create loader for hand-made crown {prog}: {e!r}")
        real_out = run_real_loader(real, loaders[(mode, strict)], datum, mode, cr.observe(prog))
        kind = label.split("@")[0].split(":")[0].rstrip("0123456789")
        ctx.note_case({"prog": prog, "mode": mode, "strict": strict, "data": safe_enc(datum)},
                      nontrivial=real_out["r"] == "ok" or label != "valid", kind=f"gen-load-{kind}")
        ctx.dist[f"gen-load-outcome-{real_out['r']}"] += 1
        for e in (real_out.get("es") or ([real_out["e"]] if "e" in real_out else [])):
            ctx.dist[f"gen-load-err-{e.get('cls')}"] += 1
        ctx.sample({"suite": "gen-load", "prog": prog, "mode": mode, "strict": strict, "label": label,
                    "data": safe_enc(datum), "real": real_out}, every=4001)
        oracle_crown_load(ctx, prog, label, datum, mode, strict, real_out)
        if rep is not None:
            n += 1
            model_out = canon_model_load(rep)
            if prog["move"] == "kwargs":
                model_out = kwargs_binding({f["id"] for f in prog["fields"]}, model_out)
            cmp_real = {k: v for k, v in real_out.items() if k != "detail"}
            if model_out != cmp_real:
                bad += 1
                ctx.disagree("gen-load", {"suite": "gen-load", "prog": prog, "mode": mode, "strict": strict,
                                          "label": label, "data": safe_enc(datum)}, cmp_real, rep)
    if drv:
        ctx.suite("gen-load", n, bad)


# ---------------------------------------------------------------------------
# suite (b1, dump): generated dumper for hand-made crowns
# ---------------------------------------------------------------------------

class Dummy:
    def __init__(self, **kwargs):
        for k, v in kwargs.items():
            setattr(self, k, v)

    def __repr__(self):
        return f"Dummy({self.__dict__})"


EXTRACT_RESULTS = [{"v": {}}, {"v": {"ex1": 1}}, {"v": {"ex1": [1], "ex2": None}}, {"err": "ExtractMarkerError"}]


dummy_extractor = extractor


DUMP_KIND = {"any": "id", "int": "chk", "str": "chk", "neg": "neg"}
DUMP_GOOD = {"any": ["v", 3, None, [1], {"z": 1}, True, 0], "int": [5, 0, 1, -2], "str": ["s", ""], "neg": [4, -1, 0, 7]}
LOOKALIKE = [(True, 1), (1, True), (0, False), (False, 0), (None, 0), ("", None)]


def py_dump_field(kind, v):
    """harness field dumpers as plain functions: (ok, value | exception class)"""
    if kind == "any":
        return True, v
    if v == "FAIL":
        return False, "DumpMarkerError"
    if kind in ("int", "str"):
        return True, v
    return True, -v


def gen_out_program(rng):
    n = rng.choice([1, 2, 3, 3, 4, 5])
    ids = rng.sample(["a", "b", "c", "d", "e", "f"], n)
    fields = []
    for fid in ids:
        tp = rng.choice(TYPE_POOL)
        dflt = None
        if rng.random() < 0.55:
            dflt = {"v": {"int": rng.choice([7, 0, 1]), "neg": rng.choice([7, 0]), "str": rng.choice(["dflt", ""]),
                          "any": rng.choice([None, True, False, 0, 1, "d", [], {}, [1]])}[tp]}
        fields.append({"id": fid, "type": tp, "required": rng.random() < 0.75, "default": dflt})
    mv = rng.choice([None, None, None, "extract", "targets", "targets"])
    targets = []
    if mv == "targets":
        cands = [f for f in fields if f["type"] == "any"]
        if cands and len(fields) > 1:
            targets = [f["id"] for f in rng.sample(cands, 1 if len(cands) == 1 else rng.choice([1, 2, 2]))]
            mv = {"targets": targets}
        else:
            mv = None
    in_crown = [f for f in fields if f["id"] not in targets and rng.random() < 0.9]

    def build(fs, depth):
        is_list = rng.random() < 0.3 and all(f["required"] for f in fs) and not (depth == 0 and mv is not None)
        children = []
        fs = list(fs)
        rng.shuffle(fs)
        i = 0
        while i < len(fs):
            if depth < 2 and rng.random() < 0.3:
                k = rng.randint(1, min(3, len(fs) - i))
                children.append(build(fs[i:i + k], depth + 1))
                i += k
            else:
                children.append({"t": "field", "id": fs[i]["id"]})
                i += 1
        while rng.random() < 0.2:
            children.insert(rng.randint(0, len(children)), {"t": "none", "placeholder": rng.choice([None, None, 0, "ph"])})
        if depth < 2 and rng.random() < 0.08:
            children.append(build([], depth + 1))
        if is_list:
            return {"t": "list", "map": children}
        keys = rng.sample(["k", "x", "y", "z", "w", "q", "m", "n2", "o", "p"], len(children))
        by_id = {f["id"]: f for f in fields}
        sieves = []
        for k, c in zip(keys, children):
            if c["t"] == "field" and by_id[c["id"]]["default"] is not None and rng.random() < 0.7:
                sieves.append([k, enc_val(by_id[c["id"]]["default"]["v"])])
        return {"t": "dict", "map": [[k, c] for k, c in zip(keys, children)], "sieves": sorted(sieves)}

    return {"fields": fields, "move": mv, "crown": build(in_crown, 0)}


def out_objects(rng, prog, n_combo):
    """systematic objects: every field at a plain value / at its default / at a look-alike of the default /
    absent (optional) / failing dumper; extra targets present/absent; extractor results"""
    fields = prog["fields"]
    targets = prog["move"]["targets"] if isinstance(prog["move"], dict) else []

    def good(f, salt=0):
        if f["id"] in targets:
            return [{"t1": 1}, {}, {"t2": [2], "t3": None}][salt % 3]
        pool = DUMP_GOOD[f["type"]]
        return pool[(salt + ord(f["id"][0])) % len(pool)]

    base = {f["id"]: good(f, rng.randrange(5)) for f in fields}
    out = [("valid", dict(base))]
    for f in fields:
        fid = f["id"]
        if fid in targets:
            for i in range(3):
                out.append((f"target{i}@{fid}", {**base, fid: good(f, i)}))
            if len(targets) > 1:
                out.append((f"target-collide@{fid}", {**base, **{t: {"same": t} for t in targets}}))
        else:
            for i in range(2):
                out.append((f"value{i}@{fid}", {**base, fid: good(f, i + 1)}))
            if f["default"] is not None:
                d = f["default"]["v"]
                out.append((f"default@{fid}", {**base, fid: [] if d == [] and type(d) is list else {} if d == {} and type(d) is dict else d}))
                for a, b in LOOKALIKE:
                    if type(d) is type(a) and d == a and f["type"] == "any":
                        out.append((f"lookalike@{fid}", {**base, fid: b}))
                if f["type"] == "neg" and type(d) is int:
                    out.append((f"negdefault@{fid}", {**base, fid: -d}))
            if f["type"] != "any":
                out.append((f"faildump@{fid}", {**base, fid: "FAIL"}))
        if not f["required"]:
            out.append((f"absent@{fid}", {k: v for k, v in base.items() if k != fid}))
    if len(fields) > 1:
        out.append(("all-default", {f["id"]: (f["default"]["v"] if f["default"] is not None and f["id"] not in targets
                                              else base[f["id"]]) for f in fields}))
        out.append(("all-optional-absent", {f["id"]: base[f["id"]] for f in fields if f["required"]}))
    for _ in range(n_combo):
        obj = dict(base)
        labels = []
        for f in rng.sample(fields, min(len(fields), rng.choice([2, 2, 3]))):
            r = rng.random()
            if f["id"] in targets:
                obj[f["id"]] = good(f, rng.randrange(3))
                labels.append("target")
            elif r < 0.35 and f["default"] is not None:
                obj[f["id"]] = f["default"]["v"]
                labels.append("default")
            elif r < 0.6 and f["type"] != "any":
                obj[f["id"]] = "FAIL"
                labels.append("faildump")
            elif r < 0.8 and not f["required"]:
                obj.pop(f["id"], None)
                labels.append("absent")
        if len(labels) >= 2:
            out.append(("combo:" + "+".join(labels), obj))
    if prog["move"] == "extract":
        res = []
        for label, obj in out:
            for i, ex in enumerate(EXTRACT_RESULTS if label in ("valid", "all-default") or label.startswith("faildump") else EXTRACT_RESULTS[1:2]):
                res.append((f"{label}|extract{i}", obj, ex))
        return res
    return [(label, obj, None) for label, obj in out]


class CrownRealDump(CrownReal):
    def out_crown(self, c, by_id):
        cd = self.real.cd
        if c["t"] == "dict":
            from adaptix._internal.morphing.name_layout.component import BuiltinSievesMaker
            sieves = {}
            sub = dict((k, v) for k, v in c["map"])
            for k, _ in c["sieves"]:
                sieves[k] = BuiltinSievesMaker()._create_sieve(by_id[sub[k]["id"]])
            return cd.OutDictCrown({k: self.out_crown(v, by_id) for k, v in c["map"]}, sieves=sieves)
        if c["t"] == "list":
            return cd.OutListCrown(tuple(self.out_crown(v, by_id) for v in c["map"]))
        if c["t"] == "field":
            return cd.OutFieldCrown(c["id"])
        return cd.OutNoneCrown(placeholder=self.real.DefaultValue(c["placeholder"]))

    def dumper(self, prog, mode):
        r = self.real
        cd = r.cd
        out_fields = tuple(
            self.OutputField(id=f["id"], type=r.py_type[f["type"]], default=self.default(f), metadata={},
                             accessor=self.create_attr_accessor(f["id"], is_required=f["required"]), original=None)
            for f in prog["fields"]
        )
        shape = self.OutputShape(fields=out_fields, overriden_types=frozenset(f["id"] for f in prog["fields"]))
        by_id = {f.id: f for f in out_fields}
        mv = prog["move"]
        move = None if mv is None else cd.ExtraExtract(dummy_extractor) if mv == "extract" else cd.ExtraTargets(tuple(mv["targets"]))
        layout = cd.OutputNameLayout(crown=self.out_crown(prog["crown"], by_id), extra_move=move)
        dt = {"disable": r.DebugTrail.DISABLE, "first": r.DebugTrail.FIRST, "all": r.DebugTrail.ALL}[mode]
        retort = r.Retort(
            recipe=[
                r.ValueProvider(r.OutputShapeRequest, shape),
                r.ValueProvider(cd.OutputNameLayoutRequest, layout),
                *r.codec_recipe,
            ],
            debug_trail=dt,
        )
        return retort.get_dumper(Dummy)


def trail_field(e):
    from adaptix.struct_trail import Attr, ItemKey, get_trail
    tr = list(get_trail(e))
    if not tr:
        return ""
    el = tr[0]
    if isinstance(el, Attr):
        return el.name
    if isinstance(el, ItemKey):
        return el.key
    return el if isinstance(el, str) else repr(el)


def run_real_dumper(dumper_fn, obj, mode):
    try:
        res = dumper_fn(obj)
    except BaseExceptionGroup as e:  # noqa: F821 - py3.11+
        return {"r": "group", "errs": sorted([trail_field(x), type(x).__name__] for x in e.exceptions)}
    except Exception as e:  # noqa: BLE001
        out = {"r": "exc", "cls": type(e).__name__}
        if mode != "disable":
            out["field"] = trail_field(e)
        return out
    return {"r": "ok", "v": safe_enc(res)}


ACCESS_ERRORS = {"attr": "AttributeError", "item": "KeyError"}


def canon_model_dump(rep, mode, access="attr"):
    if rep is None or "ok" not in rep:
        return rep
    r = rep["ok"]

    def cls(c):
        return ACCESS_ERRORS[access] if c == "AccessError" else c
    if r["r"] == "ok":
        return {"r": "ok", "v": canon_val(r["v"])}
    if r["r"] == "error":
        out = {"r": "exc", "cls": cls(r["cls"])}
        if mode != "disable":
            out["field"] = r["field"]
        return out
    if r["r"] == "group":
        return {"r": "group", "errs": sorted([f, cls(c)] for f, c in r["errs"])}
    if r["r"] == "escape":
        out = {"r": "exc", "cls": r["cls"]}
        if mode != "disable":
            out["field"] = ""
        return out
    return r


def dump_request(prog, mode, obj, extract):
    req = {"op": "dump", "mode": mode, "move": prog["move"],
           "fields": [lean_field(f) for f in prog["fields"]],
           "dumpers": {f["id"]: DUMP_KIND[f["type"]] for f in prog["fields"]},
           "crown": prog["crown"], "obj": [[k, enc_val(v)] for k, v in obj.items()]}
    if extract is not None:
        req["extracted"] = {"v": enc_val(extract["v"])} if "v" in extract else {"err": extract["err"]}
    return req


def py_sieve_keeps(default, value) -> bool:
    """docs: 'Values that are equal to default will be stripped'; None/True/False defaults are compared by
    identity by the generated code (the documented `is`/`==` split is an implementation choice: see notes)"""
    if default is None or type(default) is bool:
        return value is not default
    return value != default


def py_expected_dump(prog, obj, extract):
    """the data the documented layout prescribes for `obj` (fields by id), computed from the object only"""
    by_id = {f["id"]: f for f in prog["fields"]}
    targets = prog["move"]["targets"] if isinstance(prog["move"], dict) else []

    def expect(c):
        """(present?, expected value) of a crown node"""
        t = c["t"]
        if t == "field":
            f = by_id[c["id"]]
            if c["id"] not in obj:
                return False, None
            ok, v = py_dump_field(f["type"], obj[c["id"]])
            return True, v
        if t == "none":
            return True, c["placeholder"]
        if t == "list":
            return True, [expect(x)[1] for x in c["map"]]
        out = {}
        sv = dict((k, dec_val(d)) for k, d in c["sieves"])
        for k, x in c["map"]:
            present, v = expect(x)
            if not present:
                continue
            if k in sv and x["t"] == "field" and not py_sieve_keeps(sv[k], obj[x["id"]]):
                continue
            out[k] = v
        return True, out

    _, want = expect(prog["crown"])
    if prog["move"] is not None and isinstance(want, dict):
        extra = {}
        if prog["move"] == "extract":
            extra = dict(extract["v"])
        else:
            for t in targets:
                if t in obj:
                    extra.update(obj[t])
        want = {**want, **extra}
    return want


def oracle_crown_dump(ctx, prog, label, obj, extract, mode, real_out, suite="gen-dump"):
    """direct oracle (real code only): every presented field is written at exactly the path of its leaf, an
    omit_default field is left out iff its value equals the default, gaps hold their placeholder, nothing else
    is in the output except the extra data"""
    case = {"suite": suite, "prog": prog, "mode": mode, "label": label,
            "obj": {k: safe_enc(v) for k, v in obj.items()}, "extract": extract}
    if real_out["r"] != "ok":
        return
    by_id = {f["id"]: f for f in prog["fields"]}
    try:
        want = py_expected_dump(prog, obj, extract)
    except (TypeError, KeyError, ValueError, AttributeError):
        # the object was generated for the real layout and does not fit the documented one (e.g. a target field
        # that does not hold a mapping): nothing is prescribed for it
        ctx.dist["oracle-skipped"] += 1
        return
    if real_out["v"] != safe_enc(want):
        sig = f"{suite}:wrong-output"
        where = first_difference(real_out["v"], safe_enc(want))
        node = crown_node_at(prog["crown"], where)
        if node is not None and node[1]["t"] == "field" and node[2] and DUMP_KIND[by_id[node[1]["id"]]["type"]] != "id":
            # the differing key is an omit_default key of a field whose dumper is not the identity
            sig = "omit-default:non-identity-dumper"
        ctx.fail(sig, f"{mode}: dumping {obj} gives {real_out['v']}, the layout prescribes {safe_enc(want)} "
                 f"(first difference at {where})", case)


def first_difference(a, b, path=()):
    """path of the first difference between two canonical encoded values"""
    if isinstance(a, dict) and isinstance(b, dict) and "dict" in a and "dict" in b:
        da, db = dict((k, v) for k, v in a["dict"]), dict((k, v) for k, v in b["dict"])
        for k in sorted(set(da) | set(db)):
            if k not in da or k not in db:
                return [*path, k]
            if da[k] != db[k]:
                return first_difference(da[k], db[k], (*path, k))
        return list(path)
    if isinstance(a, list) and isinstance(b, list) and len(a) == len(b):
        for i, (x, y) in enumerate(zip(a, b)):
            if x != y:
                return first_difference(x, y, (*path, i))
    return list(path)


def crown_node_at(crown, path):
    """(path, node, sieved?) of the crown node at `path`, None if there is none"""
    node, sieved = crown, False
    for el in path:
        if node["t"] == "dict" and isinstance(el, str):
            sub = dict((k, v) for k, v in node["map"])
            if el not in sub:
                return None
            sieved = el in dict((k, v) for k, v in node["sieves"])
            node = sub[el]
        elif node["t"] == "list" and isinstance(el, int) and el < len(node["map"]):
            node, sieved = node["map"][el], False
        else:
            return None
    return path, node, sieved


def suite_gen_dump(ctx: Ctx, real: Real, drv, n_programs: int, n_combo: int):
    cr = CrownRealDump(real)
    work = []
    for _ in range(n_programs):
        prog = gen_out_program(ctx.rng)
        work.append((prog, out_objects(ctx.rng, prog, n_combo)))
    requests, meta = [], []
    for prog, objs in work:
        for mode in MODES:
            for label, obj, extract in objs:
                requests.append(dump_request(prog, mode, obj, extract))
                meta.append((prog, mode, label, obj, extract))
    replies = drv.batch(requests) if drv else [None] * len(requests)
    n = bad = 0
    cache_key, dumpers = None, {}
    for (prog, mode, label, obj, extract), rep in zip(meta, replies):
        if cache_key != id(prog):
            cache_key, dumpers = id(prog), {}
        if mode not in dumpers:
            try:
                dumpers[mode] = cr.dumper(prog, mode)
            except Exception as e:  # noqa: BLE001
                dumpers[mode] = None
                ctx.fail("omit-default:unhashable-default-typeerror" if "unhashable" in repr(e)
                         else "gen-dump:dumper-creation-" + type(e).__name__,
                         f"no dumper can be generated for a valid layout with omit_default sieves: {e!r}",
                         {"suite": "gen-dump", "prog": prog, "mode": mode, "label": "creation", "obj": {}, "extract": None})
        if dumpers[mode] is None:
            if rep is not None:
                n += 1
                bad += 1
                ctx.disagree("gen-dump", {"suite": "gen-dump", "prog": prog, "mode": mode, "label": "creation"},
                             "dumper creation failed", rep)
            continue
        dummy = Dummy(**obj)
        dummy.extract_result_ = extract
        real_out = run_real_dumper(dumpers[mode], dummy, mode)
        kind = label.split("@")[0].split("|")[0].split(":")[0].rstrip("0123456789")
        ctx.note_case({"prog": prog, "mode": mode, "obj": {k: safe_enc(v) for k, v in obj.items()}, "extract": extract},
                      nontrivial=True, kind=f"gen-dump-{kind}")
        ctx.dist[f"gen-dump-outcome-{real_out['r']}"] += 1
        ctx.sample({"suite": "gen-dump", "prog": prog, "mode": mode, "label": label,
                    "obj": {k: safe_enc(v) for k, v in obj.items()}, "real": real_out}, every=2003)
        oracle_crown_dump(ctx, prog, label, obj, extract, mode, real_out)
        if rep is not None:
            n += 1
            model_out = canon_model_dump(rep, mode)
            if model_out != real_out:
                bad += 1
                ctx.disagree("gen-dump", {"suite": "gen-dump", "prog": prog, "mode": mode, "label": label,
                                          "obj": {k: safe_enc(v) for k, v in obj.items()}, "extract": extract},
                             real_out, rep)
    if drv:
        ctx.suite("gen-dump", n, bad)


# ---------------------------------------------------------------------------
# suite (b2): real models + name_mapping recipes through the public API
# ---------------------------------------------------------------------------

def py_crown_from_paths(prog, eff, direction):
    """The layout the documentation prescribes, as a crown: built from `py_path_of` only (independent of the real
    crown builder and of the Lean model).  Returns (crown, move) or None when the documented rules give no valid
    layout (duplicate paths, a path that is a prefix of another, str/int clash, optional field at a list position,
    skipped required field, collecting policy with lists)."""
    fields = prog["fields"]
    req_key = "required" if direction == "inp" else "out_required"
    paths = {}
    for f in fields:
        pth = py_path_of(prog, eff, direction, f)
        if pth is None:
            if direction == "inp" and f["required"] and f["id"] not in py_extra_targets(eff["extra_in"]):
                return None
            continue
        if len(pth) == 0:
            return None
        paths[f["id"]] = tuple(pth)
    plist = list(paths.values())
    if len(set(plist)) != len(plist):
        return None
    for a in plist:
        for b in plist:
            if a != b and b[:len(a)] == a:
                return None
    by_id = {f["id"]: f for f in fields}
    for fid, pth in paths.items():
        if isinstance(pth[-1], int) and not by_id[fid].get(req_key, True):
            return None
    extra = eff["extra_in"] if direction == "inp" else eff["extra_out"]
    if direction == "inp":
        policy = "skip" if extra == "skip" else "forbid" if extra == "forbid" else "collect"
        move = None if extra in ("skip", "forbid") else extra if isinstance(extra, str) else {"targets": list(extra["targets"])}
        if policy == "collect" and any(isinstance(el, int) for pth in plist for el in pth):
            return None
    else:
        policy = None
        move = None if extra == "skip" else extra if isinstance(extra, str) else {"targets": list(extra["targets"])}

    def node(prefix, items):
        """items: {fid: remaining path}"""
        heads = {}
        for fid, rest in items.items():
            heads.setdefault(rest[0], {})[fid] = rest[1:]
        kinds = {type(h) for h in heads}
        if len(kinds) > 1:
            raise ValueError("str/int clash")

        def child(key, sub):
            if len(sub) == 1 and next(iter(sub.values())) == ():
                return {"t": "field", "id": next(iter(sub))}
            return node((*prefix, key), sub)
        if kinds == {int}:
            n = max(heads) + 1
            mp = [child(i, heads[i]) if i in heads else ({"t": "none"} if direction == "inp" else {"t": "none", "placeholder": None})
                  for i in range(n)]
            out = {"t": "list", "map": mp}
            if direction == "inp":
                out["policy"] = policy
            return out
        out = {"t": "dict", "map": [[k, child(k, sub)] for k, sub in heads.items()]}
        if direction == "inp":
            out["policy"] = policy
        else:
            sv = []
            for k, c in out["map"]:
                if c["t"] == "field":
                    f = by_id[c["id"]]
                    if f["default"] is not None and py_omit_holds(eff, f):
                        d = f["default"]
                        sv.append([k, enc_val(factory_value(d["factory"]) if "factory" in d else d["v"])])
            out["sieves"] = sorted(sv)
        return out

    if not paths:
        crown = {"t": "list", "map": []} if eff["as_list"] else {"t": "dict", "map": []}
        if direction == "inp":
            crown["policy"] = policy
        elif crown["t"] == "dict":
            crown["sieves"] = []
        return crown, move
    try:
        return node((), paths), move
    except ValueError:
        return None


def plain_default(f):
    d = f["default"]
    if "factory" in d:
        return factory_value(d["factory"])
    return d["v"]


def oracle_prog(prog, direction, crown, move):
    """a (fields, move, crown) description in the format of the hand-made programs"""
    fields = []
    for f in prog["fields"]:
        d = None if f["default"] is None else {"v": plain_default(f)}
        fields.append({"id": f["id"], "type": f["type"], "default": d,
                       "required": f["required"] if direction == "inp" else f.get("out_required", True)})
    return {"fields": fields, "move": move, "crown": crown}


def model_request(op, prog, direction, **kw):
    return {"op": op, **lean_stack(prog, direction), **kw}


def observe_model_obj(prog, move):
    kind = prog["kind"]
    ids = [f["id"] for f in prog["fields"]]

    def obs(obj):
        if kind == "typeddict":
            return {"args": {k: safe_enc(v) for k, v in obj.items()}}
        out = {"args": {fid: safe_enc(getattr(obj, fid)) for fid in ids}}
        if move == "kwargs":
            out["extra"] = safe_enc(obj.kwargs_)
        elif move == "saturate":
            out["extra"] = safe_enc(getattr(obj, "saturated_", "<saturator not called>"))
        return out
    return obs


def kwargs_binding(field_ids, model_out):
    """Python call binding of `constructor(name=f_name, ..., **extra)` (constructor-call planning is C08's subject):
    a key of `extra` equal to the name of a parameter that is passed explicitly is a TypeError of the call itself
    (documented flaw of ExtraKwargs); equal to the name of a parameter that is *not* passed (a skipped field), it
    binds that parameter."""
    if model_out and model_out.get("r") == "ok" and isinstance(model_out.get("extra"), dict) and "dict" in model_out["extra"]:
        args = dict(model_out["args"])
        rest = []
        for k, v in model_out["extra"]["dict"]:
            if k in field_ids:
                if k in args:
                    return {"r": "escape", "cls": "TypeError"}
                args[k] = v
            else:
                rest.append([k, v])
        return {**model_out, "args": args, "extra": {"dict": rest}}
    return model_out


def fill_defaults(prog, model_out):
    """fields the generated loader does not pass take the model class' own default (constructor-call planning is C08)"""
    if not model_out or model_out.get("r") != "ok" or prog["kind"] == "typeddict":
        return model_out
    args = dict(model_out["args"])
    for f in prog["fields"]:
        if f["id"] not in args and f["default"] is not None:
            args[f["id"]] = safe_enc(plain_default(f))
    return {**model_out, "args": args}


def suite_models(ctx: Ctx, real: Real, drv, n_programs: int, n_combo: int):
    progs = []
    attempts = 0
    while len(progs) < n_programs and attempts < n_programs * 4:
        attempts += 1
        prog = gen_program(ctx.rng, oracle_friendly=(attempts % 3 != 0))
        try:
            own, parent = real.prepare(prog)
        except Exception as e:  # noqa: BLE001
            raise InfraError(f"cannot build classes for {prog}: {e!r}")
        real_inp, real_out = real.layouts(prog, own, parent)
        # keep mostly programs with at least one valid layout; a few invalid ones check the refusal
        if "error" in real_inp and ("error" in real_out or prog["kind"] == "kwclass") and ctx.rng.random() < 0.8:
            continue
        progs.append((prog, own, parent, real_inp, real_out))

    # ---------------- loading ----------------
    requests, meta = [], []
    for prog, own, parent, real_inp, _ in progs:
        kinds = {f["id"]: f["type"] for f in prog["fields"]}
        eff = py_effective(prog)
        py = py_crown_from_paths(prog, eff, "inp") if eff is not None else None
        if "error" in real_inp:
            data = [("valid", {})]
        else:
            base = base_datum(real_inp["crown"], kinds, ctx.rng, salt=ctx.rng.randrange(5))
            singles = mutations(real_inp["crown"], kinds, base)
            data = singles + combined_mutations(ctx.rng, real_inp["crown"], kinds, base, singles, n_combo)
        if py is not None:
            # data built from the documented paths only (valid + one unknown key per dict node)
            pbase = base_datum(py[0], kinds, ctx.rng, salt=1)
            data.append(("doc-valid", pbase))
            for path, c in crown_sites(py[0]):
                if c["t"] == "dict":
                    data.append(("doc-extra@" + "/".join(map(str, path)),
                                 set_at(pbase, path, {**get_at(pbase, path), "zz_Unknown": 1})))
                if c["t"] == "field" and not next(f for f in prog["fields"] if f["id"] == c["id"])["required"]:
                    data.append(("doc-absent@" + "/".join(map(str, path)), del_at(pbase, path)))
        for mode in MODES:
            for strict in (True, False):
                for label, datum in data:
                    requests.append(model_request("model_load", prog, "inp", mode=mode, strict=strict,
                                                  loaders=kinds, data=enc_val(datum)))
                    meta.append((prog, own, parent, real_inp, eff, py, mode, strict, label, datum))
    replies = drv.batch(requests) if drv else [None] * len(requests)
    n = bad = 0
    cache_key, loaders = None, {}
    for (prog, own, parent, real_inp, eff, py, mode, strict, label, datum), rep in zip(meta, replies):
        if cache_key != id(prog):
            cache_key, loaders = id(prog), {}
        if (mode, strict) not in loaders:
            try:
                loaders[(mode, strict)] = real.retort(prog, own, parent, mode, strict).get_loader(own)
            except Exception as e:  # noqa: BLE001
                loaders[(mode, strict)] = None
                ctx.dist[f"model-load-no-loader-{type(e).__name__}"] += 1
        loader_fn = loaders[(mode, strict)]
        case = {"suite": "model-load", "prog": prog, "mode": mode, "strict": strict, "label": label, "data": safe_enc(datum)}
        if loader_fn is None:
            real_o = {"r": "no-loader"}
            if py is not None and label == "valid":
                ctx.fail("model-load:no-loader-for-valid-layout", f"{mode}/{strict}: the documented rules give the valid "
                         f"layout {py[0]} but no loader can be created", case)
        else:
            mv = real_inp.get("move")
            real_o = run_real_loader(real, loader_fn, datum, mode, observe_model_obj(prog, mv))
            if py is not None:
                oracle_crown_load(ctx, oracle_prog(prog, "inp", py[0], py[1]), label, datum, mode, strict, real_o,
                                  suite="model-load")
        kind = label.split("@")[0].split(":")[0].rstrip("0123456789")
        ctx.note_case({"prog": prog, "mode": mode, "strict": strict, "data": safe_enc(datum)},
                      nontrivial=real_o["r"] != "no-loader", kind=f"model-load-{kind}")
        ctx.dist[f"model-load-outcome-{real_o['r']}"] += 1
        ctx.sample({"suite": "model-load", "prog": prog, "mode": mode, "strict": strict, "label": label,
                    "data": safe_enc(datum), "real": real_o}, every=3001)
        if rep is not None:
            n += 1
            model_o = canon_model_load(rep)
            if isinstance(model_o, dict) and model_o.get("r") == "no-loader":
                model_o = {"r": "no-loader"}
            if real_inp.get("move") == "kwargs":
                model_o = kwargs_binding({f["id"] for f in prog["fields"]}, model_o)
            model_o = fill_defaults(prog, model_o)
            cmp_real = {k: v for k, v in real_o.items() if k != "detail"}
            if model_o != cmp_real:
                bad += 1
                ctx.disagree("model-load", case, cmp_real, rep)
    if drv:
        ctx.suite("model-load", n, bad)

    # ---------------- dumping ----------------
    requests, meta = [], []
    for prog, own, parent, _, real_out in progs:
        if prog["kind"] == "kwclass":
            continue
        eff = py_effective(prog)
        py = py_crown_from_paths(prog, eff, "out") if eff is not None else None
        mv = real_out.get("move") if "error" not in real_out else None
        oprog = oracle_prog(prog, "out", real_out.get("crown"), mv)
        objs = out_objects(ctx.rng, oprog, n_combo) if "error" not in real_out else \
            [("valid", {f["id"]: DUMP_GOOD[f["type"]][0] for f in prog["fields"]}, None)]
        for mode in MODES:
            for label, obj, extract in objs:
                if extract is not None and prog["kind"] == "typeddict":
                    extract = None          # a plain dict cannot carry the marker attribute
                ex_model = None
                if mv == "extract":
                    ex_model = extract if extract is not None else {"v": {"xk": 1}}
                req = model_request("model_dump", prog, "out", mode=mode,
                                    dumpers={f["id"]: DUMP_KIND[f["type"]] for f in prog["fields"]},
                                    obj=[[k, enc_val(v)] for k, v in obj.items()])
                if ex_model is not None:
                    req["extracted"] = {"v": enc_val(ex_model["v"])} if "v" in ex_model else {"err": ex_model["err"]}
                requests.append(req)
                meta.append((prog, own, parent, real_out, py, mode, label, obj, extract, ex_model))
    replies = drv.batch(requests) if drv else [None] * len(requests)
    n = bad = 0
    cache_key, dumpers = None, {}
    for (prog, own, parent, real_out, py, mode, label, obj, extract, ex_model), rep in zip(meta, replies):
        if cache_key != id(prog):
            cache_key, dumpers = id(prog), {}
        if mode not in dumpers:
            try:
                dumpers[mode] = real.retort(prog, own, parent, mode).get_dumper(own)
            except Exception as e:  # noqa: BLE001
                dumpers[mode] = None
                ctx.dist[f"model-dump-no-dumper-{type(e).__name__}"] += 1
                if py is not None:
                    sig = "omit-default:unhashable-default-typeerror" if "unhashable" in repr(e) + repr(e.__cause__) + \
                        "".join(map(repr, getattr(e.__cause__, "exceptions", ()))) else "model-dump:no-dumper-for-valid-layout"
                    ctx.fail(sig, f"{mode}: the documented rules give the valid layout {py[0]} but no dumper can be "
                             f"created: {e!r}", {"suite": "model-dump", "prog": prog, "mode": mode, "label": "creation",
                                                 "obj": {}, "extract": None})
        case = {"suite": "model-dump", "prog": prog, "mode": mode, "label": label,
                "obj": {k: safe_enc(v) for k, v in obj.items()}, "extract": extract}
        access = "item" if prog["kind"] == "typeddict" else "attr"
        if dumpers[mode] is None:
            real_o = {"r": "no-dumper"}
        else:
            try:
                inst = dict(obj) if prog["kind"] == "typeddict" else own(**obj)
            except Exception as e:  # noqa: BLE001
                raise InfraError(f"cannot instantiate {prog} with {obj}: {e!r}")
            if extract is not None:
                inst.extract_result_ = extract
            real_o = run_real_dumper(dumpers[mode], inst, mode)
            if py is not None:
                oracle_crown_dump(ctx, oracle_prog(prog, "out", py[0], py[1]), label, obj, ex_model, mode, real_o,
                                  suite="model-dump")
        kind = label.split("@")[0].split("|")[0].split(":")[0].rstrip("0123456789")
        ctx.note_case(case, nontrivial=real_o["r"] != "no-dumper", kind=f"model-dump-{kind}")
        ctx.dist[f"model-dump-outcome-{real_o['r']}"] += 1
        ctx.sample({"suite": "model-dump", "prog": prog, "mode": mode, "label": label,
                    "obj": {k: safe_enc(v) for k, v in obj.items()}, "real": real_o}, every=1501)
        if rep is not None:
            n += 1
            model_o = canon_model_dump(rep, mode, access)
            if isinstance(model_o, dict) and model_o.get("r") == "no-dumper":
                model_o = {"r": "no-dumper"}
            if model_o != real_o:
                bad += 1
                ctx.disagree("model-dump", case, real_o, rep)
    if drv:
        ctx.suite("model-dump", n, bad)


# ---------------------------------------------------------------------------
# entry points
# ---------------------------------------------------------------------------

def run(ctx: Ctx):
    real = Real()
    drv = None
    if ctx.driver_ok:
        try:
            drv = Driver("drv_c03")
        except InfraError:
            drv = None
    suite_layouts(ctx, real, drv, ctx.budget(800, 8000))
    suite_gen_load(ctx, real, drv, ctx.budget(140, 1600), n_combo=ctx.budget(6, 10))
    suite_gen_dump(ctx, real, drv, ctx.budget(250, 2500), n_combo=ctx.budget(5, 10))
    suite_models(ctx, real, drv, ctx.budget(190, 1800), n_combo=ctx.budget(4, 8))
    from harness.props import c03_nested
    c03_nested.suite_nested(ctx, real, ctx.budget(NESTED_QUICK, NESTED_THOROUGH), drv)
    from harness.props import c03_namestyle
    c03_namestyle.suite(ctx, drv, ctx.budget(300, 6000), exhaustive_len=ctx.budget(5, 6))
    ctx.extra["oracle_cases_skipped"] = ctx.dist.get("oracle-skipped", 0)
    # ./check starts the directed search only when no oracle failure at all was seen; the listed known finding is
    # seen on every run, so a broken correspondence is followed up here
    if ctx.disagreements and not new_failures(ctx):
        search(ctx)
    # one model class under two location-bound layouts in one retort (extra policy, renamed key): each location follows its own
    from harness.props import c05
    c05.two_location_suite(ctx, ctx.budget(60, 1000))



def oracle_program(ctx: Ctx, real: Real, prog, n_combo=4):
    """direct oracle on one (model, recipe) program through the public API only (no Lean): data built from the
    documented paths, every debug_trail x strict_coercion"""
    import copy
    prog = copy.deepcopy(prog)
    own, parent = real.prepare(prog)
    eff = py_effective(prog)
    if eff is None:
        return
    kinds = {f["id"]: f["type"] for f in prog["fields"]}
    py = py_crown_from_paths(prog, eff, "inp")
    if py is not None:
        base = base_datum(py[0], kinds, ctx.rng, salt=1)
        data = mutations(py[0], kinds, base) + combined_mutations(ctx.rng, py[0], kinds, base, None, n_combo)
        for mode in MODES:
            for strict in (True, False):
                try:
                    loader_fn = real.retort(prog, own, parent, mode, strict).get_loader(own)
                except Exception as e:  # noqa: BLE001
                    ctx.fail("model-load:no-loader-for-valid-layout", f"{mode}/{strict}: the documented rules give the "
                             f"valid layout {py[0]} but no loader can be created: {e!r}",
                             {"suite": "model-load", "prog": prog, "mode": mode, "strict": strict, "label": "valid", "data": {}})
                    continue
                for label, datum in data:
                    real_o = run_real_loader(real, loader_fn, datum, mode, observe_model_obj(prog, py[1]))
                    ctx.note_case({"prog": prog, "mode": mode, "strict": strict, "data": safe_enc(datum)}, True, "search-load")
                    oracle_crown_load(ctx, oracle_prog(prog, "inp", py[0], py[1]), label, datum, mode, strict, real_o,
                                      suite="model-load")
    if prog["kind"] == "kwclass":
        return
    py = py_crown_from_paths(prog, eff, "out")
    if py is not None:
        oprog = oracle_prog(prog, "out", py[0], py[1])
        for mode in MODES:
            try:
                dumper_fn = real.retort(prog, own, parent, mode).get_dumper(own)
            except Exception as e:  # noqa: BLE001
                sig = "omit-default:unhashable-default-typeerror" if "unhashable" in repr(e) + repr(e.__cause__) + \
                    "".join(map(repr, getattr(e.__cause__, "exceptions", ()))) else "model-dump:no-dumper-for-valid-layout"
                ctx.fail(sig, f"{mode}: the documented rules give the valid layout {py[0]} but no dumper can be created: {e!r}",
                         {"suite": "model-dump", "prog": prog, "mode": mode, "label": "creation", "obj": {}, "extract": None})
                continue
            for label, obj, extract in out_objects(ctx.rng, oprog, n_combo):
                if prog["kind"] == "typeddict":
                    extract = None
                ex_model = (extract if extract is not None else {"v": {"xk": 1}}) if py[1] == "extract" else None
                inst = dict(obj) if prog["kind"] == "typeddict" else own(**obj)
                if extract is not None:
                    inst.extract_result_ = extract
                real_o = run_real_dumper(dumper_fn, inst, mode)
                ctx.note_case({"prog": prog, "mode": mode, "obj": {k: safe_enc(v) for k, v in obj.items()}}, True, "search-dump")
                oracle_crown_dump(ctx, oprog, label, obj, ex_model, mode, real_o, suite="model-dump")


def new_failures(ctx: Ctx) -> int:
    """oracle failures whose signature is not a listed known finding"""
    from harness import core
    known = {f["signature"] for f in core.load_known_findings(ID)[0]}
    return sum(1 for f in ctx.failures if f["signature"] not in known)


def search(ctx: Ctx):
    """Directed search after a broken tie: the direct oracle on the disagreeing cases / programs first, then the
    whole generators with a larger budget (real code only)."""
    if ctx.extra.get("searched"):
        return
    ctx.extra["searched"] = True
    real = Real()
    seen = set()
    for d in ctx.disagreements[:300]:
        case = d["case"]
        try:
            if case.get("suite") in ("gen-load", "gen-dump", "model-load", "model-dump") and "label" in case:
                replay(ctx, case)
            if "prog" in case and "kind" in case["prog"]:
                key = repr(case["prog"])
                if key not in seen and len(seen) < 60:
                    seen.add(key)
                    oracle_program(ctx, real, case["prog"])
        except InfraError:
            raise
        except Exception:  # noqa: BLE001,S110 - a case that cannot be rebuilt is skipped, the budgeted search follows
            ctx.dist["search-case-skipped"] += 1
        if new_failures(ctx):
            return
    suite_gen_load(ctx, real, None, 250, n_combo=8)
    if not new_failures(ctx):
        suite_gen_dump(ctx, real, None, 400, n_combo=8)
    if not new_failures(ctx):
        from harness.props import c03_nested
        c03_nested.suite_nested(ctx, real, 300)
    if not new_failures(ctx):
        for _ in range(250):
            prog = gen_program(ctx.rng, oracle_friendly=True)
            try:
                oracle_program(ctx, real, prog)
            except InfraError:
                raise
            except Exception:  # noqa: BLE001
                ctx.dist["search-case-skipped"] += 1
            if new_failures(ctx):
                break


def replay(ctx: Ctx, case) -> bool:
    """re-run one recorded case on the real code; True iff the direct oracle still fails on it"""
    import copy
    real = Real()
    before = len(ctx.failures)
    suite = case.get("suite")
    if suite == "name-style":
        from harness.props import c03_namestyle
        return c03_namestyle.replay(ctx, case)
    prog = copy.deepcopy(case.get("prog"))
    if suite == "gen-load":
        cr = CrownReal(real)
        datum = dec_val(case["data"])
        loader_fn = cr.loader(prog, case["mode"], case["strict"])
        real_o = run_real_loader(real, loader_fn, datum, case["mode"], cr.observe(prog))
        oracle_crown_load(ctx, prog, case["label"], datum, case["mode"], case["strict"], real_o)
    elif suite == "gen-dump":
        cr = CrownRealDump(real)
        try:
            dumper_fn = cr.dumper(prog, case["mode"])
        except Exception as e:  # noqa: BLE001
            ctx.fail("omit-default:unhashable-default-typeerror" if "unhashable" in repr(e)
                     else "gen-dump:dumper-creation-" + type(e).__name__, f"no dumper can be generated: {e!r}", case)
            return True
        if case.get("label") != "creation":
            obj = {k: dec_val(v) for k, v in case["obj"].items()}
            dummy = Dummy(**obj)
            dummy.extract_result_ = case.get("extract")
            real_o = run_real_dumper(dumper_fn, dummy, case["mode"])
            oracle_crown_dump(ctx, prog, case["label"], obj, case.get("extract"), case["mode"], real_o)
    elif suite == "model-load":
        own, parent = real.prepare(prog)
        eff = py_effective(prog)
        py = py_crown_from_paths(prog, eff, "inp") if eff is not None else None
        if py is None:
            return False
        datum = dec_val(case["data"])
        try:
            loader_fn = real.retort(prog, own, parent, case["mode"], case["strict"]).get_loader(own)
        except Exception as e:  # noqa: BLE001
            ctx.fail("model-load:no-loader-for-valid-layout", f"no loader can be created: {e!r}", case)
            return True
        real_o = run_real_loader(real, loader_fn, datum, case["mode"], observe_model_obj(prog, py[1]))
        oracle_crown_load(ctx, oracle_prog(prog, "inp", py[0], py[1]), case["label"], datum, case["mode"], case["strict"],
                          real_o, suite="model-load")
    elif suite == "model-dump":
        own, parent = real.prepare(prog)
        eff = py_effective(prog)
        py = py_crown_from_paths(prog, eff, "out") if eff is not None else None
        if py is None:
            return False
        try:
            dumper_fn = real.retort(prog, own, parent, case["mode"]).get_dumper(own)
        except Exception as e:  # noqa: BLE001
            ctx.fail("model-dump:no-dumper", f"no dumper can be created: {e!r}", case)
            return True
        if case.get("label") != "creation":
            obj = {k: dec_val(v) for k, v in case["obj"].items()}
            inst = dict(obj) if prog["kind"] == "typeddict" else own(**obj)
            extract = case.get("extract")
            if extract is not None and prog["kind"] != "typeddict":
                inst.extract_result_ = extract
            ex_model = (extract if extract is not None else {"v": {"xk": 1}}) if py[1] == "extract" else None
            real_o = run_real_dumper(dumper_fn, inst, case["mode"])
            oracle_crown_dump(ctx, oracle_prog(prog, "out", py[0], py[1]), case["label"], obj, ex_model, case["mode"],
                              real_o, suite="model-dump")
    elif suite in ("nested-load", "nested-dump"):
        from harness.props import c03_nested
        return c03_nested.replay(ctx, real, case)
    else:
        return False
    return len(ctx.failures) > before
