"""C01 — round trips of the model kinds other than dataclass (real code only).

"... generic and recursive models of every supported model kind": the morph engine declares dataclasses; here one
generated field list is declared as attrs class, pydantic model, NamedTuple and TypedDict with the options that decide HOW
a loaded value reaches the constructor: constructor-parameter names that differ from the field ids (attrs private
attributes and `alias=`, pydantic `alias` / `validation_alias`), keyword-only parameters, and every kind of default -
none, value, factory, and the defaults only the model itself can compute (attrs `Factory(takes_self=True)`, pydantic
`default_factory` taking the validated data; TypedDict NotRequired), which adaptix passes only when the key is present.

Oracle (the property itself): for values at and off their defaults, `load(dump(x)) == x` field by field, in every
debug_trail x strict_coercion configuration, also through JSON.

A case is JSON: {"suite": "kind-roundtrip", "kind": ..., "fields": [...], "values": {...}}.
"""

import json
from typing import NamedTuple, Optional, TypedDict

from harness.core import Ctx

TYPES = {"int": int, "str": str, "list": list[int], "opt": Optional[int]}
VALUES = {"int": [0, 1, -7, 10 ** 12], "str": ["", "a", "xyz"], "list": [[], [1], [3, 2, 1]], "opt": [None, 0, 5]}
DEFAULT_VALUE = {"int": 7, "str": "d", "list": None, "opt": None}          # list: only through a factory
NAMES = ["a", "b", "value", "count", "total", "items", "name_", "x1", "from_", "id"]   # no private names: the default mapping skips them
MODES = [("DISABLE", True), ("FIRST", True), ("ALL", True), ("ALL", False), ("DISABLE", False)]


def gen_fields(rng, kind):
    n = rng.choice([1, 2, 2, 3, 3, 4])
    names = rng.sample([nm for nm in NAMES if kind in ("attrs",) or not nm.startswith("_")], n)
    fields = []
    for i, nm in enumerate(names):
        ty = rng.choice(list(TYPES))
        f = {"id": nm, "ty": ty, "default": "none", "alias": None, "kw_only": False}
        r = rng.random()
        if kind == "typeddict":
            f["default"] = "not_required" if r < 0.5 else "none"
        elif kind == "namedtuple":
            f["default"] = "value" if r < 0.4 and DEFAULT_VALUE[ty] is not None or (r < 0.4 and ty == "opt") else "none"
        else:
            f["default"] = "none" if r < 0.3 else "value" if r < 0.5 and ty != "list" else "factory" if r < 0.7 else "computed"
            if f["default"] == "computed" and i == 0:
                f["default"] = "factory"          # a computed default reads the first field
            if rng.random() < 0.45:
                f["alias"] = rng.choice(["al_" + nm.strip("_"), "sum_" + nm.strip("_"), "k" + str(i)])
            if kind == "attrs" and rng.random() < 0.25:
                f["kw_only"] = True
        fields.append(f)
    if fields[0]["default"] == "computed":
        fields[0]["default"] = "none"
    if kind in ("attrs", "namedtuple"):
        # positional kinds: mandatory parameters first (keyword-only attrs fields may stay where they are)
        fields.sort(key=lambda f: (f["default"] != "none" and not f["kw_only"], ))
        if fields[0]["default"] == "computed":
            fields[0]["default"] = "factory"
    return fields


def static_default(ty):
    return {"int": 7, "str": "d", "list": [], "opt": None}[ty]


def computed_default(ty, first_value):
    """what the model computes from its first field"""
    size = len(first_value) if isinstance(first_value, (str, list)) else (first_value or 0)
    return {"int": size, "str": str(size), "list": [size], "opt": size}[ty]


def _static_factory(ty):
    def factory():
        return static_default(ty)
    return factory


def _self_factory(ty, first):
    def factory(self):
        return computed_default(ty, getattr(self, first))
    return factory


def _data_factory(ty, first):
    def factory(data):
        return computed_default(ty, data[first])
    return factory


def param_name(kind, f):
    if f["alias"] is not None and kind in ("attrs", "pydantic"):
        return f["alias"]
    if kind == "attrs":
        return f["id"].lstrip("_")
    return f["id"]


def build(kind, fields):
    first = fields[0]["id"]
    if kind == "attrs":
        import attrs
        spec = {}
        for f in fields:
            kw = {"type": TYPES[f["ty"]], "kw_only": f["kw_only"]}
            if f["alias"] is not None:
                kw["alias"] = f["alias"]
            if f["default"] == "value":
                kw["default"] = static_default(f["ty"])
            elif f["default"] == "factory":
                kw["factory"] = _static_factory(f["ty"])
            elif f["default"] == "computed":
                kw["default"] = attrs.Factory(_self_factory(f["ty"], first), takes_self=True)
            spec[f["id"]] = attrs.field(**kw)
        return attrs.make_class("AT", spec)
    if kind == "pydantic":
        import pydantic
        spec = {}
        for f in fields:
            kw = {}
            if f["alias"] is not None:
                kw["validation_alias"] = f["alias"]
            if f["default"] == "none":
                spec[f["id"]] = (TYPES[f["ty"]], pydantic.Field(**kw))
            elif f["default"] == "value":
                spec[f["id"]] = (TYPES[f["ty"]], pydantic.Field(default=static_default(f["ty"]), **kw))
            elif f["default"] == "factory":
                spec[f["id"]] = (TYPES[f["ty"]], pydantic.Field(default_factory=_static_factory(f["ty"]), **kw))
            else:
                spec[f["id"]] = (TYPES[f["ty"]], pydantic.Field(default_factory=_data_factory(f["ty"], first), **kw))
        return pydantic.create_model("PD", **spec)
    if kind == "namedtuple":
        return _named_tuple(fields)
    if kind == "typeddict":
        from typing import NotRequired
        return TypedDict("TD", {f["id"]: (NotRequired[TYPES[f["ty"]]] if f["default"] == "not_required" else TYPES[f["ty"]])
                                for f in fields})
    raise KeyError(kind)


def _named_tuple(fields):
    ns = {"NamedTuple": NamedTuple, "T": {f["id"]: TYPES[f["ty"]] for f in fields},
          "D": {f["id"]: static_default(f["ty"]) for f in fields}}
    lines = ["class NT(NamedTuple):"]
    for f in fields:
        lines.append(f"    {f['id']}: T[{f['id']!r}]" + (f" = D[{f['id']!r}]" if f["default"] == "value" else ""))
    exec("\n".join(lines), ns)  # noqa: S102 - harness-generated source from a fixed template over a fixed name list
    return ns["NT"]


def gen_values(rng, fields, kind):
    """{field id: value} - with probability 1/2 an optional field is left to its default (omitted from the constructor
    call / the TypedDict), otherwise it gets a value that may equal the default"""
    out = {}
    for f in fields:
        if f["default"] != "none" and rng.random() < 0.4:
            continue
        vals = list(VALUES[f["ty"]])
        if f["default"] in ("value", "factory"):
            vals.append(static_default(f["ty"]))
        out[f["id"]] = rng.choice(vals)
    return out


def construct(kind, cls, fields, values):
    if kind == "typeddict":
        return dict(values)
    return cls(**{param_name(kind, f): values[f["id"]] for f in fields if f["id"] in values})


def view(kind, fields, obj):
    if kind == "typeddict":
        return {k: obj[k] for k in obj}
    return {f["id"]: getattr(obj, f["id"]) for f in fields}


def check_case(ctx: Ctx, case, count=True) -> bool:
    import warnings
    from adaptix import DebugTrail, Retort
    kind, fields = case["kind"], case["fields"]
    with warnings.catch_warnings():
        warnings.simplefilter("ignore")
        try:
            cls = build(kind, fields)
            x = construct(kind, cls, fields, case["values"])
        except Exception as e:  # noqa: BLE001  (the declaration itself is illegal for the kind: not a case)
            if count:
                ctx.dist[f"kind-roundtrip:{kind}:undeclarable:{type(e).__name__}"] += 1
            return False
        want = view(kind, fields, x)
        failed = False
        for trail, strict in MODES:
            retort = Retort(debug_trail=DebugTrail[trail], strict_coercion=strict)
            for via_json in (False, True):
                try:
                    d = retort.dump(x, cls)
                    y = retort.load(json.loads(json.dumps(d)) if via_json else d, cls)
                    got = view(kind, fields, y)
                except Exception as e:  # noqa: BLE001
                    ctx.fail(f"kind-roundtrip:{kind}:raises:{type(e).__name__}",
                             f"{kind} model {describe(kind, fields)} value {want}: load(dump(x)) raised {type(e).__name__}: "
                             f"{str(e)[:200]} [{trail}, strict={strict}, json={via_json}]", case)
                    failed = True
                    break
                if got != want:
                    ctx.fail(f"kind-roundtrip:{kind}:differs", f"{kind} model {describe(kind, fields)}: load(dump(x)) gives {got}, x is {want} "
                             f"(dumped {d}) [{trail}, strict={strict}, json={via_json}]", case)
                    failed = True
                    break
            if failed:
                break
    if count:
        packed = [f for f in fields if f["default"] in ("computed", "not_required")]
        renamed = [f for f in fields if param_name(kind, f) != f["id"]]
        ctx.note_case(case, nontrivial=bool(packed or renamed), kind=f"kind-roundtrip:{kind}")
        ctx.dist[f"kind-roundtrip:{kind}:model-computed-default"] += bool(packed)
        ctx.dist[f"kind-roundtrip:{kind}:parameter-renamed"] += bool(renamed)
        ctx.dist[f"kind-roundtrip:{kind}:computed-and-renamed-and-present"] += any(
            f in renamed and f["id"] in case["values"] for f in packed)
    return failed


def describe(kind, fields):
    return [(f["id"], f["ty"], f["default"], param_name(kind, f)) for f in fields]


def kind_roundtrips(ctx: Ctx, n: int, stop_on_failure: bool = False):
    kinds = ["attrs", "pydantic", "attrs", "pydantic", "namedtuple", "typeddict"]
    for i in range(n):
        kind = kinds[i % len(kinds)]
        fields = gen_fields(ctx.rng, kind)
        for _ in range(2):
            case = {"suite": "kind-roundtrip", "kind": kind, "fields": fields, "values": gen_values(ctx.rng, fields, kind)}
            if check_case(ctx, case) and stop_on_failure:
                return


def replay(ctx: Ctx, case) -> bool:
    return check_case(ctx, case, count=False)
