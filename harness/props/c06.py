"""C06 — debug_trail changes only error reporting, never what is accepted or returned.

Lean: Props/C06.lean (modes agree on acceptance and value; the single DISABLE/FIRST error is among ALL's; same for dump).
Tie: correspondences `load` (3 modes x 2 coercion) and `dump` (3 modes) of the morphing model — the three modes are three
separately modelled folds, so a change to ONE code path breaks that path's correspondence.
Direct oracle (real code only): run the three retorts on the same (type, datum); compare acceptance, value, and that the
DISABLE / FIRST error corresponds to a leaf of the ALL error.
`subclass_data_suite` feeds the same oracle with data whose nodes are instances of SUBCLASSES of the builtin types (harness/subdata.py):
the `type(x) is T` / `isinstance(x, T)` / duck-typed tests the three programs repeat textually differ exactly there.
"""
from harness import morph
from harness.core import Ctx

ID = "C06"
PROPS_FILE = "AdaptixProofs/Props/C06.lean"
LEAN_TARGETS = ["AdaptixProofs.Props.C06", "drv_morph"]
from extract import scalars  # noqa: E402

EXTRACT = [scalars.emit]
CLAIM = {
    "technique": "Lean 4 proof (simultaneous fuel induction over the three separately modelled debug_trail folds) + "
                 "model/code correspondence per mode",
    "text": (
        "The DISABLE / FIRST / ALL code paths of the iterable, dict, tuple, union and model loaders and dumpers are modelled as "
        "three different folds; Props/C06.lean proves for all worlds, types, data and fuels that runs which do not escape agree on "
        "acceptance and on the loaded/dumped value, and that the single error of DISABLE/FIRST corresponds (class and offending "
        "input, modulo the documented looseness rules of the relation) to a leaf of the ALL error. The tie is a per-mode "
        "correspondence of real Retort.load/dump with the model on generated valid, corrupted and hostile data; the direct "
        "oracle compares the three real retorts with each other."
    ),
    "note": (
        "Assumes leaves (scalar loaders) are mode-independent and do not escape (C04). Correspondence relation looseness, stated in "
        "the Lean relation: a failed general union raises bare LoadError under DISABLE but UnionLoadError under FIRST/ALL; the "
        "fixed tuple loader reports the original datum under DISABLE and tuple(datum) under FIRST/ALL; DISABLE's dict loader loads "
        "the value before the key. Model loaders are the default flat layout here; other layouts are compared per mode in C03."
    ),
    "design_ref": "DESIGN.md §4 C06",
}
RULE = ("generated types (depth<=3/4) x (valid | corrupted | hostile) data x 3 modes x 2 coercion; non-trivial = the datum is "
        "rejected in at least one mode or the type nests containers; + subclass-data: every iterable spelling x as-is element, "
        "fixed-tuple matrix, field-less / all-optional models and generated types x data (and typed values for dumping) whose "
        "nodes are instances of subclasses / look-alikes of the builtin types (oracle only: outside the model's value universe)")
ASSUMPTIONS = ["scalar leaves do not depend on debug_trail", "no non-LoadError escapes (C04) — cases with an escape are C04's"]
TRUSTED = []


def leaves(e):
    """(class, input) of independently reported errors: Aggregate children flattened, a UnionLoadError is one leaf"""
    if e["cls"] == "AggregateLoadError":
        out = []
        for c in e["children"]:
            out += leaves(c)
        return out
    return [e]


def seq_equiv(a, b):
    """inputs equal, or one is the tuple() of the other (fixed-length tuple loader)"""
    if a == b:
        return True
    if a is None or b is None:
        return False
    for x, y in ((a, b), (b, a)):
        if x[0] == "t" and y[0] in ("l", "t", "q") and x[1] == y[1]:
            return True
        if x[0] == "t" and y[0] in ("S", "F", "it?", "d", "s", "y", "Y", "x", "a"):
            return True   # tuple(data) of a non-sequence iterable
    return False


def corresponds(single, all_err):
    """single (DISABLE/FIRST error) corresponds to one of the leaves collected under ALL"""
    singles = leaves(single)  # FIRST never aggregates; DISABLE neither
    s = singles[0]
    for l in leaves(all_err):
        cls_ok = (s["cls"] == l["cls"]) or (s["cls"] == "LoadError" and l["cls"] == "UnionLoadError")
        inp_ok = seq_equiv(s["input"], l["input"]) or s["cls"] == "LoadError"
        if cls_ok and inp_ok:
            return True
        # the single-optional DISABLE loader raises the inner error directly
        if l["cls"] == "UnionLoadError" and any(corresponds(single, c) for c in l["children"][1:]):
            return True
    return False


def oracle_load(ctx: Ctx, rec: morph.LoadRecord, extra=None, tag=""):
    """`extra` is merged into the recorded case, `tag` is appended to the signatures (names the family of data)"""
    for strict in (True, False):
        outs = {m: rec.real[(m, strict)] for m in morph.MODES}
        if any(o["r"] == "no-loader" for o in outs.values()):
            continue
        case = {"hint": repr(rec.spec.hint)[:300], "ty": rec.spec.ty, "datum": morph.enc(rec.datum), "strict": strict,
                "origin": rec.origin, **(extra or {})}
        on = f" on {extra['datum_shown'][:100]}" if extra and extra.get("datum_shown") else ""
        one_shot = morph.has_iter(case["datum"]) and morph.spec_has_union(rec.spec)
        if any(o["r"] == "escape" for o in outs.values()):
            # Lean: `escape_reaches_all` - an unexpected (non-LoadError) exception met by any mode is met by ALL, which inspects
            # every element; agreement is proved under `AllClean` (the ALL run raises no unexpected error). So the only
            # admissible pattern with an escape is: ALL escapes too.
            if outs["ALL"]["r"] != "escape" and not one_shot:
                sig = "accept-unexpected-error:class-object-datum" if isinstance(rec.datum, type) else \
                    f"accept-unexpected-error:{rec.spec.kind.split(':')[0]}{tag}"
                ctx.fail(sig, f"an unexpected error escapes under some mode but ALL ends with {outs['ALL']['r']!r} for "
                         f"{repr(rec.spec.hint)[:120]} (strict={strict}): { {m: o['r'] for m, o in outs.items()} }",
                         dict(case, datum_is_class=isinstance(rec.datum, type)))
            else:
                ctx.dist["unexpected-error-reaches-ALL"] += 1
            continue
        kinds = {m: o["r"] for m, o in outs.items()}
        if len(set(kinds.values())) != 1:
            if one_shot:
                ctx.fail("accept:union:one-shot-iterator",
                         f"a one-shot iterator under a Union is consumed differently by the modes: {kinds} for "
                         f"{repr(rec.spec.hint)[:120]}", case)
                continue
            ctx.fail(f"accept:{rec.spec.kind.split(':')[0]}{tag}",
                     f"modes disagree on acceptance for {repr(rec.spec.hint)[:120]} (strict={strict}){on}: {kinds}", case)
            continue
        if one_shot:
            continue
        if kinds["ALL"] == "ok":
            if not (outs["DISABLE"] == outs["FIRST"] == outs["ALL"]):
                ctx.fail(f"value:{rec.spec.kind.split(':')[0]}{tag}", f"modes return different values for {repr(rec.spec.hint)[:120]}{on}", case)
        else:
            for m in ("DISABLE", "FIRST"):
                if not corresponds(outs[m]["e"], outs["ALL"]["e"]):
                    ctx.fail(f"error-correspondence:{m}:{outs[m]['e']['cls']}{tag}",
                             f"the {m} error {outs[m]['e']['cls']} of {repr(rec.spec.hint)[:100]} is not among the errors "
                             f"collected under ALL", dict(case, single=outs[m]["e"], all=outs["ALL"]["e"]))


def one_shot_union_probe(ctx: Ctx, eng: morph.Engine) -> bool:
    """the recorded finding, deterministically"""
    import re
    from collections.abc import Iterable
    from decimal import Decimal
    from typing import List, Union
    hint = Union[Iterable[tuple[Decimal]], List[re.Pattern]]
    kinds = {m: eng.real.load(m, True, hint, morph.IterDatum([1, 2]))["r"] for m in morph.MODES}
    ctx.note_case({"probe": "one-shot-union"}, nontrivial=True, kind="probe:one-shot-union")
    if len(set(kinds.values())) != 1:
        ctx.fail("accept:union:one-shot-iterator", f"a one-shot iterator under a Union is consumed differently by the modes: {kinds}",
                 {"probe": "one-shot-union", "hint": repr(hint), "datum": "(x for x in [1, 2])"})
        return True
    return False


def class_object_union_probe(ctx: Ctx, eng: morph.Engine) -> bool:
    """the recorded finding, deterministically: the class `type` is subscriptable, so the model loader's data['a0'] succeeds
    and the ALL-mode loader goes on to `'b1' in data`, which raises TypeError"""
    import dataclasses
    from typing import Union

    @dataclasses.dataclass
    class CM:
        a0: int
        b1: int = 0
    kinds = {m: eng.real.load(m, False, Union[CM, str, int], type)["r"] for m in morph.MODES}
    ctx.note_case({"probe": "class-object-union"}, nontrivial=True, kind="probe:class-object-union")
    if "ok" in kinds.values() and len(set(kinds.values())) != 1:
        ctx.fail("accept-unexpected-error:class-object-datum",
                 f"a class object as datum of Union[model, str, int] (lax): {kinds}",
                 {"probe": "class-object-union", "datum_is_class": True})
        return True
    return False


def policy_layout_suite(ctx: Ctx, n: int):
    """models behind generated name_mapping options (nested paths, extra_in = skip / forbid / collect / kwargs, omit_default) and
    data with optional keys omitted, unknown keys at every level, wrong leaves: the three modes agree on acceptance, on the value,
    and the DISABLE / FIRST error is among those collected under ALL; dumping agrees too"""
    from adaptix import DebugTrail, Retort
    from adaptix.load_error import LoadError

    from harness import layouts
    rng = ctx.rng
    for i in range(n):
        case = layouts.gen_case(rng, i)
        cls = case["cls"]
        try:
            retorts = {m: Retort(recipe=case["recipe"](), debug_trail=getattr(DebugTrail, m)) for m in morph.MODES}
            st = rng.getstate()
            goods = {}
            for m in morph.MODES:
                rng.setstate(st)
                goods[m] = case["good"](rng, retorts[m])[1]
        except Exception as e:  # noqa: BLE001
            ctx.dist[f"policy-layout:not-built:{type(e).__name__}"] += 1
            continue
        desc = dict(case["desc"], suite="policy-layout")
        if not (goods["DISABLE"] == goods["FIRST"] == goods["ALL"]):
            ctx.fail("dump-value:policy-layout", f"modes dump different data: {goods}", desc)
            continue
        for _ in range(5):
            datum, tags = layouts.mutate(rng, case, goods["ALL"])
            outs = {}
            for m in morph.MODES:
                outs[m] = morph.canon_outcome(morph.run_real(retorts[m].get_loader(cls), datum))
            kinds = {m: o["r"] for m, o in outs.items()}
            c = dict(desc, datum=repr(datum)[:300], tags=tags)
            ctx.note_case(c, nontrivial=bool(tags), kind=f"policy-layout:{case['extra_mode']}:{'+'.join(tags) or 'valid'}"[:80])
            if "escape" in kinds.values():
                if kinds["ALL"] != "escape":
                    ctx.fail("accept-unexpected-error:policy-layout", f"an unexpected error escapes under some mode but ALL ends with "
                             f"{kinds['ALL']!r}: {kinds}", c)
                continue
            if len(set(kinds.values())) != 1:
                ctx.fail("accept:policy-layout", f"modes disagree on acceptance of {datum!r:.160} (extra_in={case['extra_mode']}, "
                         f"{tags}): {kinds}", c)
                continue
            if kinds["ALL"] == "ok":
                if not (outs["DISABLE"] == outs["FIRST"] == outs["ALL"]):
                    ctx.fail("value:policy-layout", f"modes load different values from {datum!r:.160}", c)
            else:
                for m in ("DISABLE", "FIRST"):
                    if not corresponds(outs[m]["e"], outs["ALL"]["e"]):
                        ctx.fail(f"error-correspondence:{m}:policy-layout", f"the {m} error {outs[m]['e']['cls']} is not among the errors "
                                 f"collected under ALL for {datum!r:.160}", dict(c, single=outs[m]["e"], all=outs["ALL"]["e"]))


def typeddict_dump_suite(ctx: Ctx, n: int):
    """model dumpers with OPTIONAL output fields (TypedDict NotRequired keys): the three generated dumpers must agree on
    whether dumping succeeds, also when a field's own dumper fails with the accessor's exception class (KeyError)"""
    import copy
    from decimal import Decimal
    from typing import NotRequired, Optional, TypedDict, Union

    from adaptix import DebugTrail, Retort
    rng = ctx.rng
    retorts = {m: Retort(debug_trail=getattr(DebugTrail, m)) for m in morph.MODES}
    for i in range(n):
        inner_keys = rng.sample(["x", "y", "z"], rng.randint(1, 3))
        Inner = TypedDict(f"Inner{i}", {k: (int if rng.random() < 0.7 else NotRequired[int]) for k in inner_keys})
        outer_fields = {}
        shapes = {}
        for k in rng.sample(["name", "inner", "items", "u", "opt", "m"], rng.randint(2, 5)):
            tp, shape = {
                "name": (str, "str"), "inner": (Inner, "inner"), "items": (list[Inner], "items"),
                "u": (Union[int, Decimal], "union"), "opt": (Optional[Inner], "opt"), "m": (dict[str, Inner], "map"),
            }[k]
            outer_fields[k] = NotRequired[tp] if rng.random() < 0.6 else tp
            shapes[k] = shape
        Outer = TypedDict(f"Outer{i}", outer_fields)

        def mk_inner():
            return {k: rng.randrange(9) for k in inner_keys}

        def mk(shape):
            return {"str": lambda: "s", "inner": mk_inner, "items": lambda: [mk_inner() for _ in range(rng.randint(0, 2))],
                    "union": lambda: rng.choice([1, Decimal("1.5")]), "opt": lambda: rng.choice([None, mk_inner()]),
                    "map": lambda: {"k": mk_inner()}}[shape]()
        value = {k: mk(sh) for k, sh in shapes.items()}
        variants = [("valid", value)]
        # invalid variants: break one nested thing
        for k, sh in shapes.items():
            bad = copy.deepcopy(value)
            if sh == "inner" and inner_keys:
                del bad[k][inner_keys[0]]
            elif sh == "items":
                bad[k] = [{kk: 1 for kk in inner_keys[1:]}]
            elif sh == "union":
                bad[k] = 1.5
            elif sh == "opt":
                bad[k] = {kk: 1 for kk in inner_keys[1:]}
            elif sh == "map":
                bad[k] = {"k": {kk: 1 for kk in inner_keys[1:]}}
            else:
                continue
            variants.append((f"broken:{sh}", bad))
        for label, v in variants:
            outs = {}
            for m in morph.MODES:
                try:
                    outs[m] = ("ok", retorts[m].dump(copy.deepcopy(v), Outer))
                except Exception as e:  # noqa: BLE001
                    outs[m] = ("fail", type(e).__name__)
            case = {"suite": "typeddict-dump", "outer": {k: repr(t)[:60] for k, t in outer_fields.items()}, "inner_keys": inner_keys,
                    "value": repr(v)[:300], "label": label}
            kinds = {m: o[0] for m, o in outs.items()}
            ctx.note_case(case, nontrivial=label != "valid", kind=f"typeddict-dump:{label}:{kinds['ALL']}")
            if len(set(kinds.values())) != 1:
                ctx.fail(f"dump-accept:model-optional-field:{label}", f"model dumpers disagree on whether dumping succeeds ({label}): "
                         f"{ {m: o if o[0] == 'fail' else 'ok' for m, o in outs.items()} }", case)
            elif kinds["ALL"] == "ok" and not (outs["DISABLE"][1] == outs["FIRST"][1] == outs["ALL"][1]):
                ctx.fail("dump-value:model-optional-field", "model dumpers return different values", case)


def optional_model_loads(ctx: Ctx, eng: morph.Engine, n: int):
    """the three generated MODEL loaders on models whose first extracted key is optional: absent key / explicit None / value"""
    import dataclasses
    from typing import Optional, TypedDict
    rng = ctx.rng
    for i in range(n):
        names = rng.sample(["timeout", "retries", "tags", "alpha", "zeta"], rng.randint(1, 3))
        fields = []
        for nm in names:
            tp, vals = rng.choice([(Optional[int], [None, 0, 30, "bad"]), (Optional[str], [None, "", "x", 5])])
            fields.append((nm, tp, dataclasses.field(default=rng.choice(vals[:3])), vals))
        cls = dataclasses.make_dataclass(f"OM{i}", [(a, b, c) for a, b, c, _ in fields])
        td = TypedDict(f"OMTD{i}", {a: b for a, b, _, _ in fields}, total=False)
        for _ in range(4):
            datum = {a: rng.choice(v) for a, _, _, v in fields if rng.random() < 0.75}
            for hint in (cls, td):
                for strict in (True, False):
                    outs = {m: morph.canon_outcome(eng.real.load(m, strict, hint, dict(datum))) for m in morph.MODES}
                    case = {"probe": "optional-model", "fields": [(a, repr(b), repr(c.default)) for a, b, c, _ in fields],
                            "datum": repr(datum), "strict": strict, "kind": hint.__name__}
                    ctx.note_case(case, nontrivial=True, kind="optional-model:" + outs["ALL"]["r"])
                    kinds = {m: o["r"] for m, o in outs.items()}
                    if len(set(kinds.values())) != 1:
                        ctx.fail("accept:model:optional-first-field", f"model loaders disagree on acceptance: {kinds} for {datum!r}", case)
                    elif kinds["ALL"] == "ok" and not (outs["DISABLE"] == outs["FIRST"] == outs["ALL"]):
                        ctx.fail("value:model:optional-first-field", f"model loaders return different values for {datum!r}: "
                                 f"{ {m: o['v'] for m, o in outs.items()} }"[:300], case)


def _load_sub(eng: morph.Engine, mode, strict, hint, make):
    """one real load of a freshly built datum; values in the subclass-preserving comparison form"""
    from adaptix import ProviderNotFoundError
    from adaptix.load_error import LoadError

    from extract import scalars as X
    from harness import subdata
    try:
        ld = eng.real.loader(mode, strict, hint)
    except ProviderNotFoundError:
        return {"r": "no-loader"}
    except Exception as e:  # noqa: BLE001
        return {"r": "escape", "exc": X.exc_name(type(e)), "at": "loader-creation"}
    datum = make()
    try:
        v = ld(datum)
    except LoadError as e:
        return {"r": "err", "e": morph.canon_err(morph.enc_err(e, None))}
    except Exception as e:  # noqa: BLE001
        return {"r": "escape", "exc": X.exc_name(type(e))}
    return {"r": "ok", "v": subdata.enc2(v)}


def subclass_data_suite(ctx: Ctx, eng: morph.Engine, n: int, depth: int):
    """data that are instances of SUBCLASSES of the builtin types the loaders test for (user subclasses of str / int / float /
    bytes / list / tuple / dict / set / frozenset / deque, (str, Enum) / IntEnum / IntFlag members, namedtuples, OrderedDict /
    defaultdict / Counter) and their collections look-alikes (UserString / UserList / UserDict, mappingproxy, ChainMap), for
    every iterable spelling x as-is element kind, the fixed-tuple matrix and generated types (scalars, literals, dicts, unions,
    models, nested), both coercion modes: (a) a valid datum with some nodes turned into same-valued subclass instances, (b) a
    valid datum with a node (often the root) replaced by a subclass instance of ANOTHER shape (a str subclass where a list is
    expected, ...). Oracle = the three-mode agreement of `oracle_load` on the real retorts. The Lean value universe has no
    'instance of a subclass' tag, so these data are not sent to the model (counted as outside-model-universe)."""
    from harness import subdata
    rng = ctx.rng
    specs = eng.gen_specs(n, depth, iter_matrix=True, tuple_matrix=True)
    # models whose generated loader has NO required key to look up first (no field / only optional fields): the only type test
    # of the input is the explicit one
    tg = morph.TypeGen(rng)
    for i, fields in enumerate(([], [("a0", tg.scalar("int"), False)], [("a0", tg.scalar("int"), False), ("b1", tg.scalar("str"), False)])):
        m = tg.model_of(f"SubM{i}", list(fields))
        specs += [m, tg.wrap("list", m), tg.wrap("dict", m), tg.wrap("model", m)]
    for spec in specs:
        if eng.real.load("DISABLE", True, spec.hint, None).get("r") == "no-loader":
            ctx.dist["skipped:no-loader"] += 1
            continue
        bases = [d for _, d, _ in eng.data_for(spec, n_valid=2, n_corrupt=0, n_hostile=0)]
        bases = [b for b in bases if not morph.has_iter(morph.enc(b))][:2] or [rng.choice([[], {}, "ab", [1, "a"], {"a": 1}])]
        plans = []
        for base in bases:
            nn = subdata.n_nodes(base)
            pick = lambda k: frozenset(rng.sample(range(nn), min(nn, k)))  # noqa: E731
            plans += [(base, pick(rng.choice([1, 1, 2, 3])), frozenset()),
                      (base, frozenset(range(nn)) if nn <= 12 else pick(6), frozenset()),
                      (base, frozenset(), pick(1)),
                      (base, pick(rng.choice([1, 2])), pick(1))]
        plans.append((bases[0], frozenset(), frozenset({0})))
        plans.append((bases[-1], frozenset(), frozenset({0})))
        for base, sub_at, plant_at in plans:
            seed = rng.getrandbits(32)
            make = lambda: subdata.build(seed, base, sub_at, plant_at)[0]  # noqa: E731
            datum, changed = subdata.build(seed, base, sub_at, plant_at)
            if not changed:
                ctx.dist["subclass-data:nothing-to-rewrite"] += 1
                continue
            rec = morph.LoadRecord(spec=spec, datum=datum, origin="subclass", real={}, model={})
            for (m, s) in morph.CONFIGS:
                rec.real[(m, s)] = _load_sub(eng, m, s, spec.hint, make)
            ctx.dist["outside-model-universe"] += 1
            rejected = any(o["r"] != "ok" for o in rec.real.values())
            shown = subdata.show(datum)[:300]
            ctx.note_case({"t": spec.ty, "d": shown, "suite": "subclass-data"}, nontrivial=True,
                          kind=("subclass-data:same-shape:" if not plant_at else "subclass-data:planted:")
                          + ("rejected" if rejected else "accepted"))
            oracle_load(ctx, rec, extra={"suite": "subclass-data", "datum_shown": shown}, tag=":subclass-datum")
        # dumping: typed values with nodes turned into subclass instances / replaced by foreign subclass instances
        if eng.real.dump("DISABLE", True, spec.hint, None).get("r") == "no-dumper":
            continue
        for _ in range(3):
            try:
                x = spec.gen(rng)
            except Exception:  # noqa: BLE001
                continue
            nn = subdata.n_nodes(x)
            sub_at = frozenset(rng.sample(range(nn), min(nn, rng.choice([1, 2, 3]))))
            plant_at = frozenset(rng.sample(range(nn), 1)) if rng.random() < 0.3 else frozenset()
            seed = rng.getrandbits(32)
            try:
                value, changed = subdata.build(seed, x, sub_at, plant_at)
            except TypeError:   # an unhashable rewrite inside a set element / key of the typed value
                continue
            if not changed:
                continue
            outs = {}
            for m in morph.MODES:
                try:
                    outs[m] = ("ok", subdata.enc2(eng.real.dumper(m, True, spec.hint)(subdata.build(seed, x, sub_at, plant_at)[0])))
                except Exception as e:  # noqa: BLE001
                    outs[m] = ("fail", type(e).__name__)
            kinds = {m: o[0] for m, o in outs.items()}
            case = {"suite": "subclass-data", "hint": repr(spec.hint)[:300], "ty": spec.ty, "value_shown": subdata.show(value)[:300]}
            ctx.note_case(case, nontrivial=True, kind="subclass-data:dump:" + kinds["ALL"])
            if len(set(kinds.values())) != 1:
                ctx.fail(f"dump-accept:{spec.kind.split(':')[0]}:subclass-datum",
                         f"modes disagree on whether dumping {case['value_shown'][:120]} as {repr(spec.hint)[:100]} succeeds: {outs}"[:400], case)
            elif kinds["ALL"] == "ok" and not (outs["DISABLE"] == outs["FIRST"] == outs["ALL"]):
                ctx.fail(f"dump-value:{spec.kind.split(':')[0]}:subclass-datum",
                         f"modes dump {case['value_shown'][:120]} as {repr(spec.hint)[:100]} to different values", case)


def run(ctx: Ctx):
    eng = morph.Engine(ctx)
    one_shot_union_probe(ctx, eng)
    class_object_union_probe(ctx, eng)
    optional_model_loads(ctx, eng, ctx.budget(40, 800))
    typeddict_dump_suite(ctx, ctx.budget(60, 1500))
    policy_layout_suite(ctx, ctx.budget(80, 1500))
    specs = eng.gen_specs(ctx.budget(160, 2500), 3 if ctx.tier == "quick" else 4, user_leaves=True, tuple_matrix=True)
    recs = eng.load_records(specs, suite="load", n_valid=2, n_corrupt=3, n_hostile=2)
    for rec in recs:
        rejected = any(o["r"] != "ok" for o in rec.real.values())
        ctx.note_case({"t": rec.spec.ty, "d": morph.enc(rec.datum)}, nontrivial=rejected or rec.spec.children != [],
                      kind=f"load-{rec.origin}:" + ("rejected" if rejected else "accepted"))
        oracle_load(ctx, rec)
        if rejected and len(ctx.samples) < 5:
            ctx.sample({"hint": repr(rec.spec.hint)[:120], "datum": morph.enc(rec.datum),
                        "real": {f"{m}/{s}": (o["r"], o.get("e", {}).get("cls")) for (m, s), o in rec.real.items()}})
    drecs = eng.dump_records(specs, suite="dump")
    for rec in drecs:
        outs = rec["real"]
        kinds = {m: ("ok" if o["r"] == "ok" else "fail") for m, o in outs.items()}
        case = {"hint": repr(rec["spec"].hint)[:300], "ty": rec["spec"].ty, "value": morph.enc(rec["value"]), "origin": rec["origin"]}
        ctx.note_case(case, nontrivial=rec["spec"].children != [], kind=f"dump-{rec['origin']}:" + kinds["ALL"])
        if len(set(kinds.values())) != 1:
            ctx.fail(f"dump-accept:{rec['spec'].kind.split(':')[0]}", f"modes disagree on whether dumping succeeds: {kinds}", case)
        elif kinds["ALL"] == "ok" and not (outs["DISABLE"] == outs["FIRST"] == outs["ALL"]):
            ctx.fail(f"dump-value:{rec['spec'].kind.split(':')[0]}", "modes dump different values", case)
    # last, so that the random streams of the suites above are the ones they had before this suite existed
    subclass_data_suite(ctx, eng, ctx.budget(100, 800), 3 if ctx.tier == "quick" else 4)


def search(ctx: Ctx):
    typeddict_dump_suite(ctx, 600)
    policy_layout_suite(ctx, 800)
    eng = morph.Engine(ctx)
    eng.drv = None
    specs = eng.gen_specs(1500, 4, user_leaves=True, tuple_matrix=True)
    for rec in eng.load_records(specs, n_valid=2, n_corrupt=4, n_hostile=3):
        oracle_load(ctx, rec)
    subclass_data_suite(ctx, eng, 600, 4)


def replay(ctx: Ctx, case) -> bool:
    if case and case.get("probe") == "one-shot-union":
        return one_shot_union_probe(ctx, morph.Engine(ctx))
    if case and case.get("probe") == "class-object-union":
        return class_object_union_probe(ctx, morph.Engine(ctx))
    return False  # replays carry the full case; re-running needs the generated classes (see seed/tier in the replay file)
