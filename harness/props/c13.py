"""C13 — a generated converter equals the field-wise construction the linking rules fix.

Lean side: AdaptixModel/Conv/{Link,Convert}.lean (model), AdaptixProofs/Props/C13.lean (theorems).
Tie: correspondence `convert` — generated model pairs (five model kinds, nested, generic, field-less, classes
defining __bool__ / __len__; fields wrapped in Optional / iterables / dict, the wrappers nesting up to three deep)
related by rename / drop / add / retype edits (leaf types below a wrapper are retyped too and served by user
coercers), source values biased per case towards the falsy-but-not-None inhabitants of every type (0, 0.0, "",
False, Decimal(0), empty containers, empty / falsy model instances), recipes of the public providers
(link, link_constant, link_function, from_param, allow/forbid_unlinked_optional, coercer) with overlapping
entries in random order, extra parameters (same-named at top level and nested, defaults, keyword-only), several
calls each; the real get_converter / impl_converter / convert / ConversionRetort are run in-process and compared
with the model driver on: converter produced or ProviderNotFoundError, every call's result (type-exact,
field-wise) or TypeError.
Generic classes: `class C(Generic[T0, .., T(n-1)])` (n = 1-3, four model kinds) with fields declared through hints over
the type variables in ANY order of appearance (`Dict[T1, T0]`, a nested generic model `E[T2, T0]`, `Optional[T1]`,
`List[T0]`), instantiated with leaves / (sibling) models; the destination declares its own variable order or spells
the types out. The field types the expected value is computed from come from the harness's own substitution
(c13_world.subst), the model resolves them itself (AdaptixModel/Conv/Generic.lean, a model of GenericResolver);
`_generic_order_cases` enumerates every permutation of the variables for n = 2, 3 on every seed.
A fixed family run on every seed (`_tagged_same_type_cases`) declares a nested model with the same tagged hint
(Annotated / NotRequired) on both sides, where tags must stay invisible to the linking rules.
Positions below generic types: one generated case in eight (`Gen.positional_case`) and 15 % of the ordinary ones
(`positional-overlay`) carry user coercers whose predicates are patterns over the location stack of a coercion site
(`P[dict].generic_arg(i, T)`, `P[list].generic_arg(0, T)`, `P.generic_arg(i, ANY)`, `P[D].field.generic_arg(1, T)`,
field- and type-bound ones, now and then aimed at the sibling position) next to the general coercer of the leaf pair,
in random recipe order, over types that repeat ONE (source, destination) leaf pair at sibling positions (key and
value of a mapping, mappings below / above lists and Optional, several fields, nested models, the converter's own
pair); `_position_cases` crosses seven such shapes with eight bound coercers and both recipe orders on every seed.
The expected value uses, per position, the FIRST recipe entry whose predicates hold on that position's stacks, by
the harness's own evaluation (`Spec.pred`, `Spec.user_coercer`).
Second suite `link`: the linkings the real ModelCoercerProvider fetches for the top-level model pair (observed by a
recording subclass at the end of the user recipe) against `fetchFieldLinking` of the model.
Third suite `history`: 2-6 operations on ONE retort (the module-level API = the global retort, or a
ConversionRetort holding part of the recipe, plus retorts extended from it): the same (src, dst, name) requested
without a per-call recipe and with different per-call recipes in every order through get_converter / convert /
impl_converter, also the copy pair (src, src) and other names; every converter obtained is compared with the Lean
model of the facade and its `_simple_converter_cache` (AdaptixModel/Conv/Facade.lean, `runHistory`) and with
`convertSpec` under the recipe the specification puts in force for that request (`specRecipes`).
Direct oracle (real code only): the result equals a Python transcription of the documented algorithm
(harness/props/c13_oracle.py `Spec`), the source and the extra arguments are unchanged by the call, an
impl_converter result has the stub's signature / name, creation raises nothing but ProviderNotFoundError; in a
history the same is demanded of every request with the recipe in force for *that* request (per-call providers,
then the providers of the addressed retort), whatever was requested before.
"""
import copy
import json

from harness.core import Ctx, Driver, InfraError
from harness.props.c13_gen import gen_case, gen_history
from harness.props.c13_oracle import RealCase, Spec, Undefined, Unlinked

ID = "C13"
CLAIM = {
    "technique": "Lean 4 proof (compiler correctness of linking -> broaching plan -> call plan against a direct "
                 "interpreter of the documented linking algorithm) + model/code correspondence",
    "text": (
        "Proved in Lean for every class table, recipe (predicates are arbitrary functions of the location stack), "
        "signature, value and fuel: if the model generator produces a converter, calling it returns exactly "
        "convertSpec — the destination built field by field from the linked sources, extra parameters looked up by "
        "name, coercion recursing through nested models, Optional, iterables and dicts (convert_eq_spec, "
        "call_eq_spec); recipe order decides (first_link_wins); a same-named extra parameter, rightmost first, wins "
        "over the source field exactly for top-level fields (param_over_field_top_level, "
        "param_over_field_top_level_only, nested_ignores_params); from_param reaches every level (from_param_any_level); "
        "an Optional pair maps None to None and sends every other value - the falsy ones included - through the "
        "conversion of the wrapped pair, an empty sequence is rebuilt by the destination's factory "
        "(optional_spec_none_test, optional_converter_none_test, empty_iterable_rebuilt); unmatched extra source "
        "fields do not change any linking (extra_src_ignored); plan evaluation cannot write to the source "
        "(src_untouched); the produced function carries the stub's signature (signature_preserved). The facade is "
        "modelled with its cache of simple converters (retorts, extend, per-call recipes, get_converter / convert / "
        "impl_converter): for every history of operations of any length on any number of retorts every request "
        "returns what the cache-free specification returns (history_eq_fresh, history_eq_fresh_after, by the cache "
        "invariant 'every entry is what the owning retort's recipe produces for its key'), hence a converter "
        "requested with a per-call recipe computes convertSpec under that recipe followed by the retort's, whatever "
        "was requested before (get_converter_after_any_history, convert_after_any_history). The field types of a "
        "parametrized generic model C[a0, ..] are modelled after GenericResolver (parameters of the field hint in "
        "order of first appearance, actuals collected in that order, positional subscription) and proved to be the "
        "simultaneous substitution of the i-th argument for the i-th declared variable, whatever order a hint "
        "mentions the variables in (parametrize_eq_subst, subscript_respects_order_of_appearance, "
        "generic_fields_by_substitution, declared_variable_gets_its_argument, closed_hint_unchanged; collecting the "
        "actuals in declaration order instead is refuted by decl_order_collection_differs). A coercer is chosen per "
        "location: the first coercer(...) entry accepting the pair of location stacks (first_coercer_wins, "
        "declining_coercers_invisible); generic_arg(i, q) holds exactly at the i-th type argument "
        "(generic_arg_iff, generic_arg_not_field, pattern_parent_generic_arg), so an entry bound to one position is "
        "invisible at a sibling position (sibling_bound_coercer_invisible_src / _dst); the converter of a mapping is "
        "built from the coercer requested at the key location and the one requested at the value location, equal "
        "type pairs included (dict_coercers_by_position, dict_spec_by_position), and maps {k: x} to {fk(k): fv(x)} "
        "for the first entries fk / fv accepting the key / the value location (dict_entries_by_own_position, "
        "user_coercer_applied; reusing the key coercer for the values is refuted by "
        "key_coercer_reused_for_values_differs). The hand-written "
        "model is tied to /repo on every run by the `convert` correspondence over generated model pairs, recipes, "
        "parameters and values and by the `history` correspondence over generated request sequences on one retort, "
        "and the direct oracle re-checks the property on the real library against an "
        "independent Python transcription of the documented algorithm."
    ),
    "note": (
        "Trusted: Lean 4.33 kernel; axioms audited each run. The theorems are about the Lean model. Which coercer is "
        "chosen for two non-model types is property C14 and enters as the parameter World.asIs; user functions and "
        "constructors are uninterpreted / modelled by Python's call binding; shapes of the five model kinds are "
        "given to the model by the harness (C17), except the types of fields declared through type variables, which "
        "the model resolves itself; inheritance from generic parents, TypeVarTuple and bare generic classes are not "
        "modelled (C16). Recursive models are outside the model (the code does not "
        "terminate on them). For an explicit link(src, dst) whose source predicate matches several candidates the "
        "candidate order is the code's (source fields, then parameters right to left); the property statement does "
        "not fix it."
    ),
    "design_ref": "DESIGN.md §4 C13",
}
PROPS_FILE = "AdaptixProofs/Props/C13.lean"
LEAN_TARGETS = ["AdaptixProofs.Props.C13", "drv_c13"]
RULE = ("a case is one (model pair, recipe, signature, API) with 1-3 calls; it is non-trivial when a converter is "
        "produced and at least one destination field is fed by something other than the same-named source field "
        "(explicit link, constant, function, parameter, skipped optional) or a nested model is converted; a history "
        "case is one model pair with 2-6 facade operations on one retort, non-trivial when some cache key is "
        "requested again after a successful request for it")
ASSUMPTIONS = [
    "source values are well typed for the source model (a TypedDict source carries all its keys)",
    "user functions given to link_function / link(coercer=) / coercer() / factory= are pure (the harness uses "
    "functions returning a tagged record of their arguments)",
    "predicates are pure functions of the location stack (the predicate language itself is C10)",
    "for an explicit link whose source predicate matches several candidates the order of the code is taken as the "
    "rule: fields of the source model first, then extra parameters right to left (the tutorial sentence 'parameters "
    "are checked before the fields' is read as describing the default same-name linking)",
    "set-like iterables are not generated (the minimal iterable model keeps element order and multiplicity)",
]
TRUSTED = [
    "shapes of the five model kinds as described by harness/props/c13_world.py (validated by the correspondence: a "
    "wrong accessor / parameter kind shows up as a disagreement)",
    "Python call binding as modelled by bindCall / bindSig (validated by the correspondence on calls with "
    "positional, keyword and defaulted arguments)",
    "type hint tags of a field declaration (Annotated, NotRequired) are erased by the harness before the model sees "
    "the shapes: the model has no tags (validated by the fixed family of same-tagged nested models)",
]


# ---------------------------------------------------------------------------

def lean_request(case, world):
    return {"op": "convert", "world": world, "sig": case["sig"], "recipe": case["recipe"], "fuel": 40,
            "calls": case["calls"]}


def nontrivial(case, created):
    if not created:
        return False
    if any(p["k"] != "policy" for p in case["recipe"]) or len(case["sig"]["params"]) > 1:
        return True
    return len(case["classes"]) > 2


def short(case):
    return json.loads(json.dumps(case))


def canon_value(u, j):
    """TypedDict instances are plain dicts at run time: render them (and every dict) as a key-sorted dict on
    both sides; Python dict equality does not depend on the order"""
    if not isinstance(j, dict) or "v" not in j:
        return j
    v = j["v"]
    if v == "obj":
        fields = [[k, canon_value(u, x)] for k, x in j["fields"]]
        if u.logical[j["cls"]]["kind"] == "typeddict":
            kvs = [[{"v": "atom", "tag": "str", "repr": repr(k)}, x] for k, x in fields]
            return {"v": "dict", "kvs": sorted(kvs, key=lambda kv: json.dumps(kv[0], sort_keys=True))}
        return {"v": "obj", "cls": j["cls"], "fields": fields}
    if v == "dict":
        kvs = [[canon_value(u, k), canon_value(u, x)] for k, x in j["kvs"]]
        return {"v": "dict", "kvs": sorted(kvs, key=lambda kv: json.dumps(kv[0], sort_keys=True))}
    if v == "seq":
        return {"v": "seq", "kind": j["kind"], "xs": [canon_value(u, x) for x in j["xs"]]}
    if v == "app":
        return {"v": "app", "f": j["f"], "pos": [canon_value(u, x) for x in j["pos"]],
                "kw": [[k, canon_value(u, x)] for k, x in j["kw"]]}
    return j


def type_depth(ty):
    """number of Optional / iterable / dict wrappers stacked in a type"""
    t = ty["t"]
    if t in ("opt", "iter"):
        return 1 + type_depth(ty["a"])
    if t == "dict":
        return 1 + type_depth(ty["v"])
    return 0


def note_structure(ctx: Ctx, case):
    """evidence counters for the structural regions of the input space (types and classes)"""
    tys = [f["ty"] for c in case["classes"] for f in c["fields"]] + [p["ty"] for p in case["sig"]["params"]]
    depth = max([type_depth(t) for t in tys] or [0])
    ctx.dist[f"type-wrapper-depth-{min(depth, 3)}"] += 1
    if any(not c["fields"] for c in case["classes"]):
        ctx.dist["class-fieldless"] += 1
    if any(c.get("falsy") for c in case["classes"]):
        ctx.dist["class-falsy-by-bool-or-len"] += 1
    for k, v in (case.get("profile") or {}).items():
        if v:
            ctx.dist[f"profile-{k}"] += 1
    for k in generic_regions(case):
        ctx.dist[k] += 1
    for k in position_regions(case):
        ctx.dist[k] += 1


def _walk_types(ty):
    yield ty
    t = ty["t"]
    if t in ("opt", "iter"):
        yield from _walk_types(ty["a"])
    elif t == "dict":
        yield from _walk_types(ty["k"])
        yield from _walk_types(ty["v"])


def position_regions(case):
    """regions of the `position` part of the input space (evidence keys `pos-*`): user coercers whose predicates
    address a position among the type arguments of a generic type (`generic_arg`), and mappings whose key and
    value carry the same (source type, destination type) pair - read off the declared types: a destination
    `Dict[b, b]` field / return type facing a source `Dict[a, a]` of the same-named field"""
    out = set()
    coercers = [p for p in case["recipe"] if p["k"] == "coercer"]
    bound = [p for p in coercers if "garg" in json.dumps(p["src"]) or "garg" in json.dumps(p["dst"])]
    if bound:
        out.add("pos-recipe-with-position-bound-coercer")
        if len(coercers) > len(bound):
            out.add("pos-recipe-with-position-bound-and-general-coercer")
        for p in bound:
            for side in ("src", "dst"):
                txt = json.dumps(p[side])
                for pos in (0, 1):
                    if f'"pos": {pos}' in txt:
                        out.add(f"pos-coercer-{side}-predicate-generic_arg-{pos}")
    by_id = {c["id"]: c for c in case["classes"]}
    pairs = [(case["sig"]["params"][0]["ty"], case["sig"]["ret"])]
    for d in case["classes"]:
        if d["role"] != "dst":
            continue
        for s in case["classes"]:
            if s["role"] == "src":
                pairs += [(sf["ty"], f["ty"]) for f in d["fields"] for sf in s["fields"] if sf["id"] == f["id"]]
    del by_id
    for sty, dty in pairs:
        for a, b in zip(_walk_types(sty), _walk_types(dty)):
            if a["t"] == b["t"] == "dict" and (a["k"], b["k"]) == (a["v"], b["v"]):
                out.add("pos-mapping-with-equal-key-and-value-pair")
                if bound:
                    out.add("pos-mapping-with-equal-key-and-value-pair:position-bound-coercer-in-recipe")
            if a["t"] != b["t"]:
                break
    return sorted(out)


def generic_regions(case):
    """regions of the generic part of the input space a case lies in (evidence keys `generic-*`): a hint is
    `flipped` when its type variables first appear in an order other than the one `Generic[...]` declares"""
    from harness.props.c13_world import hint_vars
    out = set()
    for c in case["classes"]:
        if not c.get("tvars"):
            continue
        out.add(f"generic-{c['role']}-class-with-{c['tvars']}-type-variables")
        out.add(f"generic-kind-{c['kind']}")
        if any(a["t"] == "model" for a in c["targs"]):
            out.add("generic-argument-is-a-model")
        if c["role"] == "dst" and any(a == {"t": "leaf", "n": 0} for a in c["targs"]):
            out.add("generic-destination-argument-is-Any")
        for f in c["fields"]:
            h = f.get("hint")
            if h is None:
                continue
            vs = hint_vars(h)
            if len(vs) >= 2:
                out.add("generic-hint-with-several-type-variables")
            if vs != sorted(vs):
                out.add("generic-hint-flipped-order")
                out.add(f"generic-hint-flipped-order-{c['role']}")
                top = h["t"] if h["t"] != "model" else "nested-generic-model"
                out.add(f"generic-hint-flipped-order:{top}")
            elif len(vs) < c["tvars"] and vs and vs != list(range(len(vs))):
                out.add("generic-hint-skips-a-declared-variable")
    return sorted(out)


def _as_is_suffix(rc, case, args, kwargs, real_value):
    """names the call site of a result that differs from the linking rules: `:same-tagged-hint-passed-as-is` when
    the value is what the rules give once every model declared with the same tagged hint (Annotated /
    NotRequired) on both sides is passed through unchanged instead of being converted field by field"""
    try:
        alt = canon_value(rc.u, Spec(case, rc.u, tagged_as_is=True).expected(args, kwargs))
    except Undefined:
        return ""
    return ":same-tagged-hint-passed-as-is" if alt == real_value else ""


def check_case(ctx: Ctx, case, reply, suite="convert", rc=None):
    """runs the real library on one case; direct oracle; compares with the model reply (if any).
    returns (compared, disagreements)"""
    try:
        rc = rc or RealCase(case)
    except Exception as e:  # the generator produced an illegal class body: a harness bug, never silent
        raise InfraError(f"cannot materialise case: {type(e).__name__}: {e}\n{json.dumps(case)[:2000]}")
    world = rc.u.world_json()
    created = rc.create()
    spec = Spec(case, rc.u)
    kind = f"{case['api']}:{created[0]}"
    compared = disagreements = 0
    real_view = {"created": created[0]}

    if created[0] == "error":
        ctx.fail(f"create:raises-{created[1]}",
                 f"creating the converter raised {created[1]} instead of returning a converter or "
                 f"ProviderNotFoundError (api {case['api']}, name {case.get('fname')!r})", case)
    results = []
    if created[0] != "ok" and case["calls"]:
        try:                                      # whether a tag decides a predicate is known only after an evaluation
            _expected(rc, spec, case["calls"][0])
        except Exception:  # noqa: BLE001,S110
            pass
    if created[0] == "ok":
        conv, stub = created[1], created[2]
        if stub is not None:
            rep = rc.signature_report(conv, stub)
            if rep is not None:
                ctx.fail("signature:not-preserved", f"impl_converter result does not carry the stub's signature: {rep}", case)
        for call in case["calls"]:
            out = rc.call(conv, call)
            if "value" in out:
                out["value"] = canon_value(rc.u, out["value"])
            results.append(out)
            if out.get("exc") == "ValidationError":
                # a pydantic destination rejected a value it was given ("you must ensure type compatibility
                # yourself"): the constructor's own checks are outside the property and the model
                out["skip"] = True
                ctx.dist["call-skipped-pydantic-validation"] += 1
                continue
            if not out["src_unchanged"]:
                ctx.fail("source:modified", "the source object or an extra argument changed during the call", case)
            args = [rc.u.from_json(a) for a in call["args"]]
            kwargs = [(k, rc.u.from_json(v)) for k, v in call["kwargs"]]
            try:
                exp = canon_value(rc.u, spec.expected(args, kwargs))
            except Unlinked as e:
                exp = None
                if "value" in out and e.below_same_tagged_hint:
                    ctx.fail("create:unlinked-field-accepted:below-same-tagged-hint",
                             f"a converter was produced and passed a nested model through as is although the linking "
                             f"rules leave its destination field {e} without a link: source and destination declare "
                             f"the model with the same tagged hint (Annotated / NotRequired), where the refusal of "
                             f"the model conversion is not final and the same-type rule takes over", case)
                elif "value" in out:
                    ctx.fail("create:unlinked-field-accepted",
                             f"a converter was produced and returned a value although the linking rules leave the "
                             f"destination field {e} without a link (required, or optional under the forbidding policy)",
                             case)
            except Undefined:
                exp = None
            if case["api"] == "convert" and out.get("exc") == "ProviderNotFoundError":
                continue
            if exp is not None:
                if "value" not in out:
                    ctx.fail(f"call:raises-{out['exc']}",
                             f"calling the produced converter raised {out['exc']}; the documented result is "
                             f"{json.dumps(exp)[:300]}", case)
                elif out["value"] != exp:
                    ctx.fail("result:differs-from-linking-rules" + _as_is_suffix(rc, case, args, kwargs, out["value"]),
                             f"converter returned {json.dumps(out['value'])[:400]} but the linking rules give "
                             f"{json.dumps(exp)[:400]}", case)
    if case["api"] == "convert" and any(r.get("exc") == "ProviderNotFoundError" for r in results):
        created = ("not_found",)          # convert() builds the converter inside the call
        real_view["created"] = "not_found"
        kind = f"{case['api']}:not_found"
    real_view["results"] = [{"skip": True} if r.get("skip") else r.get("value", {"exc": r.get("exc")}) for r in results]
    ctx.note_case({"sig": case["sig"], "recipe": case["recipe"], "classes": case["classes"]},
                  nontrivial=nontrivial(case, created[0] == "ok"), kind=kind)
    for c in case["classes"]:
        ctx.dist[f"kind-{c['role']}-{c['kind']}"] += 1
    for p in case["recipe"]:
        ctx.dist[f"provider-{p['k']}"] += 1
    ctx.dist[f"params-{min(len(case['sig']['params']) - 1, 3)}"] += 1
    note_structure(ctx, case)
    for k, v in spec.stats.items():       # value regions the documented algorithm went through in this case's calls
        ctx.dist[k] += v
    if any(k.startswith("val-optional-coerced:falsy") for k in spec.stats):
        ctx.dist["case-falsy-value-through-coercing-optional"] += 1
    if "generic-hint-flipped-order" in generic_regions(case):
        # the newly covered region: how many such cases get a converter whose calls are held against the rules
        ctx.dist[f"generic-hint-flipped-order:converter-{created[0]}"] += 1
        if created[0] == "ok" and any("value" in r for r in results):
            ctx.dist["generic-hint-flipped-order:result-compared-with-linking-rules"] += 1

    if reply is not None and created[0] != "error" and spec.tag_decided:
        ctx.dist["outside-model:tagged-hint-decides-a-predicate"] += 1      # see check_history
    elif reply is not None and created[0] != "error":
        compared = 1
        model_view = None
        if "ok" not in reply:
            model_view = reply
        else:
            m = reply["ok"]
            if not m.get("wf"):
                # the case lies outside the hypotheses of the theorems (ShapeWF, distinct parameter names): a
                # generator bug, reported as a broken tie rather than silently counted as evidence
                ctx.disagree("convert-hypotheses", short(case), "generated world", "shapeWFb = false")
            model_created = "ok" if m["created"] else "not_found"
            model_view = {"created": model_created}
            if m["created"]:
                model_view["results"] = [canon_value(rc.u, r["model"]) if r["model"] is not None else {"exc": "TypeError"}
                                         for r in m["results"]]
                for r in m["results"]:
                    if r["model"] != r["spec"]:
                        ctx.disagree("convert-model-vs-spec", short(case), r["spec"], r["model"])
            # a runtime failure of the real call is compared by class only for signature mismatches
            rv = copy.deepcopy(real_view)
            rv["results"] = [r if "exc" not in r or r["exc"] == "TypeError" else {"exc": r["exc"]} for r in rv.get("results", [])]
            if created[0] != "ok":
                rv.pop("results", None)
            elif "results" in model_view:
                model_view["results"] = [{"skip": True} if r.get("skip") else mr
                                         for r, mr in zip(rv["results"], model_view["results"])]
            if rv != model_view:
                disagreements = 1
        if disagreements or "ok" not in reply:
            disagreements = 1
            ctx.disagree(suite, short(case), real_view, model_view)
    ctx.sample({"suite": suite, "api": case["api"], "sig": case["sig"], "recipe": case["recipe"][:4],
                "real": real_view}, every=97)
    return compared, disagreements, world


def link_applicable(case):
    sig = case["sig"]
    return (sig["ret"]["t"] == "model" and sig["params"][0]["ty"]["t"] == "model"
            and all(p["kind"] not in ("var_pos", "var_kw") for p in sig["params"]))


def canon_linking(u, j):
    j = dict(j)
    if j.get("l") == "field":
        j["coercer"] = j.get("coercer") not in (None, False)
    elif j.get("l") == "const":
        j["value"] = canon_value(u, j["value"])
    elif j.get("l") == "factory":
        j.pop("f", None)
    return j


def check_links(ctx: Ctx, case, reply, rc=None):
    """suite `link`: the linkings the real ModelCoercerProvider fetches for the top-level model pair (observed by a
    recording subclass) against `fetchFieldLinking` of the model"""
    rc = rc or RealCase(case)
    real = rc.observe_linkings()
    if "ok" not in reply:
        model = reply
    else:
        model = [[fid, canon_linking(rc.u, lk)] for fid, lk in reply["ok"]]
        if any(lk.get("l") == "failed" for _, lk in model):
            model = None
    if real is not None:
        real = [[fid, canon_linking(rc.u, lk)] for fid, lk in real]
    if real is None:
        # the converter may also fail after linking (no coercer for a linked pair): only the model's
        # "a field cannot be linked" is comparable then, through the `convert` suite
        return 0, 0
    if real != model:
        ctx.disagree("link", short(case), real, model)
        return 1, 1
    return 1, 0


def run_cases(ctx: Ctx, cases, drv, suite="convert"):
    reqs = []
    link_idx = []
    rcs = []          # the real classes of a case are materialised once and shared by both suites
    for i, case in enumerate(cases):
        try:
            rc = RealCase(case)
        except Exception as e:
            raise InfraError(f"cannot materialise case: {type(e).__name__}: {e}\n{json.dumps(case)[:3000]}")
        rcs.append(rc)
        world = rc.u.world_json()
        reqs.append(lean_request(case, world))
        if link_applicable(case) and suite == "convert":
            link_idx.append(i)
    link_reqs = [{"op": "link", "world": reqs[i]["world"], "sig": cases[i]["sig"], "recipe": cases[i]["recipe"]}
                 for i in link_idx]
    replies = drv.batch(reqs + link_reqs) if drv else [None] * len(cases)
    n = d = 0
    for case, rep, rc in zip(cases, replies, rcs):
        c, dd, _ = check_case(ctx, case, rep, suite, rc)
        n += c
        d += dd
    if drv:
        ctx.suite(suite, n, d)
        ln = ld = 0
        for i, rep in zip(link_idx, replies[len(cases):]):
            a, b = check_links(ctx, cases[i], rep, rcs[i])
            ln += a
            ld += b
        if link_idx:
            ctx.suite("link", ln, ld)


# ---------------------------------------------------------------------------
# histories: several requests on ONE retort (suite `history`)
# ---------------------------------------------------------------------------

def step_sig(st):
    """the signature get_converter / convert build for a pair (`_make_simple_converter`); an impl_converter
    step uses a stub with the same signature"""
    return {"params": [{"name": "src", "kind": "pos_only", "ty": st["src"]}], "ret": st["dst"]}


def history_request(case, world):
    h = case["history"]
    steps = []
    for st in h["steps"]:
        if st["op"] == "extend":
            steps.append({"op": "extend", "on": st["on"], "recipe": st["recipe"]})
        elif st["op"] == "impl":
            steps.append({"op": "impl", "on": st["on"], "recipe": st["recipe"], "sig": step_sig(st), "calls": st["calls"]})
        else:
            steps.append({"op": st["op"], "on": st["on"], "recipe": st["recipe"], "src": st["src"], "dst": st["dst"],
                          "name": st.get("name"), "calls": st["calls"]})
    return {"op": "history", "world": world, "retorts": [h["base"]], "fuel": 40, "steps": steps}


def _expected(rc, spec, call):
    """documented result of one call: ("value", json) | ("unlinked", field) | ("undefined",)"""
    args = [rc.u.from_json(a) for a in call["args"]]
    kwargs = [(k, rc.u.from_json(v)) for k, v in call["kwargs"]]
    try:
        return ("value", canon_value(rc.u, spec.expected(args, kwargs)))
    except Unlinked as e:
        return ("unlinked", str(e), e.below_same_tagged_hint)
    except Undefined:
        return ("undefined",)


def check_history(ctx: Ctx, case, reply, suite="history", rc=None):
    """runs one history on the real library: every request is made on the same retort object(s) in order, and
    every converter obtained is held against the linking rules of the recipe in force for *that* request (the
    per-call providers, then the providers of the addressed retort) - the direct oracle - and against the model
    of the facade with its converter cache. returns (compared, disagreements)"""
    try:
        rc = rc or RealCase(case)
    except Exception as e:
        raise InfraError(f"cannot materialise case: {type(e).__name__}: {e}\n{json.dumps(case)[:2000]}")
    h = case["history"]
    retorts = [None if h["mode"] == "global" else rc.new_retort(h["base"])]
    recipes = [h["base"]]                 # recipe of every retort of the history
    earlier = {}                          # cache key -> kinds of the successful requests made for it so far
    real_rows = []
    labels = []
    compared = disagreements = 0
    model_rows = None
    if reply is not None:
        if "ok" not in reply:
            ctx.disagree(suite, short(case), "history", reply)
            return 1, 1
        if not reply["ok"].get("wf"):
            ctx.disagree("convert-hypotheses", short(case), "generated world", "shapeWFb = false")
        model_rows = reply["ok"]["steps"]
    for idx, st in enumerate(h["steps"]):
        upto = {**case, "history": {**h, "steps": h["steps"][:idx + 1]}}     # the replay stops at the failing request
        if st["op"] == "extend":
            retorts.append(rc.extend_retort(retorts[st["on"]], st["recipe"]))
            recipes.append(st["recipe"] + recipes[st["on"]])
            real_rows.append({"extended": True})
            ctx.dist["hist-op-extend"] += 1
            continue
        sig = step_sig(st)
        in_force = st["recipe"] + recipes[st["on"]]
        spec = Spec({"sig": sig, "recipe": in_force}, rc.u)
        what = "recipe" if st["recipe"] else "plain"
        key = None if st["op"] == "impl" else \
            (st["on"], json.dumps(st["src"], sort_keys=True), json.dumps(st["dst"], sort_keys=True), st.get("name"))
        prev = earlier.get(key, []) if key is not None else []
        label = "impl-never-cached" if key is None else \
            f"{what}-after-" + ("+".join(x for x in ("plain", "recipe") if x in prev) or "nothing")
        labels.append(label)
        ctx.dist[f"hist-{label}"] += 1
        if st["on"] > 0:
            ctx.dist["hist-request-on-extended-retort"] += 1
        if st["src"] == st["dst"]:
            ctx.dist["hist-request-copy-pair"] += 1
        where = f"request #{idx} ({st['op']} on retort {st['on']}, {what}, {label})"

        created = rc.request(retorts[st["on"]], st, sig)
        plain_spec = None
        if created[0] != "ok" and st["calls"]:
            try:                                  # whether a tag decides a predicate is known only after an evaluation
                _expected(rc, spec, st["calls"][0])
            except Exception:  # noqa: BLE001,S110
                pass
        row = {"created": created[0]}
        if created[0] == "error":
            ctx.fail(f"history:create:raises-{created[1]}",
                     f"{where}: creating the converter raised {created[1]} instead of returning a converter or "
                     f"ProviderNotFoundError", upto)
        results = []
        differs_from_plain = False
        if created[0] == "ok":
            conv, stub = created[1], created[2]
            if stub is not None:
                rep = rc.signature_report(conv, stub)
                if rep is not None:
                    ctx.fail("history:signature:not-preserved",
                             f"{where}: impl_converter result does not carry the stub's signature: {rep}", upto)
            plain_spec = Spec({"sig": sig, "recipe": recipes[st["on"]]}, rc.u) if st["recipe"] else None
            for call in st["calls"]:
                out = rc.call(conv, call)
                if "value" in out:
                    out["value"] = canon_value(rc.u, out["value"])
                results.append(out)
                if out.get("exc") == "ValidationError":
                    out["skip"] = True            # a pydantic destination's own checks: outside the property
                    ctx.dist["call-skipped-pydantic-validation"] += 1
                    continue
                if not out["src_unchanged"]:
                    ctx.fail("history:source:modified", f"{where}: the source object changed during the call", upto)
                exp = _expected(rc, spec, call)
                if plain_spec is not None and _expected(rc, plain_spec, call) != exp:
                    differs_from_plain = True
                if exp[0] == "unlinked" and "value" in out:
                    ctx.fail("history:unlinked-field-accepted" + (":below-same-tagged-hint" if exp[2] else ""),
                             f"{where}: a converter was returned and produced a value although the linking rules of "
                             f"the recipe in force leave the destination field {exp[1]} without a link", upto)
                if st["op"] == "convert" and out.get("exc") == "ProviderNotFoundError":
                    continue
                if exp[0] == "value":
                    if "value" not in out:
                        ctx.fail(f"history:call:raises-{out['exc']}",
                                 f"{where}: calling the converter raised {out['exc']}; the documented result is "
                                 f"{json.dumps(exp[1])[:300]}", upto)
                    elif out["value"] != exp[1]:
                        ctx.fail("history:result-differs-from-linking-rules",
                                 f"{where}: converter returned {json.dumps(out['value'])[:300]} but the linking rules "
                                 f"of the recipe in force give {json.dumps(exp[1])[:300]}", upto)
            if st["op"] == "convert" and any(r.get("exc") == "ProviderNotFoundError" for r in results):
                row["created"] = "not_found"      # convert() builds the converter inside the call
        if row["created"] == "ok":
            row["results"] = [{"skip": True} if r.get("skip") else r.get("value", {"exc": r.get("exc")}) for r in results]
            if key is not None:
                earlier.setdefault(key, []).append(what)
        ctx.dist[f"hist-op-{st['op']}:{row['created']}"] += 1
        if differs_from_plain and label.startswith("recipe-after-plain"):
            ctx.dist["hist-recipe-after-plain:result-differs-from-plain-result"] += 1
        real_rows.append(row)

        if model_rows is not None and created[0] != "error" and \
                (spec.tag_decided or (plain_spec is not None and plain_spec.tag_decided)):
            # a type hint tag (NotRequired / Annotated) hid a field's type from a predicate that holds of the bare type:
            # the Lean model's locations carry no tags - the request is judged by the oracle only
            ctx.dist["outside-model:tagged-hint-decides-a-predicate"] += 1
        elif model_rows is not None and created[0] != "error":
            compared += 1
            m = model_rows[idx]
            mv = {"created": "ok" if m.get("created") else "not_found"}
            rv = copy.deepcopy(row)
            if m.get("created"):
                for r in m["results"]:
                    if r["model"] != r["spec"]:
                        ctx.disagree("history-model-vs-spec", short(upto), r["spec"], r["model"])
                mv["results"] = [canon_value(rc.u, r["model"]) if r["model"] is not None else {"exc": "TypeError"}
                                 for r in m["results"]]
            if "results" in rv:
                rv["results"] = [r if "exc" not in r or r["exc"] == "TypeError" else {"exc": r["exc"]} for r in rv["results"]]
                if "results" in mv:
                    mv["results"] = [{"skip": True} if r.get("skip") else mr for r, mr in zip(rv["results"], mv["results"])]
            if rv != mv:
                disagreements += 1
                ctx.disagree(suite, short(upto), rv, mv)
    again = [lb for lb in labels if not lb.endswith("-after-nothing") and lb != "impl-never-cached"]
    ctx.note_case({"classes": case["classes"], "history": h}, nontrivial=bool(again), kind=f"history:{h['mode']}")
    ctx.dist[f"hist-requests-{min(len(labels), 6)}"] += 1
    if any(lb.startswith("recipe-after-plain") for lb in labels):
        ctx.dist["hist-case-with-recipe-after-plain"] += 1
    for k, v in (case.get("profile") or {}).items():
        if v:
            ctx.dist[f"hist-profile-{k}"] += 1
    for k in generic_regions(case):
        ctx.dist[f"hist-{k}"] += 1
    ctx.sample({"suite": suite, "mode": h["mode"], "base": h["base"][:3],
                "steps": [{k: v for k, v in st.items() if k != "calls"} for st in h["steps"]][:4],
                "real": real_rows[:4]}, every=53)
    return compared, disagreements


def run_histories(ctx: Ctx, cases, drv, suite="history"):
    rcs, reqs = [], []
    for case in cases:
        try:
            rc = RealCase(case)
        except Exception as e:
            raise InfraError(f"cannot materialise case: {type(e).__name__}: {e}\n{json.dumps(case)[:3000]}")
        rcs.append(rc)
        reqs.append(history_request(case, rc.u.world_json()))
    replies = drv.batch(reqs) if drv else [None] * len(cases)
    n = d = 0
    for case, rep, rc in zip(cases, replies, rcs):
        a, b = check_history(ctx, case, rep, suite, rc)
        n += a
        d += b
    if drv:
        ctx.suite(suite, n, d)


def _fixed_cases():
    """hand-written corner cases run first on every seed (docs examples and past findings)"""
    from harness.props.c13_gen import atom_json
    from harness.props.c13_world import LEAF_ANY, LEAF_INT, leaf, model_ty
    out = []
    A = leaf(LEAF_ANY)
    S = {"id": 0, "role": "src", "kind": "dataclass", "name": "S0", "fields": [{"id": "a", "ty": leaf(LEAF_INT)}, {"id": "b", "ty": A}]}
    D = {"id": 1, "role": "dst", "kind": "dataclass", "name": "D1", "fields": [{"id": "a", "ty": leaf(LEAF_INT)}, {"id": "b", "ty": A}]}
    obj = {"v": "obj", "cls": 0, "fields": [["a", atom_json(5)], ["b", atom_json("x")]]}
    from harness.props.c13_gen import LOOKALIKES
    # stub defaults that are not Python literals, hostile function names
    for i, d in enumerate(LOOKALIKES):
        out.append({"classes": [S, D], "api": "impl_converter", "fname": ["conv", "coercer", "data"][i % 3], "recipe": [],
                    "sig": {"params": [{"name": "s", "kind": "pos_or_kw", "ty": model_ty(0)},
                                       {"name": "b", "kind": "pos_or_kw", "ty": A, "default": d}], "ret": model_ty(1)},
                    "calls": [{"args": [obj], "kwargs": []}, {"args": [obj], "kwargs": [["b", atom_json(7)]]}], "split": 0})
        out.append({"classes": [S, D], "api": "get_converter", "fname": [None, "coercer", "src"][i % 3],
                    "recipe": [{"k": "link_constant", "dst": {"p": "name", "n": "b"}, "value": d}],
                    "sig": {"params": [{"name": "src", "kind": "pos_only", "ty": model_ty(0)}], "ret": model_ty(1)},
                    "calls": [{"args": [obj], "kwargs": []}], "split": 0})
    return out


def _tagged_same_type_cases():
    """regression family of the thorough-tier alarm C13-0d16db29ab3d (notes/C13-thorough-alarm.md): a nested model
    `Inner` reached through a field both sides declare with the same hint - bare (control), `NotRequired[Inner]`,
    `Annotated[Inner, "m"]` or both tags - while the recipe makes the conversion Inner -> Inner impossible (a
    link_function parameter matching no field; a link between fields no coercer connects) or leaves it possible.
    The linking rules know no tags: the impossible ones have no converter, the possible one rebuilds `Inner` with the
    constant. The unrepaired TypeHintTagsUnwrappingProvider demoted the refusal to a non-terminal one and
    SameTypeCoercerProvider then passed the nested object through as is."""
    from harness.props.c13_gen import atom_json
    from harness.props.c13_world import LEAF_ANY, LEAF_INT, LEAF_STR, leaf, model_ty
    A, I, St = leaf(LEAF_ANY), leaf(LEAF_INT), leaf(LEAF_STR)
    name = lambda n: {"p": "name", "n": n}  # noqa: E731
    const_a = {"k": "link_constant", "dst": name("a"), "value": atom_json(7)}
    causes = [
        ("function-parameter-unmatched", I, atom_json(2),
         [const_a, {"k": "link_function", "dst": {"p": "names", "ns": ["b", "zz"]}, "f": 1, "fname": None,
                    "params": [{"name": "model", "kind": "pos_only", "ty": A},
                               {"name": "missing", "kind": "kw_only", "ty": A}]}]),
        ("no-coercer-for-linked-pair", St, atom_json("x"),
         [const_a, {"k": "link", "src": name("a"), "dst": name("b"), "coercer": None}]),
        ("linkable", I, atom_json(2), [const_a]),
    ]
    variants = [("dataclass", {}), ("typeddict", {"not_required": True}), ("typeddict", {"annotated": "m"}),
                ("typeddict", {"not_required": True, "annotated": "m"}), ("dataclass", {"annotated": "m"}),
                ("namedtuple", {"annotated": "m"}), ("attrs", {"annotated": "m"})]
    out = []
    for kind, tag in variants:
        for _cause, b_ty, b_val, recipe in causes:
            inner = {"id": 0, "role": "src", "kind": kind, "name": "Inner0",
                     "fields": [{"id": "a", "ty": I}, {"id": "b", "ty": b_ty}]}
            outer = {"id": 1, "role": "src", "kind": kind, "name": "Outer1",
                     "fields": [{"id": "inner", "ty": model_ty(0), **tag}]}
            outer_val = {"v": "obj", "cls": 1, "fields": [
                ["inner", {"v": "obj", "cls": 0, "fields": [["a", atom_json(1)], ["b", b_val]]}]]}
            # the copy pair Outer -> Outer
            out.append({"classes": [inner, outer], "api": "get_converter", "fname": None, "recipe": recipe, "split": 0,
                        "sig": {"params": [{"name": "src", "kind": "pos_only", "ty": model_ty(1)}], "ret": model_ty(1)},
                        "calls": [{"args": [outer_val], "kwargs": []}]})
            # an extra parameter of the destination field's own class (the shape of the alarm)
            src = {"id": 2, "role": "src", "kind": kind, "name": "Src2", "fields": [{"id": "z", "ty": I}]}
            top = {"id": 3, "role": "dst", "kind": kind, "name": "Top3",
                   "fields": [{"id": "o", "ty": model_ty(1)}, {"id": "z", "ty": I}]}
            src_val = {"v": "obj", "cls": 2, "fields": [["z", atom_json(5)]]}
            out.append({"classes": [inner, outer, src, top], "api": "impl_converter", "fname": None, "recipe": recipe,
                        "split": 0,
                        "sig": {"params": [{"name": "s", "kind": "pos_only", "ty": model_ty(2)},
                                           {"name": "o", "kind": "pos_or_kw", "ty": model_ty(1)}], "ret": model_ty(3)},
                        "calls": [{"args": [src_val, outer_val], "kwargs": []},
                                  {"args": [src_val], "kwargs": [["o", outer_val]]}]})
    return out


def _generic_order_cases():
    """systematic family run on every seed: a generic source class `S(Generic[T0, .., T(n-1)])` (n = 2, 3; the four
    model kinds that can be generic) with a field whose hint mentions the variables in EVERY order - all n!
    permutations, the declared order being the control - as `Dict[Ta, Tb]` or as a nested generic model
    `E[Ta, Tb(, Tc)]`, converted to a destination declaring the same hints (generic as well, or written out with
    plain types). The actual arguments make the coercers of different variables different, so that mixed-up
    arguments show in the result: sibling models (same field names, own destination classes), or int arguments whose
    destination arguments are str (served by a user coercer), int and Any. Expected values come from the harness's own
    substitution (Universe) and the linking rules (Spec), like for every other case."""
    import itertools
    import random

    from harness.props.c13_gen import Gen
    from harness.props.c13_world import LEAF_ANY, LEAF_INT, LEAF_STR, leaf, model_ty, subst, var
    I, St, A = leaf(LEAF_INT), leaf(LEAF_STR), leaf(LEAF_ANY)
    coercer = {"k": "coercer", "src": {"p": "origin", "o": {"o": "leaf", "n": LEAF_INT}},
               "dst": {"p": "origin", "o": {"o": "leaf", "n": LEAF_STR}}, "f": 1}
    out = []
    idx = 0
    for kind in ("dataclass", "namedtuple", "typeddict", "attrs"):
        for n in (2, 3):
            for order in itertools.permutations(range(n)):
                for shape in ("dict", "nested"):
                    for style in ("models", "leaves"):
                        idx += 1
                        classes = []

                        def new(role, fields, **extra):
                            c = {"id": len(classes), "role": role, "kind": kind,
                                 "name": f"{'S' if role == 'src' else 'D'}{len(classes)}", "fields": fields, **extra}
                            classes.append(c)
                            return c
                        key = order[0] if shape == "dict" else None
                        sargs, dargs = [], []
                        for i in range(n):
                            if style == "models" and i != key:
                                sargs.append(model_ty(new("src", [{"id": "id", "ty": I}, {"id": "w", "ty": I}])["id"]))
                                dargs.append(model_ty(new("dst", [{"id": "id", "ty": I}])["id"]))
                            else:
                                sargs.append(I)
                                dargs.append([St, I, A][i] if style == "leaves" else St)
                        if shape == "dict":
                            hs = hd = {"t": "dict", "k": var(order[0]), "v": var(order[1])}
                        else:
                            ahints = [var(i) for i in order]
                            efields = [{"id": f"e{i}", "hint": var(i)} for i in range(n)]
                            es = new("src", copy.deepcopy(efields), tvars=n, targs=[subst(h, sargs) for h in ahints])
                            ed = new("dst", copy.deepcopy(efields), tvars=n, targs=[subst(h, dargs) for h in ahints])
                            hs = {"t": "model", "cls": es["id"], "inst": 0, "args": ahints}
                            hd = {"t": "model", "cls": ed["id"], "inst": 0, "args": ahints}
                        control = {"t": "iter", "o": "list", "a": var(n - 1)}
                        top_s = new("src", [{"id": "f", "hint": hs}, {"id": "g", "hint": control}, {"id": "extra", "ty": I}],
                                    tvars=n, targs=sargs)
                        if idx % 2:
                            top_d = new("dst", [{"id": "f", "hint": hd}, {"id": "g", "hint": control}], tvars=n, targs=dargs)
                        else:       # the destination spells the types out
                            top_d = new("dst", [{"id": "f", "ty": subst(hd, dargs)}, {"id": "g", "ty": subst(control, dargs)}])
                        case = {"classes": classes, "api": "get_converter", "fname": None, "recipe": [coercer], "split": 0,
                                "sig": {"params": [{"name": "src", "kind": "pos_only", "ty": model_ty(top_s["id"])}],
                                        "ret": model_ty(top_d["id"])}}
                        for c in classes:           # every field carries its type, computed by the harness
                            for f in c["fields"]:
                                if "ty" not in f:
                                    f["ty"] = subst(f["hint"], c["targs"])
                        from harness.props.c13_world import Universe
                        u = Universe(classes)
                        g = Gen(random.Random(idx))
                        g.falsy = False
                        vals = []
                        while len(vals) < 2:
                            v = g.value(model_ty(top_s["id"]), u.logical)
                            fv = dict(v["fields"])["f"]
                            if fv["v"] != "dict" or fv["kvs"]:      # an empty dict shows nothing
                                vals.append(v)
                        case["calls"] = [{"args": [v], "kwargs": []} for v in vals]
                        out.append(case)
    return out


def _position_cases():
    """systematic family run on every seed: EQUAL (source type, destination type) pairs at sibling positions -
    key and value of a mapping, the mapping below / above a list, Optional, a second mapping, several fields of
    one model, the converter's own pair - crossed with ONE user coercer bound to a position (`P[dict].generic_arg(i,
    T)` on the source or the destination side, `P.generic_arg(i, T)` below any parent, `P[list].generic_arg(0, T)`,
    `P.<field>.generic_arg(1, T)`) standing before / after the general coercer of the pair in the recipe.
    Expected values come from the linking rules (Spec): per position the FIRST recipe entry whose predicates hold
    on that position's location stacks, evaluated by the harness."""
    import random

    from harness.props.c13_gen import Gen
    from harness.props.c13_world import LEAF_INT, LEAF_STR, Universe, leaf, model_ty
    org = lambda n: {"p": "origin", "o": {"o": "leaf", "n": n}}  # noqa: E731
    garg = lambda pos, n: {"p": "garg", "pos": pos, "q": org(n)}  # noqa: E731
    end = lambda *els: {"p": "end", "stack": list(els)}  # noqa: E731
    DICT = {"p": "origin", "o": {"o": "dict"}}
    LIST = {"p": "origin", "o": {"o": "iter", "k": "list"}}
    dct = lambda k, v: {"t": "dict", "k": k, "v": v}  # noqa: E731
    lst = lambda a: {"t": "iter", "o": "list", "a": a}  # noqa: E731
    opt = lambda a: {"t": "opt", "a": a}  # noqa: E731
    shapes = {
        "dict": lambda x: [("table", dct(x, x))],
        "dict-of-list": lambda x: [("table", dct(x, lst(x)))],
        "list-of-dict": lambda x: [("table", lst(dct(x, x)))],
        "dict-of-dict": lambda x: [("table", dct(x, dct(x, x)))],
        "dict-of-optional": lambda x: [("table", dct(x, opt(x)))],
        "several-fields": lambda x: [("table", lst(x)), ("y", opt(x)), ("z", x), ("w", dct(x, x))],
        "top-level-dict": None,
    }
    out = []
    idx = 0
    kinds = ["dataclass", "namedtuple", "typeddict", "attrs"]
    for a, b in ((LEAF_STR, LEAF_INT), (LEAF_STR, LEAF_STR)):
        bounds = [(end(DICT, garg(0, a)), org(b)), (end(DICT, garg(1, a)), org(b)),
                  (org(a), end(DICT, garg(0, b))), (org(a), end(DICT, garg(1, b))),
                  (garg(0, a), org(b)), (garg(1, a), {"p": "any"}),
                  (end(LIST, garg(0, a)), org(b)),
                  (org(a), end({"p": "name", "n": "table"}, garg(1, b)))]
        for shape, mk in shapes.items():
            for bi, (bs, bd) in enumerate(bounds):
                for order in ("bound-first", "general-first"):
                    idx += 1
                    kind = kinds[idx % 4]
                    bound = {"k": "coercer", "src": bs, "dst": bd, "f": 1}
                    general = {"k": "coercer", "src": org(a), "dst": org(b), "f": 2}
                    recipe = [bound, general] if order == "bound-first" else [general, bound]
                    if mk is None:
                        classes = []
                        sty, dty = dct(leaf(a), leaf(a)), dct(leaf(b), leaf(b))
                    else:
                        classes = [
                            {"id": 0, "role": "src", "kind": kind, "name": "S0",
                             "fields": [{"id": n, "ty": t} for n, t in mk(leaf(a))] + [{"id": "extra", "ty": leaf(LEAF_INT)}]},
                            {"id": 1, "role": "dst", "kind": kinds[(idx // 4) % 4], "name": "D1",
                             "fields": [{"id": n, "ty": t} for n, t in mk(leaf(b))]}]
                        sty, dty = model_ty(0), model_ty(1)
                    case = {"classes": classes, "api": ["get_converter", "impl_converter"][bi % 2], "fname": None,
                            "recipe": recipe, "split": 0, "profile": {"position-family": True},
                            "sig": {"params": [{"name": "src", "kind": "pos_only", "ty": sty}], "ret": dty}}
                    u = Universe(classes)
                    g = Gen(random.Random(idx))
                    g.falsy = False
                    v = None
                    for _ in range(30):
                        v = g.value(sty, u.logical)
                        if '"kvs": []' not in json.dumps(v) and '"xs": []' not in json.dumps(v):
                            break
                    case["calls"] = [{"args": [v], "kwargs": []}]
                    out.append(case)
    return out


def run(ctx: Ctx):
    drv = None
    if ctx.driver_ok:
        try:
            drv = Driver("drv_c13")
        except InfraError:
            drv = None
    run_cases(ctx, _fixed_cases() + _tagged_same_type_cases(), drv, "convert")
    fam = _generic_order_cases()
    ctx.dist["generic-order-family-cases"] += len(fam)
    run_cases(ctx, fam, drv, "convert")
    fam = _position_cases()
    ctx.dist["position-family-cases"] += len(fam)
    run_cases(ctx, fam, drv, "convert")
    n = ctx.budget(1800, 19000)
    batch = 500
    done = 0
    while done < n:
        cases = [gen_case(ctx.rng) for _ in range(min(batch, n - done))]
        run_cases(ctx, cases, drv, "convert")
        done += len(cases)
    # histories: the same pair requested several times on one retort, with and without per-call recipes
    n = ctx.budget(320, 4000)
    done = 0
    while done < n:
        cases = [gen_history(ctx.rng) for _ in range(min(batch, n - done))]
        run_histories(ctx, cases, drv, "history")
        done += len(cases)
    ctx.extra["exhaustive"] = False


def search(ctx: Ctx):
    """after a broken tie: the disagreeing cases first (direct oracle already ran on them), then a larger budget"""
    for d in ctx.disagreements[:100]:
        if isinstance(d.get("case"), dict) and "history" in d["case"]:
            check_history(ctx, d["case"], None, "search")
        elif isinstance(d.get("case"), dict) and "classes" in d["case"]:
            check_case(ctx, d["case"], None, "search")
    if not ctx.failures:
        for i in range(6000):
            if i % 4 == 3:
                check_history(ctx, gen_history(ctx.rng), None, "search")
            else:
                check_case(ctx, gen_case(ctx.rng), None, "search")
            if ctx.failures:
                break


def replay(ctx: Ctx, case) -> bool:
    before = len(ctx.failures)
    if "history" in case:
        check_history(ctx, case, None, "replay")
    else:
        check_case(ctx, case, None, "replay")
    return len(ctx.failures) > before
